"""C07 / change a -- peak extraction (tmana.scores_extract_particles) with the suppression loop on arrays.

1. Property check against an independent brute-force computation (no KD-tree, no sorting by the library):
   peaks > threshold, pairwise farther apart than the diameter, every supra-threshold voxel within the diameter of
   a peak with an equal or higher score, each peak carries its voxel's score, its 1-based position and the Euler
   angles its angle-map entry points to (numbering 0/1, zxz/zzx files, arrays).
2. The function in the worktree is compared with the ORIGINAL function text (kept below) on the same inputs,
   also outside the quantifier (plateaus, integer / unsigned maps, n_particles, cluster_size, masks, symmetry).
Run: cd /tmp/wt7/C07 && /venv/bin/python /tmp/seedsT/C07/a/demo.py
"""
import sys, os

sys.path.insert(0, os.getcwd())
import io, contextlib, tempfile, warnings, itertools

warnings.filterwarnings("ignore")
import numpy as np
import pandas as pd
from cryocat import tmana, cryomotl

ORIGINAL = '''
def scores_extract_particles_orig(
    scores_map,
    angles_map,
    angles_list,
    tomo_id,
    particle_diameter,
    object_id=None,
    scores_threshold=None,
    sigma_threshold=None,
    cluster_size=None,
    n_particles=None,
    output_path=None,
    output_type="emmotl",
    angles_order="zxz",
    symmetry="c1",
    angles_numbering=0,
    tomo_mask=None,
):
    if symmetry.lower().startswith("c"):
        symmetry = int(re.findall(r"\\d+", symmetry)[-1])
    else:
        warnings.warn(
            f"Only C symmetry is supported. Provided {symmetry} is currently not supported and will be ignored."
        )
        symmetry = 1

    # load the scores map
    scores_map = cryomap.read(scores_map)

    # load the angles map
    angles_map = cryomap.read(angles_map)

    # Read angle list.
    anglist = ioutils.rot_angles_load(angles_list, angles_order=angles_order)

    # load and apply a tomogram mask if any:
    if tomo_mask is not None:
        tomo_mask = cryomap.read(tomo_mask)
        scores_map = scores_map * tomo_mask

    if object_id is None:
        object_id = 1

    if scores_threshold is not None:
        threshold = scores_threshold
    elif sigma_threshold is None:
        threshold = compute_scores_map_threshold_triangle(scores_map)
    else:
        # Set threshold by sigma value
        score_mean = scores_map.mean()
        score_std = scores_map.std(ddof=1)
        threshold = score_mean + sigma_threshold * score_std

    # Threshold and sort indices/scores
    t_idx = np.where(scores_map > threshold)

    k = len(t_idx[0])

    # Check for early termination
    if k == 0:
        return None

    k = min(k, len(scores_map[t_idx])) - 1
    s_idx = np.argpartition(-scores_map[t_idx], k)[: k + 1]
    s_idx = s_idx[np.argsort(-scores_map[t_idx][s_idx])]  # Sort for later

    # Sorted indices. s_ind[0] = x, s_ind[1] = y, s_ind[2] = z
    s_ind = np.array([t_idx[0][s_idx], t_idx[1][s_idx], t_idx[2][s_idx]])
    # n_vox = len(s_idx)

    # Create a list of tuples where each tuple is (coord, score) and sort it by score in descending order
    scored_coords = sorted(zip(s_ind.T, scores_map[s_ind[0], s_ind[1], s_ind[2]]), key=lambda x: x[1], reverse=True)

    # Build a KD-tree with the coordinates
    tree = KDTree([coord for coord, score in scored_coords])

    # Remove any points that are within the specified particle diameter of a higher score point
    coord_to_score = {tuple(coord): score for coord, score in scored_coords}
    remaining_coords = set(coord_to_score.keys())
    filtered_coords = []

    for coord, score in scored_coords:
        if tuple(coord) not in remaining_coords:
            continue
        filtered_coords.append((coord, score))
        nearby_coords = tree.query_ball_point(coord, particle_diameter)
        for nearby_coord in nearby_coords:
            nearby_coord_tuple = tuple(scored_coords[nearby_coord][0])
            if nearby_coord_tuple in remaining_coords and coord_to_score[nearby_coord_tuple] <= score:
                remaining_coords.remove(nearby_coord_tuple)

    # Extract the coordinates from the filtered_coords list
    filtered_coords, filtered_scores = zip(*filtered_coords)
    filtered_coords = np.array(filtered_coords)
    filtered_scores = np.array(filtered_scores)

    # Use DBSCAN to cluster points
    clusterer = DBSCAN(eps=particle_diameter / 2, min_samples=1)
    cluster_labels = clusterer.fit_predict(filtered_coords)

    # Keep track of hits in case of number of particles
    filtered_hit_idx = np.zeros(len(filtered_coords), dtype=bool)

    # Count number of hits
    c = 0
    for cluster_id in np.unique(cluster_labels):
        if cluster_id == -1:
            continue

        # Check cluster size
        if cluster_size is not None:
            c_size = np.sum(cluster_labels == cluster_id)
            if c_size < cluster_size:
                continue

        filtered_hit_idx[cluster_labels == cluster_id] = True
        c += np.sum(cluster_labels == cluster_id)

    # Remaining positions
    rpos = filtered_coords[filtered_hit_idx]
    filtered_scores = filtered_scores[filtered_hit_idx]
    if n_particles is not None:
        rpos = rpos[0 : min(rpos.shape[0], n_particles), :]
        filtered_scores = filtered_scores[0 : min(rpos.shape[0], n_particles)]

    # Fill orientation and scores
    # Parse angle index
    ang_idx = angles_map[rpos[:, 0], rpos[:, 1], rpos[:, 2]].astype(int) - angles_numbering

    phi = anglist[ang_idx, 0]
    theta = anglist[ang_idx, 1]
    psi = anglist[ang_idx, 2]

    if symmetry > 1:
        add_phi = np.linspace(0, 360, symmetry + 1)
        add_phi = add_phi[:-1]
        phi = phi + np.random.choice(add_phi, size=phi.shape[0])

    ##### Generate motivelist #####
    print("Generating motivelist...")

    motl = cryomotl.Motl()
    motl.fill(
        {
            "x": rpos[:, 0] + 1,
            "y": rpos[:, 1] + 1,
            "z": rpos[:, 2] + 1,
            "score": filtered_scores,
            "class": 1,
            "tomo_id": tomo_id,
            "object_id": object_id,
            "phi": phi,
            "theta": theta,
            "psi": psi,
            "subtomo_id": np.arange(1, rpos.shape[0] + 1),
        }
    )

    del s_ind, scored_coords
    gc.collect()

    if output_path is not None:
        if output_type == "emmotl":
            motl.write_out(output_path)
        elif output_type == "stopgap":
            sg_motl = cryomotl.StopgapMotl(motl.df)
            sg_motl.write_out(output_path=output_path)
        elif output_type == "relion":
            rel_motl = cryomotl.RelionMotl(motl.df)
            rel_motl.write_out(output_path=output_path)
        else:
            raise ValueError(f"The output motl type {output_type} is not currently supported.")

    return motl
'''
import types

# gc.collect() at the end of every call costs ~30 ms with all modules loaded; it has no effect on the result
tmana.gc = types.SimpleNamespace(collect=lambda: 0)
_ns = dict(vars(tmana))
exec(ORIGINAL, _ns)
extract_orig = _ns["scores_extract_particles_orig"]


def quiet(fn, *a, **k):
    with contextlib.redirect_stdout(io.StringIO()):
        return fn(*a, **k)


FAIL = []


def check(cond, msg):
    if not cond:
        FAIL.append(msg)
        if len(FAIL) < 20:
            print("FAIL:", msg)


# ---------------------------------------------------------------------------------------------------------------
# independent reference: brute-force greedy on the flattened map, plateau-free maps only
def reference(scores, angmap, anglist_ptp, thr, diam, numbering):
    """anglist_ptp: (N,3) array already in phi,theta,psi order. Returns x,y,z (1-based), score, phi,theta,psi rows."""
    vox = np.argwhere(scores > thr)
    if vox.shape[0] == 0:
        return None
    val = scores[vox[:, 0], vox[:, 1], vox[:, 2]]
    alive = np.ones(len(val), dtype=bool)
    rows = []
    while alive.any():
        cand = np.flatnonzero(alive)
        b = cand[np.argmax(val[cand])]
        d2 = ((vox - vox[b]) ** 2).sum(axis=1)  # exact integers
        alive &= ~(np.sqrt(d2) <= diam)  # inclusive: peaks end up strictly farther apart than the diameter
        a = int(angmap[tuple(vox[b])]) - numbering
        rows.append([vox[b][0] + 1, vox[b][1] + 1, vox[b][2] + 1, val[b], *anglist_ptp[a]])
    return np.array(rows, dtype=float)


def property_check(motl, scores, angmap, anglist_ptp, thr, diam, numbering, tag):
    vox = np.argwhere(scores > thr)
    if motl is None:
        check(vox.shape[0] == 0, f"{tag}: None returned although voxels exceed the threshold")
        return
    df = motl.df
    p = df[["x", "y", "z"]].to_numpy().astype(int) - 1  # 1-based -> 0-based
    check(np.array_equal(df[["x", "y", "z"]].to_numpy(), p + 1.0), f"{tag}: non-integer positions")
    check((p >= 0).all() and (p < np.array(scores.shape)).all(), f"{tag}: position outside the map")
    sc = scores[p[:, 0], p[:, 1], p[:, 2]]
    check(np.array_equal(df["score"].to_numpy(), sc.astype(float)), f"{tag}: peak does not carry its voxel's score")
    check((sc > thr).all(), f"{tag}: peak not above threshold")
    # separation (strictly farther than the diameter)
    if len(p) > 1:
        d = np.sqrt(((p[:, None, :] - p[None, :, :]) ** 2).sum(-1))
        d[np.diag_indices(len(p))] = np.inf
        check((d > diam).all(), f"{tag}: two peaks within the diameter")
    # domination
    val = scores[vox[:, 0], vox[:, 1], vox[:, 2]]
    dd = np.sqrt(((vox[:, None, :] - p[None, :, :]) ** 2).sum(-1))
    ok = ((dd <= diam) & (sc[None, :] >= val[:, None])).any(axis=1)
    check(ok.all(), f"{tag}: supra-threshold voxel not dominated by a peak within the diameter")
    # angles
    a = angmap[p[:, 0], p[:, 1], p[:, 2]].astype(int) - numbering
    check(np.array_equal(df[["phi", "theta", "psi"]].to_numpy(), anglist_ptp[a].astype(float)), f"{tag}: wrong Euler angles")
    check(np.array_equal(df["subtomo_id"].to_numpy(), np.arange(1, len(p) + 1)), f"{tag}: subtomo ids")
    # full comparison with the greedy reference
    ref = reference(scores, angmap, anglist_ptp, thr, diam, numbering)
    got = df[["x", "y", "z", "score", "phi", "theta", "psi"]].to_numpy().astype(float)
    check(ref is not None and ref.shape == got.shape and np.array_equal(ref, got), f"{tag}: differs from brute-force greedy")


def same(m_new, m_old, tag):
    if m_new is None or m_old is None:
        check(m_new is None and m_old is None, f"{tag}: None vs Motl")
        return
    try:
        pd.testing.assert_frame_equal(m_new.df, m_old.df, check_exact=True)
    except AssertionError as e:
        check(False, f"{tag}: patched vs original differ: {str(e)[:200]}")


rng = np.random.default_rng(707)
tmp = tempfile.mkdtemp()
n_cases = 0


def plateau_free(shape, dtype):
    n = int(np.prod(shape))
    # distinct values: a random permutation of an arithmetic grid plus a random offset, negative values included
    v = (rng.permutation(n).astype(np.float64) / n - rng.uniform(0.0, 0.6)) * rng.choice([1.0, 0.01, 37.0])
    return v.reshape(shape).astype(dtype)


shapes = [(1, 1, 1), (2, 3, 1), (5, 5, 5), (6, 7, 8), (9, 4, 12), (12, 12, 12), (15, 16, 17), (20, 20, 20), (24, 11, 30), (40, 40, 40)]
for shape in shapes:
    reps = 1 if np.prod(shape) > 20000 else (2 if np.prod(shape) > 1000 else 6)
    for rep in range(reps):
        dtype = [np.float32, np.float64][rep % 2]
        scores = plateau_free(shape, dtype)
        n_ang = int(rng.integers(1, 50))
        numbering = int(rng.integers(0, 2))
        angmap = (rng.integers(0, n_ang, size=shape) + numbering).astype([np.float32, np.int32, np.float64][rep % 3])
        anglist = np.column_stack(
            [rng.uniform(-180, 180, n_ang), rng.choice([0.0, 180.0, 90.0, 33.3], n_ang), rng.uniform(0, 360, n_ang)]
        )
        anglist[0] = [0.0, 0.0, 0.0]  # pole
        flat = np.sort(scores.ravel())
        thr_list = [
            float(flat[int(0.97 * (len(flat) - 1))]),  # exact value of a voxel (strict >)
            float(flat[int(0.7 * (len(flat) - 1))]) + 1e-9,
            float(flat[-1]),  # nothing above -> None
            float(flat[0]) - 1.0,  # everything above
        ]
        if np.prod(shape) > 20000:
            thr_list = thr_list[:1] + [float(flat[int(0.9 * (len(flat) - 1))])]
        elif np.prod(shape) > 3000:
            thr_list = thr_list[:3]
        diam_list = [0.5, 1.0, float(np.sqrt(2.0)), 3.0, 5.0, 7.3, 100.0]  # 5.0: 3-4-5 exact distance; 1.0 / sqrt2 exact
        for thr in thr_list:
            for diam in rng.permutation(diam_list)[: (2 if np.prod(shape) > 1000 else 7)]:
                diam = float(diam)
                if diam < 3.0 and (scores > thr).sum() > 3000:
                    continue
                for order in ("zxz", "zzx"):
                    tag = f"shape={shape} dtype={np.dtype(dtype).name} thr={thr:.6g} d={diam:.4g} num={numbering} order={order}"
                    if order == "zzx":
                        # file form: columns phi, psi, theta in the file
                        f = os.path.join(tmp, "angles.csv")
                        pd.DataFrame(anglist[:, [0, 2, 1]]).to_csv(f, header=False, index=False)
                        al_in = f
                        ptp = pd.read_csv(f, header=None).to_numpy()[:, [0, 2, 1]]
                    else:
                        al_in = anglist
                        ptp = anglist
                    s0, a0, l0 = scores.copy(), angmap.copy(), anglist.copy()
                    kw = dict(scores_threshold=thr, angles_order=order, angles_numbering=numbering)
                    m_new = quiet(tmana.scores_extract_particles, scores, angmap, al_in, 7, diam, **kw)
                    property_check(m_new, scores, angmap, ptp, thr, diam, numbering, tag)
                    m_old = quiet(extract_orig, scores, angmap, al_in, 7, diam, **kw)
                    same(m_new, m_old, tag)
                    # repeated call on the same objects, inputs untouched
                    m_again = quiet(tmana.scores_extract_particles, scores, angmap, al_in, 7, diam, **kw)
                    same(m_again, m_new, tag + " (repeat)")
                    check(np.array_equal(s0, scores) and np.array_equal(a0, angmap) and np.array_equal(l0, anglist), f"{tag}: inputs modified")
                    n_cases += 1

# ---------------------------------------------------------------------------------------------------------------
# patched vs original outside the quantifier: plateaus, integer / unsigned maps, options
n_extra = 0
for rep in range(18):
    shape = tuple(int(v) for v in rng.integers(3, 14, size=3))
    kind = rep % 6
    if kind == 0:
        scores = rng.integers(0, 4, size=shape).astype(np.float32)  # heavy plateaus
    elif kind == 1:
        scores = rng.integers(-5, 6, size=shape).astype(np.int32)
    elif kind == 2:
        scores = rng.integers(0, 7, size=shape).astype(np.uint8)  # negation wraps for unsigned
    elif kind == 3:
        scores = np.round(rng.normal(size=shape), 1)
    elif kind == 4:
        scores = rng.normal(size=shape).astype(np.float32)
        scores[rng.random(shape) < 0.1] = np.nan
    else:
        scores = rng.random(shape)
    n_ang = 20
    angmap = rng.integers(0, n_ang, size=shape).astype(np.float32)
    anglist = rng.uniform(-180, 180, (n_ang, 3))
    mask = (rng.random(shape) < 0.8).astype(scores.dtype)
    finite = scores[np.isfinite(scores)] if scores.dtype.kind == "f" else scores.ravel()
    for thr in (-1, 0, float(np.median(finite)), float(np.max(finite))):
        for diam in (1.0, 2.0, 3.5):
            for extra in (
                {},
                {"n_particles": 3},
                {"n_particles": 1},
                {"cluster_size": 1},
                {"cluster_size": 2},
                {"tomo_mask": mask},
                {"symmetry": "c4"},
                {"object_id": 5, "symmetry": "d2"},
                {"scores_threshold": None, "sigma_threshold": 1.0} if kind not in (4,) else {},
            ):
                kw = dict(scores_threshold=thr, angles_numbering=0)
                kw.update(extra)
                tag = f"extra kind={kind} shape={shape} thr={thr} d={diam} {sorted(extra)}"
                res = []
                for fn in (tmana.scores_extract_particles, extract_orig):
                    np.random.seed(5)
                    try:
                        res.append(quiet(fn, scores, angmap, anglist, 3, diam, **kw))
                    except Exception as e:  # same failure mode wanted
                        res.append(("EXC", type(e).__name__))
                if isinstance(res[0], tuple) or isinstance(res[1], tuple):
                    check(res[0] == res[1], f"{tag}: exception mismatch {res}")
                else:
                    same(res[0], res[1], tag)
                n_extra += 1

# triangle threshold route and written output, once
scores = plateau_free((10, 10, 10), np.float32) + 0.7
angmap = rng.integers(1, 11, size=(10, 10, 10)).astype(np.float32)
anglist = rng.uniform(0, 360, (10, 3))
outs = []
for i, fn in enumerate((tmana.scores_extract_particles, extract_orig)):
    try:
        m = quiet(fn, scores, angmap, anglist, 1, 3.0, angles_numbering=1, output_path=os.path.join(tmp, f"o{i}.em"))
        outs.append(m)
    except Exception as e:
        outs.append(("EXC", type(e).__name__))
if isinstance(outs[0], tuple) or isinstance(outs[1], tuple):
    check(outs[0] == outs[1], f"triangle route: exception mismatch {outs}")
else:
    same(outs[0], outs[1], "triangle route")
    same(cryomotl.Motl.load(os.path.join(tmp, "o0.em")), cryomotl.Motl.load(os.path.join(tmp, "o1.em")), "written em motl")

print(f"property cases: {n_cases}, patched-vs-original extra cases: {n_extra}")
if FAIL:
    print(f"FAIL ({len(FAIL)} problems)")
    sys.exit(1)
print("PASS")
