#!/venv/bin/python
"""C02 / change c: shortcuts: blank / comment-only lines in the tokenizer, blocks without rows in the reader, column count once

Run as:  cd /tmp/wt7/C02 && /venv/bin/python /tmp/seedsS/C02/c/demo.py

1. property: tables -> Starfile.write -> text (independent str.split tokenizer) -> Starfile.read give back the same
   block names, labels, rows, values (6 decimals) for numbered and un-numbered headers; hand-built STAR texts with
   comments, blank lines, tabs, runs of spaces, CRLF/LF, with/without final newline are read into the blocks, labels
   and row tokens of the generator and of the independent tokenizer, numeric columns as numbers, others as text.
2. the functions of the imported cryocat.starfileio are compared with the ORIGINAL module text (ORIG_SRC below, the
   file at HEAD, executed as a separate module) on the same inputs: token lists incl. locations, frames with dtypes,
   specifiers, comments, written bytes, the in-place effect on the caller's list, and error type + message for
   malformed input and odd option values.
Prints PASS and exits 0 when everything holds.
"""
import sys, os
sys.path.insert(0, os.getcwd())
import re, shutil, tempfile, types, warnings
import numpy as np
import pandas as pd
from cryocat import starfileio as new

assert os.path.abspath(new.__file__).startswith(os.getcwd()), new.__file__

# the original cryocat/starfileio.py (HEAD of the scratch worktree), verbatim
ORIG_SRC = r'''from enum import Enum
import pandas as pd
from os import path
import warnings


class TokenType(Enum):
    LITERAL = 0
    NEWLINE = 1
    COMMENT = 2
    LOOP = 3
    PROPERTY = 4


class Token:
    def __init__(self, token_type: TokenType, value, location):
        self.token_type = token_type
        self.value = value
        self.location = (location[0] + 1, location[1] + 1)

    @staticmethod
    def tokenize(text):
        """This function tokenizes a text into several tokens.

        Parameters
        ----------
        text :
            a given text

        Returns
        -------
        type
            list of tokens

        """
        tokens = list()

        # Split the text into several lines
        lines = text.split("\n")
        for line_number, line in enumerate(lines):
            # The first index of a non-space-or-hash sequence of characters. None means there is no sequence found
            first = None
            for index, char in enumerate(line):
                if not char.isspace() and char != "#":
                    # Set the first index of the sequence if it is None
                    if first is None:
                        first = index
                    continue
                elif first is not None:
                    # If a space or # and the sequence are found, classifies the sequence as
                    #   LOOP if it is 'loop_'
                    #   PROPERTY if it starts with '_'
                    #   LITERAL otherwise

                    if line[first] == "_":
                        tokens.append(Token(TokenType.PROPERTY, line[first:index], (line_number, first)))
                    elif line[first:index] == "loop_":
                        tokens.append(Token(TokenType.LOOP, line[first:index], (line_number, first)))
                    else:
                        tokens.append(Token(TokenType.LITERAL, line[first:index], (line_number, first)))

                    # Set that there is no sequence found
                    first = None
                if char == "#":
                    # Anything after the # character is a comment

                    tokens.append(Token(TokenType.COMMENT, line[index + 1 :].strip(), (line_number, index)))
                    break
                elif not char.isspace():
                    raise IOError(f"Got unexpected {char} at (Line {line_number}, Column {index}).")
            if first is not None:
                # Classifies the sequence if there is an end of line

                if line[first] == "_":
                    tokens.append(Token(TokenType.PROPERTY, line[first:], (line_number, first)))
                elif line[first:] == "loop_":
                    tokens.append(Token(TokenType.LOOP, line[first:], (line_number, first)))
                else:
                    tokens.append(Token(TokenType.LITERAL, line[first:], (line_number, first)))

            # Add a NEWLINE token
            tokens.append(Token(TokenType.NEWLINE, None, (line_number, 0)))

        return tokens[::-1]

    @staticmethod
    def parse_newline_or_comments(tokens):
        """This function takes a token queue and dequeues any NEWLINE token and COMMENT token while storing the comments from
        the COMMENT tokens.

        Parameters
        ----------
        tokens :
            a queue of tokens

        Returns
        -------
        type
            list of comments retrieves from the dequeued COMMENT tokens

        """
        comments = []
        while True:
            comment_token = Token.check_then_consume(tokens, TokenType.COMMENT)
            if comment_token is not None:
                comments.append(comment_token.value)
            elif not Token.check_then_consume(tokens, TokenType.NEWLINE):
                break
        return comments

    @staticmethod
    def parse_specifier(tokens):
        """This function takes a token queue, gets comments, and consumes (matches) a specifier as a LITERAL token.

        Parameters
        ----------
        tokens :
            a queue of tokens

        Returns
        -------
        type
            a tuple of comments and the parsed specifier

        """
        comments = Token.parse_newline_or_comments(tokens)
        specifier = Token.consume(tokens, TokenType.LITERAL)
        return comments, specifier.value

    @staticmethod
    def parse_columns(tokens):
        """This function takes a token queue, gets comments, consumes (matches) the `loop_` keyword as a LOOP token
        following by a NEWLINE token, and parses the column names

        Parameters
        ----------
        tokens :
            a queue of tokens

        Returns
        -------
        type
            a tuple of comments and column names

        """
        comments = Token.parse_newline_or_comments(tokens)
        columns = []
        Token.consume(tokens, TokenType.LOOP)
        Token.consume(tokens, TokenType.NEWLINE)
        while Token.check(tokens, TokenType.PROPERTY):
            column = Token.parse_column(tokens)
            columns.append(column)
        return comments, columns

    @staticmethod
    def parse_column(tokens):
        """This function takes a token queue, consumes a column name token as a PROPERTY token, and tries to consume
        a COMMENT token to retrieve the comment if existed.

        The PROPERTY token captures anything starting with "_", therefore the column name be the value of the token
        without the "_".

        Parameters
        ----------
        tokens :
            a token queue

        Returns
        -------
        type
            a tuple of comments and the column name

        """
        column = Token.consume(tokens, TokenType.PROPERTY)
        Token.check_then_consume(tokens, TokenType.COMMENT)
        Token.consume(tokens, TokenType.NEWLINE)
        return column.value[1:]

    @staticmethod
    def parse_rows(tokens, columns):
        """This function takes a token queue, gets comments, tries to consume LITERAL tokens as a rows which matches
        the number of columns before getting a new line, and converts the rows to a Pandas DataFrame.

        Parameters
        ----------
        tokens :
            a queue of tokens
        columns :
            a list of column names

        Returns
        -------
        type
            a tuple of comments and Pandas DataFrames

        """
        comments = Token.parse_newline_or_comments(tokens)
        end = False
        rows = []
        while not end:
            data = []
            for i in range(len(columns)):
                token = Token.check_then_consume(tokens, TokenType.LITERAL)
                if token is None:
                    end = True
                    break
                else:
                    data.append(token.value)
            else:
                Token.consume(tokens, TokenType.NEWLINE)
                rows.append(data)
        return comments, pd.DataFrame(rows, columns=columns)

    @staticmethod
    def check(tokens, token_type):
        """This function checks if the first token from the given token queue matches a given token type.

        Parameters
        ----------
        tokens :
            a queue of tokens
        token_type :
            a token type to be matched

        Returns
        -------
        type
            a boolean value indicating the match

        """

        if len(tokens) == 0:
            # end of the text: nothing is left that could match (e.g. the labels of an empty last block without final newline)
            return False
        if tokens[-1].token_type == token_type:
            return True
        return False

    @staticmethod
    def consume(tokens, token_type):
        """This function consumes the first token from the given token queue. If the token type of the first
        token does not match the token type to be matched, this function will raise a parsing error.

        Parameters
        ----------
        tokens :
            a queue of tokens
        token_type :
            a token type to be matched

        Returns
        -------
        type
            the first token

        """
        if len(tokens) == 0:
            raise IOError(f"Expected {token_type} but there are enough token.")
        if tokens[-1].token_type == token_type:
            return tokens.pop()
        else:
            raise IOError(f"Expected {token_type} but got {tokens[0].token_type} at {tokens[0].location}.")

    @staticmethod
    def check_then_consume(tokens, token_type):
        """This function checks the first token from the given token queue and consumes it if matched. Otherwise,
        it returns a None

        Parameters
        ----------
        tokens :
            a queue of tokens
        token_type :
            a token type to be matched

        Returns
        -------
        type
            the first token or None

        """
        if len(tokens) > 0 and tokens[-1].token_type == token_type:
            return Token.consume(tokens, token_type)
        return None

    @staticmethod
    def lookahead(tokens, token_type_target, ignores):
        """This function looks for a token type while ignoring token types from the ignores list

        Parameters
        ----------
        tokens :
            a queue of tokens
        token_type_target :
            a token type to be found
        ignores :
            a list of token types to be ignored

        Returns
        -------
        type
            a boolean value indicating a found token

        """
        ignores = set(ignores)
        for i in range(len(tokens) - 1, -1, -1):
            if tokens[i].token_type == token_type_target:
                return True
            elif tokens[i].token_type in ignores:
                continue
            else:
                break
        return False


class Starfile:
    def __init__(self, file_path=None, frames=None, specifiers=None, comments=None):
        """
        This function reads a starfile with a *.star extension into a tuple of a list of Pandas DataFrame, a list of Data
            Specifier, and a list of comments

            It reads the file and extracts the lists from the parsing function.

        Parameters
        ----------
        path :
            the path to the starfile to be read

        Returns
        -------
        type
            a tuples of a list of Pandas DataFrames, list of specifiers, and list of comments

        """

        if file_path and path.isfile(file_path):
            self.frames, self.specifiers, self.comments = self.read(file_path)
        else:
            self.frames = frames
            self.specifiers = specifiers
            self.comments = comments

    @staticmethod
    def remove_lines(file_path, lines_to_remove, output_file=None, data_specifier=None, number_columns=True):

        frames, specifiers, comments = Starfile.read(file_path)

        if data_specifier is None:
            spec_id = 0
        else:
            spec_id = Starfile.get_specifier_id(specifiers, data_specifier)
            if spec_id is None:
                warnings.warn(f"The data specifier {data_specifier} was not found in the file. No lines were removed.")
                return

        # Convert row numbers to index labels
        rows_to_remove_labels = frames[spec_id].index[lines_to_remove]
        frames[spec_id] = frames[spec_id].drop(rows_to_remove_labels)
        frames[spec_id].reset_index(drop=True, inplace=True)

        if output_file is not None:
            Starfile.write(frames, output_file, specifiers=specifiers, comments=comments, number_columns=number_columns)
        else:
            return frames, specifiers, comments

    @staticmethod
    def read(file_path, data_id=None):
        """This function parses a starfile into a tuple of a list of Pandas DataFrame, a list of Data Specifier, and a list of
        comments.

        It tokenizes the file and if it finds a specifier, it starts parsing in the following order:
            1. Specifier
            2. Columns      (as column names)
            3. Rows         (as a Pandas Dataframe together with the Columns)

        Parameters
        ----------
        raw_starfile :
            the starfile to be parsed
        file_path :


        Returns
        -------
        type
            a tuples of a list of Pandas DataFrames, list of specifiers, and list of comments

        """

        with open(file_path, mode="r") as file:
            raw_starfile = file.read()

        tokens = Token.tokenize(raw_starfile)
        frames = []
        comments = []
        specifiers = []
        while Token.lookahead(tokens, TokenType.LITERAL, [TokenType.NEWLINE, TokenType.COMMENT]):
            specifier_comments, specifier = Token.parse_specifier(tokens)
            column_comments, columns = Token.parse_columns(tokens)
            rows_comments, data = Token.parse_rows(tokens, columns)
            comments.append(specifier_comments + column_comments + rows_comments)
            specifiers.append(specifier)
            frames.append(data)
        Token.parse_newline_or_comments(tokens)
        if len(tokens) > 0:
            raise IOError(f"Expected a specifier or an end of token but got {tokens[0].token_type}")

        def to_numeric_if_possible(column):
            try:
                return pd.to_numeric(column)
            except (ValueError, TypeError):
                return column

        for i, f in enumerate(frames):
            frames[i] = f.apply(to_numeric_if_possible)

        if data_id is not None:
            return frames[data_id], specifiers[data_id], comments[data_id]
        else:
            return frames, specifiers, comments

    @staticmethod
    def get_specifier_id(speficiers, specifier_id):
        if specifier_id in speficiers:
            return speficiers.index(specifier_id)
        else:
            return None

    @staticmethod
    def get_frame_and_comments(file_path, specifier):
        frames, specifiers, comments = Starfile.read(file_path)

        spec_id = Starfile.get_specifier_id(specifiers, specifier)

        if spec_id is None:
            raise ValueError(f"There is no entry with specifier {specifier}.")

        return frames[spec_id], comments[spec_id]

    @staticmethod
    def write(frames, path, specifiers=None, comments=None, number_columns=True, float_precision=6):
        if specifiers is None:
            specifiers = ["data"] * len(frames)
        if comments is None:
            comments = (None,) * len(frames)

        if len(frames) != len(specifiers) or len(frames) != len(comments) or len(specifiers) != len(comments):
            raise ValueError(
                f"Invalid size of the lists found. "
                f"The sizes are (frames: {len(frames)}), "
                f"(specifiers: {len(specifiers)}), "
                f"and (comments: {len(comments)})."
            )

        for i, f in enumerate(frames):
            frames[i] = f.round(float_precision)

        with open(path, "w") as file:

            def write_with_number(name, number):
                file.write(f"_{name} #{number}\n")

            def write_without_number(name, _):
                file.write(f"_{name}\n")

            def format_value(value):
                return "{:<10}".format(str(value))

            for frame, specifier, comment in zip(frames, specifiers, comments):
                # DataFrame.applymap was renamed to DataFrame.map in pandas 2.1 and removed in pandas 3
                frame = frame.map(format_value) if hasattr(frame, "map") else frame.applymap(format_value)
                stopgap = "stopgap" in specifier
                write_function = write_without_number if not number_columns or stopgap else write_with_number
                if comment is not None:
                    for c in comment:
                        file.write(f"\n# {c}")
                    file.write("\n")
                file.write(f"\n{specifier}\n\n")
                file.write("loop_\n")
                for index, column in enumerate(frame.columns, 1):
                    write_function(column, index)
                if stopgap:
                    file.write("\n")

                for row in frame.itertuples(index=False):
                    file.write("\t".join(map(str, row)) + "\n")
                # formatted_row = "\t".join("{:<10}".format(str(value)) for value in row)
                # file.write(formatted_row + "\n")
                file.write("\n")
'''


orig = types.ModuleType("orig_starfileio")
exec(compile(ORIG_SRC, "orig_starfileio.py", "exec"), orig.__dict__)

SEED = int(os.environ.get("DEMO_SEED", "20260928"))
rng = np.random.default_rng(SEED)
TMP = tempfile.mkdtemp(prefix="c02demo_")
FAILS = []
COUNTS = {"roundtrip": 0, "handbuilt": 0, "tokenize": 0, "malformed": 0, "write_cmp": 0, "extra": 0}


def fail(msg):
    FAILS.append(msg)
    if len(FAILS) <= 20:
        print("FAIL:", msg)


# ----------------------------------------------------------------------------------------------
# independent tokenizer (str.split based, no shared code with cryocat)
# ----------------------------------------------------------------------------------------------
def indep_parse(text):
    """-> list of (block name, [labels], [[row tokens]]) ; labels without the leading underscore."""
    text = text.replace("\r\n", "\n").replace("\r", "\n")
    blocks = []
    state = "between"
    for raw in text.split("\n"):
        h = raw.find("#")
        body = raw if h < 0 else raw[:h]
        words = body.split()
        if not words:
            if state == "rows":
                state = "between"
            continue
        if state == "between":
            assert len(words) == 1, raw
            blocks.append((words[0], [], []))
            state = "name"
        elif state == "name":
            assert words == ["loop_"], raw
            state = "labels"
        elif state == "labels" and words[0].startswith("_"):
            assert len(words) == 1, raw
            blocks[-1][1].append(words[0][1:])
        else:
            assert state in ("labels", "rows"), raw
            assert len(words) == len(blocks[-1][1]), raw
            blocks[-1][2].append(words)
            state = "rows"
    return blocks


INT_RE = re.compile(r"^[+-]?[0-9]+$")


def expected_column(tokens):
    """numeric columns as numbers, everything else as text (independent: python int()/float())."""
    if len(tokens) == 0:
        return "empty", []
    if all(INT_RE.match(t) for t in tokens):
        return "int", [int(t) for t in tokens]
    try:
        return "float", [float(t) for t in tokens]
    except ValueError:
        return "text", list(tokens)


def check_read_against(blocks, frames, specifiers, what):
    if list(specifiers) != [b[0] for b in blocks]:
        fail(f"{what}: block names {specifiers} != {[b[0] for b in blocks]}")
        return
    if len(frames) != len(blocks):
        fail(f"{what}: number of frames")
        return
    for (name, labels, rows), frame in zip(blocks, frames):
        if list(frame.columns) != labels:
            fail(f"{what}: labels of {name}: {list(frame.columns)} != {labels}")
            continue
        if len(frame) != len(rows):
            fail(f"{what}: rows of {name}: {len(frame)} != {len(rows)}")
            continue
        if list(frame.index) != list(range(len(rows))):
            fail(f"{what}: index of {name}")
        for ci, lab in enumerate(labels):
            toks = [r[ci] for r in rows]
            kind, exp = expected_column(toks)
            got = frame.iloc[:, ci]
            if kind == "empty":
                continue
            if kind == "int":
                if got.dtype.kind not in "iu" or got.tolist() != exp:
                    fail(f"{what}: int column {lab} of {name}: {got.dtype} {got.tolist()[:5]} != {exp[:5]}")
            elif kind == "float":
                if got.dtype.kind != "f" or not np.allclose(got.to_numpy(), np.array(exp), rtol=1e-12, atol=0):
                    fail(f"{what}: float column {lab} of {name}: {got.dtype} {got.tolist()[:5]} != {exp[:5]}")
            else:
                if got.dtype.kind in "iuf" or [str(v) for v in got.tolist()] != exp:
                    fail(f"{what}: text column {lab} of {name}: {got.dtype} {got.tolist()[:5]} != {exp[:5]}")


# ----------------------------------------------------------------------------------------------
# comparison original <-> current
# ----------------------------------------------------------------------------------------------
def tok_list(mod, text):
    return [(t.token_type.name, t.value, t.location) for t in mod.Token.tokenize(text)]


def outcome(fn):
    with warnings.catch_warnings(record=True) as w:
        warnings.simplefilter("always")
        try:
            r = fn()
            return ("ok", r, [str(x.message) for x in w])
        except BaseException as e:  # noqa
            return ("raise", type(e).__name__, str(e), type(e.__cause__).__name__, [str(x.message) for x in w])


def same_frames(a, b):
    if len(a) != len(b):
        return False
    for x, y in zip(a, b):
        try:
            pd.testing.assert_frame_equal(x, y, check_exact=True, check_dtype=True, check_index_type=True,
                                          check_column_type=True)
        except AssertionError:
            return False
        if type(x.index) is not type(y.index):
            return False
    return True


def compare_read(path, what):
    """original reader and current reader on the same file: same frames, specifiers, comments or same error."""
    o = outcome(lambda: orig.Starfile.read(path))
    n = outcome(lambda: new.Starfile.read(path))
    if o[0] != n[0]:
        fail(f"{what}: original {o[:3]} vs current {n[:3]}")
        return None
    if o[0] == "raise":
        if o[1:3] != n[1:3]:
            fail(f"{what}: different errors {o} vs {n}")
        return None
    (of, os_, oc), (nf, ns, nc) = o[1], n[1]
    if os_ != ns or oc != nc or not same_frames(of, nf) or o[2] != n[2]:
        fail(f"{what}: original and current reader differ")
    for data_id in range(len(of)):
        a = orig.Starfile.read(path, data_id=data_id)
        b = new.Starfile.read(path, data_id=data_id)
        if a[1] != b[1] or a[2] != b[2] or not same_frames([a[0]], [b[0]]):
            fail(f"{what}: data_id={data_id} differs")
    return nf, ns, nc


def compare_tokens(text, what):
    COUNTS["tokenize"] += 1
    o = outcome(lambda: tok_list(orig, text))
    n = outcome(lambda: tok_list(new, text))
    if o != n:
        fail(f"{what}: token lists differ for {text[:60]!r}")


def compare_write(frames, kwargs, what):
    """original writer and current writer: same bytes, same mutation of the caller's list, or same error."""
    COUNTS["write_cmp"] += 1
    fo = type(frames)(f.copy() for f in frames)
    fn = type(frames)(f.copy() for f in frames)
    po, pn = os.path.join(TMP, "o.star"), os.path.join(TMP, "n.star")
    for p in (po, pn):
        if os.path.exists(p):
            os.remove(p)
    o = outcome(lambda: orig.Starfile.write(fo, po, **kwargs))
    n = outcome(lambda: new.Starfile.write(fn, pn, **kwargs))
    if o[0] != n[0] or (o[0] == "raise" and o[1:3] != n[1:3]) or (o[0] == "ok" and (o[1] is not n[1] or o[2] != n[2])):
        fail(f"{what}: writer outcome original {o} vs current {n}")
        return None
    bo = open(po, "rb").read() if os.path.exists(po) else None
    bn = open(pn, "rb").read() if os.path.exists(pn) else None
    if bo != bn:
        fail(f"{what}: written bytes differ")
    if not same_frames(fo, fn):
        fail(f"{what}: caller's list after write differs")
    return pn if o[0] == "ok" else None


# ----------------------------------------------------------------------------------------------
# generators
# ----------------------------------------------------------------------------------------------
ALNUM = "abcdefghijklmnopqrstuvwxyzABCDEFGHIJKLMNOPQRSTUVWXYZ0123456789"
PUNCT = "/._-@:+=,;()[]{}%$&*!?<>|~^'\"\\"
TEXT_ODD = ["nan", "None", "True", "1e5", "12", "-", "+", ".", "e", "0x10", "1_000", "1,5", "inf", "data_x",
            "000012@Extract/job012/stack.mrcs", "a", "0", "-0", "1.", "{}", "{0}", "%s", "\\t"]
SURE_TEXT = ["abc", "x/y.mrc", "TS_01", "q7", "rln", "opticsGroup1", "ts_001.mrc_5.00Apx.mrc", "{name}"]


def text_token():
    r = rng.random()
    if r < 0.25:
        return str(rng.choice(TEXT_ODD))
    n = int(rng.integers(1, 16))
    chars = [str(rng.choice(list(ALNUM + PUNCT))) for _ in range(n)]
    if chars[0] == "_":
        chars[0] = "u"
    t = "".join(chars)
    return "xloop_" if t == "loop_" else t


def text_column(n):
    col = [text_token() for _ in range(n)]
    if n:
        col[int(rng.integers(0, n))] = str(rng.choice(SURE_TEXT))  # at least one clearly non-numeric token
    return col


def int_column(n):
    mode = rng.integers(0, 5)
    if mode == 0:
        v = np.zeros(n, dtype=np.int64)
    elif mode == 1:
        v = rng.integers(-5, 6, n)
    elif mode == 2:
        v = rng.integers(-10**12, 10**12, n)
    elif mode == 3:
        v = np.arange(1, n + 1)
    else:
        v = rng.integers(0, 2, n)
    return v.astype(np.int64)


EDGE_FLOATS = [0.0, -0.0, 0.5e-6, -0.5e-6, 1.5e-6, 2.5e-6, 0.4999999e-6, 1e-7, -1e-7, 1.0, -1.0, 3.0, 180.0, -180.0,
               359.9999995, 1e16, -1e16, 1e22, 1.2345675, 0.1 + 0.2, 1 / 3, 123456.7890125, 5e-324]


def float_column(n):
    mode = rng.integers(0, 5)
    if mode == 0:
        v = rng.normal(size=n) * 10.0 ** rng.integers(-9, 9)
    elif mode == 1:
        v = rng.uniform(-180, 180, n)
    elif mode == 2:
        v = rng.integers(-3, 4, n).astype(float)  # whole numbers stored as floats
    elif mode == 3:
        v = np.array([EDGE_FLOATS[int(i)] for i in rng.integers(0, len(EDGE_FLOATS), n)], dtype=float)
    else:
        v = np.round(rng.uniform(-1, 1, n), int(rng.integers(0, 8)))
    return v.astype(np.float64)


RLN = ["rlnCoordinateX", "rlnCoordinateY", "rlnCoordinateZ", "rlnAngleRot", "rlnAngleTilt", "rlnAnglePsi",
       "rlnMicrographName", "rlnOpticsGroup", "rlnImageName", "rlnTomoName", "rlnClassNumber", "motl_idx", "tomo_num",
       "object", "subtomo_num", "halfset", "orig_x", "x_shift", "phi", "the", "psi", "score", "class"]


def column_names(n):
    names = []
    while len(names) < n:
        c = str(rng.choice(RLN)) if rng.random() < 0.6 else "c" + "".join(
            str(rng.choice(list(ALNUM + "._-"))) for _ in range(int(rng.integers(1, 12))))
        if c not in names:
            names.append(c)
    return names


def random_table(n_rows, n_cols):
    names = column_names(n_cols)
    data = {}
    for c in names:
        k = rng.integers(0, 3)
        data[c] = int_column(n_rows) if k == 0 else float_column(n_rows) if k == 1 else text_column(n_rows)
    df = pd.DataFrame(data, columns=names)
    if n_rows == 0:
        df = pd.DataFrame(columns=names)
    r = rng.random()
    if n_rows and r < 0.25:  # non-default row labels
        df.index = rng.permutation(n_rows) + 100
    elif n_rows and r < 0.4:
        df.index = [f"r{i}" for i in range(n_rows)]
    return df


BLOCK_NAMES = ["data_", "data_particles", "data_optics", "data_stopgap_motivelist", "data_stopgap_wedgelist",
               "data_stopgap_", "data_general", "data_tomograms"]


def random_tables():
    n_blocks = int(rng.integers(1, 5))
    frames, specs = [], []
    for b in range(n_blocks):
        last = b == n_blocks - 1
        n_rows = int(rng.choice([1, 1, 2, 3, 7, 50, 200])) if rng.random() < 0.5 else int(rng.integers(1, 201))
        if last and rng.random() < 0.2:
            n_rows = 0
        n_cols = int(rng.choice([1, 1, 2, 5, 30])) if rng.random() < 0.4 else int(rng.integers(1, 31))
        frames.append(random_table(n_rows, n_cols))
        specs.append(str(rng.choice(BLOCK_NAMES)))
    return frames, specs


# ----------------------------------------------------------------------------------------------
# 1. write -> text -> read
# ----------------------------------------------------------------------------------------------
def expected_written_tokens(frame):
    rounded = frame.round(6)
    return [[str(v) for v in row] for row in rounded.itertuples(index=False, name=None)]


def check_roundtrip(frames, specs, number_columns, comments=None, what="roundtrip"):
    COUNTS["roundtrip"] += 1
    pristine = [f.copy() for f in frames]
    kwargs = {"specifiers": list(specs), "number_columns": number_columns}
    if comments is not None:
        kwargs["comments"] = comments
    path = compare_write(frames, kwargs, what)  # also original <-> current
    if path is None:
        fail(f"{what}: write failed")
        return
    text = open(path, newline="").read()
    # (i) text of the file through the independent tokenizer
    blocks = indep_parse(text)
    if [b[0] for b in blocks] != list(specs):
        fail(f"{what}: block names in text {[b[0] for b in blocks]} != {specs}")
        return
    for (name, labels, rows), frame in zip(blocks, pristine):
        if labels != [str(c) for c in frame.columns]:
            fail(f"{what}: labels in text")
        if rows != expected_written_tokens(frame):
            fail(f"{what}: row tokens in text of {name}")
    # header style: '_name #k' for numbered (RELION) headers, '_name' for stopgap blocks or number_columns off
    lines = text.split("\n")
    label_lines = [l for l in lines if l.startswith("_")]
    k = 0
    for spec, frame in zip(specs, pristine):
        for pos, c in enumerate(frame.columns, 1):
            want = f"_{c} #{pos}" if (number_columns and "stopgap" not in spec) else f"_{c}"
            if label_lines[k] != want:
                fail(f"{what}: header line {label_lines[k]!r} != {want!r}")
            k += 1
    if k != len(label_lines):
        fail(f"{what}: number of header lines")
    # (ii) read back
    res = compare_read(path, what)
    if res is None:
        fail(f"{what}: read failed")
        return
    rframes, rspecs, rcomments = res
    if rspecs != list(specs):
        fail(f"{what}: specifiers read back {rspecs}")
    check_read_against(blocks, rframes, rspecs, what + " (reader vs independent tokenizer)")
    for frame, back in zip(pristine, rframes):
        if list(back.columns) != [str(c) for c in frame.columns] or len(back) != len(frame):
            fail(f"{what}: shape read back")
            continue
        for ci in range(frame.shape[1]):
            src, got = frame.iloc[:, ci], back.iloc[:, ci]
            if len(src) == 0:
                continue
            if src.dtype.kind in "iu":
                if got.dtype.kind not in "iu" or got.tolist() != src.tolist():
                    fail(f"{what}: integer column {frame.columns[ci]} changed")
            elif src.dtype.kind == "f":
                want = np.round(src.to_numpy(), 6)
                if got.dtype.kind not in "f" or not np.allclose(np.round(got.to_numpy(dtype=float), 6), want,
                                                               rtol=1e-12, atol=1e-9):
                    fail(f"{what}: float column {frame.columns[ci]} changed: {got.tolist()[:4]} vs {want[:4]}")
            else:
                if [str(v) for v in got.tolist()] != [str(v) for v in src.tolist()] or got.dtype.kind in "iuf":
                    fail(f"{what}: text column {frame.columns[ci]} changed")
    if comments is not None:
        want_c = [list(map(str.strip, c)) if c is not None else [] for c in comments]
        if rcomments != want_c:
            fail(f"{what}: comments read back {rcomments} != {want_c}")
    # repeated call on the same (already rounded, replaced) list gives the same file
    again = os.path.join(TMP, "again.star")
    new.Starfile.write(frames, again, **kwargs)
    if open(again, "rb").read() != open(path, "rb").read():
        fail(f"{what}: second write of the same list differs")


def run_roundtrips(n):
    for it in range(n):
        frames, specs = random_tables()
        number_columns = bool(rng.integers(0, 2))
        comments = None
        r = rng.random()
        if r < 0.2:
            comments = [[f"version {30001 + i}", "made by demo"][: int(rng.integers(0, 3))] for i in range(len(frames))]
        elif r < 0.3:
            comments = [None if rng.random() < 0.5 else ["c"] for _ in frames]
        check_roundtrip(frames, specs, number_columns, comments, what=f"roundtrip#{it}")
    # fixed edge cases
    one = pd.DataFrame({"a": [0]})
    check_roundtrip([one], ["data_"], True, what="single cell zero")
    check_roundtrip([pd.DataFrame({"a": [0.0], "b": ["z"]})], ["data_stopgap_x"], True, what="stopgap single row")
    check_roundtrip([pd.DataFrame({"a": [-0.0, 0.5e-6, -0.5e-6, 2.5e-6]})], ["data_particles"], False, what="rounding ties")
    check_roundtrip([pd.DataFrame({"a": [1, 2]}), pd.DataFrame(columns=["p", "q"])], ["data_optics", "data_particles"],
                    True, what="empty last block")
    check_roundtrip([pd.DataFrame(columns=["only"])], ["data_"], False, what="single empty block")
    check_roundtrip([pd.DataFrame({"a": [1, 2]}), pd.DataFrame(columns=["p"])], ["data_stopgap_a", "data_stopgap_b"],
                    True, [["x"], []], what="empty last stopgap block with comments")
    wide = pd.DataFrame({f"c{i}": [i, -i] for i in range(30)})
    check_roundtrip([wide, wide.astype(float) / 7, wide.astype(str) + "s", wide], ["data_", "data_optics",
                    "data_stopgap_m", "data_particles"], True, what="four wide blocks")
    # specifiers=None -> every block is called 'data'
    f = [pd.DataFrame({"a": [1.25, 2.5]}), pd.DataFrame({"b": ["u", "v"]})]
    p = compare_write(f, {}, "default specifiers")
    r = compare_read(p, "default specifiers")
    if r is None or r[1] != ["data", "data"]:
        fail("default specifiers")


# ----------------------------------------------------------------------------------------------
# 2. hand-built STAR texts
# ----------------------------------------------------------------------------------------------
def ws(minimum=0):
    n = int(rng.integers(minimum, minimum + 4))
    return "".join(str(rng.choice([" ", "\t", "  ", " \t "])) for _ in range(n)) if n else ""


def filler_lines():
    out = []
    for _ in range(int(rng.integers(0, 4))):
        r = rng.random()
        if r < 0.35:
            out.append(ws())
        elif r < 0.5:
            out.append(ws() + "#")
        elif r < 0.6:
            out.append(ws() + "#" + ws())
        else:
            out.append(ws() + "#" + ws() + str(rng.choice(["version 30001", "a # b", "_rlnX #1", "loop_", "data_x 1 2",
                                                             "created by demo", "#", "\ttabbed"])) + ws())
    return out


NUM_INT = ["0", "-0", "+5", "007", "-12", "123456789012", "1", "2", "-3"]
NUM_FLT = ["0.0", "-0.0", "1.5", "-2.25", "1.", ".5", "-.5", "+.25", "1e5", "1E-3", "-4.5e+2", "3.141593", "1e-07",
           "123456.789012", "0.000001", "5e-324", "1.7976931348623157e308", "12", "-7"]


def hand_column(n):
    k = rng.integers(0, 3)
    if k == 0:
        return [str(rng.choice(NUM_INT)) for _ in range(n)]
    if k == 1:
        col = [str(rng.choice(NUM_FLT)) for _ in range(n)]
        if n:
            col[int(rng.integers(0, n))] = str(rng.choice(NUM_FLT[:-2]))
        return col
    return text_column(n)


def hand_text():
    n_blocks = int(rng.integers(1, 5))
    eol = "\r\n" if rng.random() < 0.4 else "\n"
    lines, truth = [], []
    for b in range(n_blocks):
        last = b == n_blocks - 1
        lines += filler_lines()
        name = str(rng.choice(BLOCK_NAMES))
        lines.append(ws() + name + ws())
        lines += [ws() for _ in range(int(rng.integers(0, 3)))]  # blank lines as the writer leaves them
        lines.append(ws() + "loop_" + ws())
        n_cols = int(rng.integers(1, 9))
        labels = column_names(n_cols)
        for i, lab in enumerate(labels, 1):
            r = rng.random()
            tail = "" if r < 0.3 else f" #{i}" if r < 0.6 else f"#{i}" if r < 0.7 else f"{ws(1)}#{i}{ws()}" if r < 0.9 else ws()
            lines.append(ws() + "_" + lab + tail)
        lines += filler_lines()
        n_rows = int(rng.choice([1, 2, 3, 10, 40]))
        if last and rng.random() < 0.25:
            n_rows = 0
        cols = [hand_column(n_rows) for _ in range(n_cols)]
        rows = [[c[r] for c in cols] for r in range(n_rows)]
        for row in rows:
            lines.append(ws() + ws(1).join(row) + ws())
        truth.append((name, labels, rows))
        if not last:
            lines += filler_lines() or [""]  # at least one blank / comment line ends the rows
        else:
            lines += filler_lines() if rng.random() < 0.5 else []
    text = eol.join(lines)
    # a file that ends directly behind the last label (no rows, no line end at all) is refused by the unmodified
    # reader ("not enough token"); it is compared original <-> current in MALFORMED instead
    ends_on_label = lines[-1].lstrip().startswith("_")
    if ends_on_label or rng.random() < 0.6:
        text += eol
    return text, truth


def check_text(text, truth, what):
    COUNTS["handbuilt"] += 1
    path = os.path.join(TMP, "hand.star")
    with open(path, "wb") as fh:
        fh.write(text.encode("utf-8"))
    # the independent tokenizer has to agree with how the text was built
    ind = indep_parse(text)
    if [(a, b, c) for a, b, c in ind] != [(a, b, c) for a, b, c in truth]:
        fail(f"{what}: demo generator and independent tokenizer disagree (demo bug)")
        return
    res = compare_read(path, what)
    if res is None:
        fail(f"{what}: read failed: {outcome(lambda: new.Starfile.read(path))[:3]}")
        return
    check_read_against(ind, res[0], res[1], what)
    compare_tokens(text.replace("\r\n", "\n"), what)
    # constructor goes through the same reader
    s = new.Starfile(path)
    if s.specifiers != res[1] or not same_frames(s.frames, res[0]) or s.comments != res[2]:
        fail(f"{what}: Starfile(path) differs from Starfile.read(path)")


FIXED_TEXTS = [
    ("data_\nloop_\n_a\n1\n", [("data_", ["a"], [["1"]])]),
    ("data_\nloop_\n_a\n1", [("data_", ["a"], [["1"]])]),
    ("\n\n# c\n#\n  #  \ndata_optics\n\nloop_\n_a #1\n_b#2\n\n#x\n1\tq\n2   r  \n\n#\n\n  data_particles  \n\nloop_ \n_c\t#1 \n_d\n",
     [("data_optics", ["a", "b"], [["1", "q"], ["2", "r"]]), ("data_particles", ["c", "d"], [])]),
    ("data_stopgap_motivelist\r\n\r\nloop_\r\n_x\r\n_y\r\n\r\n1.5 2\r\n-1e-3 4\r\n\r\n",
     [("data_stopgap_motivelist", ["x", "y"], [["1.5", "2"], ["-1e-3", "4"]])]),
    ("#only a comment before\ndata_\nloop_\n_a #1\n#after labels\n\n 0 \n-0\n+0\n# end",
     [("data_", ["a"], [["0"], ["-0"], ["+0"]])]),
    ("data_a\nloop_\n_t\nabc\n12\n\ndata_b\nloop_\n_t\n12\n13\n# sep\ndata_c\nloop_\n_t\n",
     [("data_a", ["t"], [["abc"], ["12"]]), ("data_b", ["t"], [["12"], ["13"]]), ("data_c", ["t"], [])]),
]


def run_handbuilt(n):
    for i, (text, truth) in enumerate(FIXED_TEXTS):
        check_text(text, truth, f"fixed text {i}")
    for it in range(n):
        text, truth = hand_text()
        check_text(text, truth, f"hand text #{it}")


# ----------------------------------------------------------------------------------------------
# 3. outside the quantifier: malformed files must fail (or not) the same way in original and current code
# ----------------------------------------------------------------------------------------------
MALFORMED = [
    "", "\n", "   \n\t\n", "# only comments\n#\n", "data_", "data_\n", "data_\nloop_", "data_\nloop_\n", "data_\nloop_\n\n_a\n1\n",
    "data_\n_a\n1\n", "loop_\n_a\n1\n", "data_\nloop_\n_a\n_b\n1\n", "data_\nloop_\n_a\n_b\n1 2 3\n", "data_\nloop_\n_a\n1 # trailing\n",
    "data_\nloop_ # c\n_a\n1\n", "data_\nloop_\n_a\n1\n\n2\n", "data_\nloop_\n_a\n1\n#c\n2\n", "data_\nloop_\n_a\n1\ndata_b\nloop_\n_b\n2\n",
    "data_ x\nloop_\n_a\n1\n", "data_\nloop_\n_a _b\n1 2\n", "data_\nloop_\n_a\n_b\n\ndata_x\nloop_\n_c\n1\n", "_a\n", "data_\nloop_\n_a\n1 _b\n",
    "data_\nloop_\n_a\n1\nloop_\n", "data_ # c\nloop_\n_a\n1\n", "data_\n# c\nloop_\n_a\n1\n", "x",
    "data_\nloop_\n_a", "data_\nloop_\n_a #1", "data_\nloop_\n_a\n", "data_\nloop_\n_a\n#", "data_\nloop_\n_a\n ",
]


def run_malformed():
    path = os.path.join(TMP, "bad.star")
    for i, text in enumerate(MALFORMED):
        COUNTS["malformed"] += 1
        with open(path, "w", newline="") as fh:
            fh.write(text)
        compare_tokens(text, f"malformed {i}")
        compare_read(path, f"malformed {i}")
    # parser helpers on an exhausted queue
    for name in ("check", "consume", "check_then_consume"):
        for tt in ("LITERAL", "NEWLINE", "COMMENT", "LOOP", "PROPERTY"):
            o = outcome(lambda: getattr(orig.Token, name)([], getattr(orig.TokenType, tt)))
            n = outcome(lambda: getattr(new.Token, name)([], getattr(new.TokenType, tt)))
            if str(o) != str(n):
                fail(f"{name}([], {tt}): {o} vs {n}")
    for text in ("", "#", "# c\n\n#d", "\n", "x", "_p", "loop_"):
        a, b = orig.Token.tokenize(text), new.Token.tokenize(text)
        if orig.Token.parse_newline_or_comments(a) != new.Token.parse_newline_or_comments(b) or len(a) != len(b):
            fail(f"parse_newline_or_comments on {text!r}")
        for tgt in ("LITERAL", "PROPERTY", "LOOP"):
            a, b = orig.Token.tokenize(text), new.Token.tokenize(text)
            if orig.Token.lookahead(a, getattr(orig.TokenType, tgt), [orig.TokenType.NEWLINE, orig.TokenType.COMMENT]) != \
                    new.Token.lookahead(b, getattr(new.TokenType, tgt), [new.TokenType.NEWLINE, new.TokenType.COMMENT]):
                fail(f"lookahead {tgt} on {text!r}")
    # missing file / wrong sizes
    for fn in (lambda m: m.Starfile.read(os.path.join(TMP, "does_not_exist.star")),
               lambda m: m.Starfile.write([pd.DataFrame({"a": [1]})], os.path.join(TMP, "w.star"), specifiers=["a", "b"]),
               lambda m: m.Starfile.write([pd.DataFrame({"a": [1]})], os.path.join(TMP, "w.star"), comments=[]),
               lambda m: (m.Starfile(os.path.join(TMP, "does_not_exist.star")).frames,
                          m.Starfile(None, frames=1, specifiers=2, comments=3).comments, m.Starfile("").frames)):
        o, n = outcome(lambda: fn(orig)), outcome(lambda: fn(new))
        if str(o) != str(n):
            fail(f"error path: {o} vs {n}")


# ----------------------------------------------------------------------------------------------
# 4. extra comparisons original <-> current on the inputs the idioms are notorious for
# ----------------------------------------------------------------------------------------------
def run_extra():
    # tokenizer: every whitespace code point, lone '#', '#' glued to words, form feeds, trailing blanks
    spaces = [chr(c) for c in range(0x110000) if chr(c).isspace()]
    strippable = [chr(c) for c in range(0x110000) if chr(c).strip() == ""]
    if spaces != strippable:
        fail("str.isspace and str.strip disagree on some code point")
    samples = ["", " ", "\t", "#", " #", "# ", "  #  x  ", "#x#y", "a#b", "a #b", "_a#1", "loop_#c", "loop_ x", "xloop_",
               "_", "__", "_ _", "a\x0cb", "\x0c", "a\x0b#\x1c", "\x1c\x1d\x1e\x1f", "\x85", "\xa0", " x ", "\u3000",
               "\u200b", "\ufeffdata_", "a\rb", "\r", " \r", "#\r", "\ta\t\tb\t", "1 2  3   4", "data_\n\n\n", "\n#\n\n #\n"]
    samples += [s + "x" + s for s in spaces] + [s for s in spaces] + [s + "#" + s + "c" + s for s in spaces]
    for s in samples:
        compare_tokens(s, "tokenizer sample")
        compare_tokens("data_\nloop_\n_a\n" + s + "\n1\n", "tokenizer sample in context")
    for _ in range(300):
        n = int(rng.integers(0, 40))
        s = "".join(str(rng.choice(list(" \t#_\nab1.\r\x0c") + ["loop_", "data_", " # ", "\n\n"])) for _ in range(n))
        compare_tokens(s, "random token soup")
        COUNTS["extra"] += 1
        p = os.path.join(TMP, "soup.star")
        with open(p, "w", newline="") as fh:
            fh.write(s)
        compare_read(p, "random token soup")
    # writer: option values that are not plain booleans, specifiers around 'stopgap', names with braces / numbers
    base = [pd.DataFrame({"a": [1, 2], "b": [0.1234567, -2.0], "c": ["x", "{y}"]}),
            pd.DataFrame({"{n}": [1.0], "{name} #{number}": ["t"], 3: [0], "%s": [-0.0], "{": ["}"], "": [5]})]
    for nc in (True, False, 1, 0, None, "yes", "", [], [0], np.True_, np.False_, 2.0, 0.0):
        for specs in (["data_", "data_stopgap_x"], ["data_stopgap", "data_particles"], ["stopgap", "data_STOPGAP_x"],
                      ["data_optics", "xstopgapx"]):
            COUNTS["extra"] += 1
            compare_write(base, {"specifiers": specs, "number_columns": nc}, f"number_columns={nc!r} {specs}")
    for fp in (6, 0, 1, 3, 10, -1, None, 6.0, "6", True):
        compare_write(base, {"specifiers": ["data_", "data_b"], "float_precision": fp}, f"float_precision={fp!r}")
    for cm in (None, [None, None], [[], []], [["a"], None], [("a", "b"), []], ["ab", "c"], [[""], ["#"]], [[0], [None]]):
        compare_write(base, {"specifiers": ["data_", "data_b"], "comments": cm}, f"comments={cm!r}")
        if cm is not None:
            compare_read(os.path.join(TMP, "n.star"), f"read with comments={cm!r}")
    compare_write([], {}, "no frames")
    compare_write([], {"specifiers": [], "comments": []}, "no frames, empty lists")
    compare_write(base, {"specifiers": ("data_", "data_b")}, "tuple of specifiers")
    compare_write(tuple(base), {"specifiers": ["data_", "data_b"]}, "tuple of frames (item assignment fails)")
    compare_write(base, {"specifiers": ["data_", None]}, "None specifier")
    compare_write([pd.DataFrame({"a": [1, 2]}, index=[5, 5])], {}, "duplicate index")
    compare_write([pd.DataFrame({"a": [True, False], "b": [None, "x"], "c": [np.nan, 1.0]})], {}, "bool/None/NaN cells")
    compare_read(os.path.join(TMP, "n.star"), "read bool/None/NaN cells")
    # remove_lines goes through read and write with its own number_columns default
    src = os.path.join(TMP, "rl.star")
    new.Starfile.write([pd.DataFrame({"a": [1, 2, 3], "b": ["x", "y", "z"]}), pd.DataFrame({"q": [1.5]})], src,
                       specifiers=["data_optics", "data_particles"])
    for kw in ({}, {"number_columns": False}, {"data_specifier": "data_particles"}, {"data_specifier": "nope"},
               {"data_specifier": "data_optics", "number_columns": True}):
        for lines in ([0], [0, 2], [], [-1]):
            if kw.get("data_specifier") == "data_particles" and lines == [0, 2]:
                continue
            oo, on = os.path.join(TMP, "rlo.star"), os.path.join(TMP, "rln.star")
            for pth in (oo, on):
                if os.path.exists(pth):
                    os.remove(pth)
            o = outcome(lambda: orig.Starfile.remove_lines(src, lines, output_file=oo, **kw))
            n = outcome(lambda: new.Starfile.remove_lines(src, lines, output_file=on, **kw))
            bo = open(oo, "rb").read() if os.path.exists(oo) else None
            bn = open(on, "rb").read() if os.path.exists(on) else None
            if str(o) != str(n) or bo != bn:
                fail(f"remove_lines {kw} {lines}: {o} vs {n}")
            o = outcome(lambda: orig.Starfile.remove_lines(src, lines, **kw))
            n = outcome(lambda: new.Starfile.remove_lines(src, lines, **kw))
            if o[0] != n[0] or (o[0] == "ok" and o[1] is not None and (
                    not same_frames(o[1][0], n[1][0]) or o[1][1:] != n[1][1:])) or (o[0] == "ok" and (o[1] is None) != (n[1] is None)):
                fail(f"remove_lines (returning) {kw} {lines}")
    for spec in ("data_optics", "data_particles", "missing"):
        o = outcome(lambda: orig.Starfile.get_frame_and_comments(src, spec))
        n = outcome(lambda: new.Starfile.get_frame_and_comments(src, spec))
        if o[0] != n[0] or (o[0] == "raise" and o != n) or (o[0] == "ok" and (not same_frames([o[1][0]], [n[1][0]]) or o[1][1] != n[1][1])):
            fail(f"get_frame_and_comments {spec}")


run_roundtrips(int(os.environ.get("DEMO_ROUNDTRIPS", "150")))
run_handbuilt(int(os.environ.get("DEMO_TEXTS", "300")))
run_malformed()
run_extra()
shutil.rmtree(TMP, ignore_errors=True)
print("checked:", COUNTS)
if FAILS:
    print(f"FAIL ({len(FAILS)} findings)")
    sys.exit(1)
print("PASS")
