"""C14 demo: map rotation, placement, windowing and symmetrisation share one active convention.

Run as:  cd /tmp/wt6/C14 && /venv/bin/python /tmp/seedsP/C14/<x>/demo.py
Checks the property against independent computations (explicit rotation matrices, map_coordinates, per-voxel loops)
and compares the current implementation with verbatim copies of the original functions.
"""
import os
import sys

sys.path.insert(0, os.getcwd())

import itertools
import re
import warnings

import numpy as np
import pandas as pd
from scipy.ndimage import affine_transform, map_coordinates
from scipy.spatial.transform import Rotation as srot

warnings.filterwarnings("ignore")

from cryocat import cryomap, cryomotl  # noqa: E402

FAILS = []


def check(cond, msg):
    if not cond:
        FAILS.append(msg)
        print("FAIL:", msg)


# --------------------------------------------------------------------------------------------------------------------
# independent helpers
# --------------------------------------------------------------------------------------------------------------------
def Rz(a):
    a = np.deg2rad(a)
    return np.array([[np.cos(a), -np.sin(a), 0.0], [np.sin(a), np.cos(a), 0.0], [0.0, 0.0, 1.0]])


def Rx(a):
    a = np.deg2rad(a)
    return np.array([[1.0, 0.0, 0.0], [0.0, np.cos(a), -np.sin(a)], [0.0, np.sin(a), np.cos(a)]])


def zxz_matrix(phi, theta, psi):
    # extrinsic zxz: first phi about z, then theta about x, then psi about z (fixed axes)
    return Rz(psi) @ Rx(theta) @ Rz(phi)


def independent_rotate(vol, R, order=3):
    """out[c + w] = in[c + R^T w]  (density at offset v goes to offset R v), computed with map_coordinates."""
    shape = vol.shape
    c = np.array(shape) // 2
    grid = np.stack(np.meshgrid(*[np.arange(s) for s in shape], indexing="ij"), axis=0).reshape(3, -1).astype(float)
    w = grid - c[:, None]
    src = R.T @ w + c[:, None]
    return map_coordinates(vol, src, order=order, mode="constant", cval=0.0).reshape(shape)


def gaussian_blob(shape, centre, sigma):
    g = np.meshgrid(*[np.arange(s) for s in shape], indexing="ij")
    r2 = sum((gi - ci) ** 2 for gi, ci in zip(g, centre))
    return np.exp(-r2 / (2.0 * sigma**2))


def make_motl(n, rng, vol_shape, index=None, integer_pos=False):
    df = pd.DataFrame(np.zeros((n, len(cryomotl.Motl.motl_columns))), columns=cryomotl.Motl.motl_columns)
    df["subtomo_id"] = np.arange(1, n + 1, dtype=float)
    df["tomo_id"] = 1.0
    df["object_id"] = rng.integers(1, 6, n).astype(float)
    df["score"] = np.round(rng.uniform(0.2, 3.0, n), 3)
    df["geom1"] = rng.integers(-4, 5, n).astype(float)
    for k, a in enumerate("xyz"):
        df[a] = rng.integers(-3, vol_shape[k] + 4, n).astype(float)
        if not integer_pos:
            df["shift_" + a] = np.round(rng.uniform(-2.5, 2.5, n), 2)
    df["phi"] = rng.uniform(-180, 180, n)
    df["theta"] = rng.uniform(0, 180, n)
    df["psi"] = rng.uniform(-180, 180, n)
    df["class"] = 1.0
    if index is not None:
        df.index = index
    return cryomotl.Motl(df)


# --------------------------------------------------------------------------------------------------------------------
# verbatim copies of the original functions (for output comparison)
# --------------------------------------------------------------------------------------------------------------------
def orig_rotate(
    input_map,
    rotation=None,
    rotation_angles=None,
    coord_space="zxz",
    transpose_rotation=False,
    degrees=True,
    spline_order=3,
    output_name=None,
):
    input_map = cryomap.read(input_map)
    T = np.eye(4)
    structure_center = np.asarray(input_map.shape) // 2
    T[:3, -1] = structure_center

    rot_matrix = np.eye(4)

    if rotation is not None:
        if transpose_rotation:
            rot_matrix[0:3, 0:3] = rotation.as_matrix().T
        else:
            rot_matrix[0:3, 0:3] = rotation.as_matrix()

    elif rotation_angles is not None:
        rot = srot.from_euler(coord_space, rotation_angles, degrees=degrees)
        rot_matrix[0:3, 0:3] = rot.as_matrix().T

    else:
        raise ValueError("Either rotation_angles or rotation has to be specified!!!")

    final_matrix = T @ rot_matrix @ np.linalg.inv(T)

    rot_struct = np.empty(input_map.shape)
    affine_transform(input=input_map, output=rot_struct, matrix=final_matrix, order=spline_order)

    if output_name is not None:
        cryomap.write(rot_struct, output_name, data_type=np.single)

    return rot_struct


def orig_get_start_end_indices(coord, volume_shape, subvolume_shape):
    subvolume_shape = np.asarray(subvolume_shape)
    subvolume_half = subvolume_shape / 2

    volume_start = np.floor(coord - subvolume_half).astype(int)
    volume_end = (volume_start + subvolume_shape).astype(int)

    volume_start_clip = np.minimum(np.maximum([0, 0, 0], volume_start), np.asarray(volume_shape))
    volume_end_clip = np.maximum(np.minimum(np.asarray(volume_shape), volume_end), [0, 0, 0])

    subvolume_start = volume_start_clip - volume_start
    subvolume_end = volume_end - volume_start
    subvolume_end = volume_end_clip - volume_end + subvolume_end

    subvolume_start = np.minimum(np.maximum([0, 0, 0], subvolume_start), subvolume_shape)
    subvolume_end = np.maximum(np.minimum(subvolume_shape, subvolume_end), [0, 0, 0])

    return volume_start_clip, volume_end_clip, subvolume_start, subvolume_end


def orig_extract_subvolume(volume, coordinates, subvolume_shape, enforce_shape=False, output_file=None):
    vs, ve, ss, se = orig_get_start_end_indices(coordinates, volume.shape, subvolume_shape)
    if enforce_shape is not False:
        subvolume = np.full(volume.shape, np.mean(volume))
        subvolume[vs[0] : ve[0], vs[1] : ve[1], vs[2] : ve[2]] = volume[vs[0] : ve[0], vs[1] : ve[1], vs[2] : ve[2]]
    else:
        subvolume = np.full(subvolume_shape, np.mean(volume))
        subvolume[ss[0] : se[0], ss[1] : se[1], ss[2] : se[2]] = volume[vs[0] : ve[0], vs[1] : ve[1], vs[2] : ve[2]]
    return subvolume


def orig_crop(input_map, new_size, crop_coord=None):
    input_map = cryomap.read(input_map)
    new_size = cryomap.cryomask.get_correct_format(new_size)
    if crop_coord is None:
        crop_coord = cryomap.cryomask.get_correct_format(input_map.shape) // 2
    else:
        crop_coord = cryomap.cryomask.get_correct_format(crop_coord)
    vs, ve, _, _ = orig_get_start_end_indices(crop_coord, input_map.shape, new_size)
    return input_map[vs[0] : ve[0], vs[1] : ve[1], vs[2] : ve[2]]


def orig_place_object(input_object, motl, volume_shape=None, volume=None, feature_to_color="object_id"):
    if not isinstance(input_object, list):
        input_object = cryomap.read(input_object)

    if volume is not None:
        object_container = cryomap.read(volume)
    elif volume_shape is not None:
        object_container = np.zeros(volume_shape)

    rotations = motl.get_rotations()
    coordinates = motl.get_coordinates() - 1.0
    colors = motl.df[feature_to_color]

    for i, coord in enumerate(coordinates):

        if isinstance(input_object, list):
            object_map = orig_rotate(input_object[i], rotation=rotations[i], transpose_rotation=True)
        else:
            object_map = orig_rotate(input_object, rotation=rotations[i], transpose_rotation=True)

        object_map = np.where(object_map > 0.1, 1.0, 0.0)

        ls, le, os_, oe = orig_get_start_end_indices(coord, object_container.shape, object_map.shape)

        object_shape = object_map[os_[0] : oe[0], os_[1] : oe[1], os_[2] : oe[2]]
        object_container[ls[0] : le[0], ls[1] : le[1], ls[2] : le[2]] = np.where(
            object_shape == 1.0,
            colors[i],
            object_container[ls[0] : le[0], ls[1] : le[1], ls[2] : le[2]],
        )

    return object_container


def orig_symmetrize_volume(vol, symmetry):
    if isinstance(symmetry, str):
        nfold = int(re.findall(r"\d+", symmetry)[-1])
    elif isinstance(symmetry, (int, float)):
        nfold = symmetry
    else:
        raise ValueError("bad symmetry")
    inplane_step = 360 / nfold
    rotated_sum = np.zeros(vol.shape)
    for inplane in range(1, nfold + 1):
        rotated_volume = orig_rotate(vol, rotation_angles=[0, 0, (inplane * inplane_step) % 360])
        rotated_sum = np.add(rotated_sum, rotated_volume)
    return np.divide(rotated_sum, nfold)


def INNER(a):
    # target voxel 1 of an even box has its source on the opposite face -> drop two layers
    return a[2:-2, 2:-2, 2:-2]


def same(a, b):
    a = np.asarray(a)
    b = np.asarray(b)
    return a.shape == b.shape and a.dtype == b.dtype and np.array_equal(a, b, equal_nan=True)


# --------------------------------------------------------------------------------------------------------------------
# 1. the 24 cube rotations permute the interior voxels exactly
# --------------------------------------------------------------------------------------------------------------------
def cube_rotations():
    found = {}
    for phi, theta, psi in itertools.product([0, 90, 180, 270], repeat=3):
        R = np.rint(zxz_matrix(phi, theta, psi)).astype(int)
        found.setdefault(tuple(R.ravel()), (phi, theta, psi))
    return [(np.array(k).reshape(3, 3), v) for k, v in found.items()]


def test_cube_rotations(rng):
    rots = cube_rotations()
    check(len(rots) == 24, "expected 24 cube rotations, got %d" % len(rots))
    for N in (6, 7, 8, 9):
        vol = rng.normal(size=(N, N, N))
        vol32 = vol.astype(np.float32)
        c = N // 2
        interior = [np.array(v) for v in itertools.product(range(1, N - 1), repeat=3)]
        for R, angles in rots:
            out = cryomap.rotate(vol, rotation_angles=list(angles))
            check(out.shape == vol.shape and out.dtype == np.float64, "rotate shape/dtype N=%d" % N)
            check(same(out, orig_rotate(vol, rotation_angles=list(angles))), "rotate != original (angles) %s" % (angles,))
            # the same through a Rotation object, the way place_object does it
            r_obj = srot.from_euler("zxz", list(angles), degrees=True)
            out2 = cryomap.rotate(vol, rotation=r_obj, transpose_rotation=True)
            check(same(out2, orig_rotate(vol, rotation=r_obj, transpose_rotation=True)), "rotate != original (obj)")
            check(np.allclose(out, out2, atol=1e-9), "angles vs rotation object disagree %s" % (angles,))
            out3 = cryomap.rotate(vol, rotation=r_obj.inv())
            check(same(out3, orig_rotate(vol, rotation=r_obj.inv())), "rotate != original (obj, no transpose)")
            check(np.allclose(out, out3, atol=1e-9), "inverse rotation without transpose disagrees")
            o32 = cryomap.rotate(vol32, rotation_angles=list(angles), spline_order=1)
            check(same(o32, orig_rotate(vol32, rotation_angles=list(angles), spline_order=1)), "rotate f32 != original")
            bad = 0
            n_checked = 0
            for p in interior:
                v = p - c
                q = R @ v + c
                if np.all(q >= 1) and np.all(q <= N - 2):
                    n_checked += 1
                    if abs(out[tuple(q)] - vol[tuple(p)]) > 1e-8:
                        bad += 1
            check(n_checked > 0 and bad == 0, "cube rotation %s N=%d: %d/%d interior voxels wrong" % (angles, N, bad, n_checked))


# --------------------------------------------------------------------------------------------------------------------
# 2. random rotations of smooth blobs: offset v -> R v, inverse restores, same convention as Motl
# --------------------------------------------------------------------------------------------------------------------
def test_random_rotations(rng):
    for trial in range(12):
        shape = [(32, 32, 32), (33, 33, 33), (30, 34, 32)][trial % 3]
        c = np.array(shape) // 2
        phi, theta, psi = rng.uniform(-180, 180), rng.uniform(0, 180), rng.uniform(-180, 180)
        if trial == 0:
            phi, theta, psi = 0.0, 0.0, 37.0
        if trial == 1:
            phi, theta, psi = -120.0, 180.0, 45.0
        R = zxz_matrix(phi, theta, psi)
        v = rng.uniform(-5, 5, 3)
        blob = gaussian_blob(shape, c + v, 2.5) + 0.5 * gaussian_blob(shape, c - 0.5 * v, 3.0)
        expected = gaussian_blob(shape, c + R @ v, 2.5) + 0.5 * gaussian_blob(shape, c - 0.5 * (R @ v), 3.0)
        out = cryomap.rotate(blob, rotation_angles=[phi, theta, psi])
        check(same(out, orig_rotate(blob, rotation_angles=[phi, theta, psi])), "rotate != original (random)")
        check(np.max(np.abs(out - expected)) < 5e-3, "blob not carried to R v (err %g)" % np.max(np.abs(out - expected)))
        ind = independent_rotate(blob, R)
        # face voxels can fall outside the interpolation domain by rounding -> compare the interior only
        check(np.allclose(INNER(out), INNER(ind), atol=1e-9), "rotate differs from map_coordinates reference")
        back = cryomap.rotate(out, rotation=srot.from_matrix(R))  # matrix used as is == rotate by inverse
        check(np.max(np.abs(back - blob)) < 5e-3, "inverse rotation does not restore the map")
        back2 = cryomap.rotate(out, rotation_angles=[-psi, -theta, -phi])
        check(np.max(np.abs(back2 - blob)) < 5e-3, "inverse angles do not restore the map")
        # radians + other coordinate space
        outr = cryomap.rotate(blob, rotation_angles=np.deg2rad([phi, theta, psi]), degrees=False)
        check(np.allclose(outr, out, atol=1e-9), "radians variant differs")
        check(same(outr, orig_rotate(blob, rotation_angles=np.deg2rad([phi, theta, psi]), degrees=False)), "rad != orig")
        oz = cryomap.rotate(blob, rotation_angles=[phi, theta, psi], coord_space="zyz", spline_order=1)
        check(same(oz, orig_rotate(blob, rotation_angles=[phi, theta, psi], coord_space="zyz", spline_order=1)), "zyz != orig")

        # Motl convention: same R carries reference offsets into the tomogram
        m = make_motl(1, rng, (40, 40, 40))
        m.df.loc[:, ["phi", "theta", "psi"]] = [phi, theta, psi]
        rm = m.get_rotations()
        check(np.allclose(rm.as_matrix()[0], R, atol=1e-12), "Motl.get_rotations is not extrinsic zxz(phi,theta,psi)")
        before = m.get_coordinates().copy()
        m2 = m.shift_positions(v, inplace=False)
        check(np.allclose(m2.get_coordinates() - before, R @ v, atol=1e-9), "shift_positions does not add R v")
        check(np.allclose(m.get_coordinates(), before), "shift_positions(inplace=False) modified the motl")
    try:
        cryomap.rotate(np.zeros((4, 4, 4)))
        check(False, "rotate without rotation did not raise")
    except ValueError:
        pass


# --------------------------------------------------------------------------------------------------------------------
# 3. windows: extract_subvolume / crop / get_start_end_indices
# --------------------------------------------------------------------------------------------------------------------
def independent_window(volume, coord, box):
    start = np.floor(np.asarray(coord, dtype=float) - np.asarray(box) / 2.0).astype(int)
    out = np.full(box, np.mean(volume))
    for j in itertools.product(*[range(b) for b in box]):
        s = start + np.array(j)
        if np.all(s >= 0) and np.all(s < np.array(volume.shape)):
            out[j] = volume[tuple(s)]
    return out


def test_windows(rng):
    cases = []
    for vshape in [(12, 12, 12), (9, 14, 11), (5, 6, 7)]:
        vol = rng.normal(loc=3.0, size=vshape)
        for box in [(4, 4, 4), (6, 6, 6), (2, 4, 6), (8, 8, 8), (16, 16, 16)]:
            coords = [
                np.array(vshape) // 2,  # inside (when the box fits)
                np.array(vshape) / 2.0 + 0.5,
                np.array([0, 0, 0]),  # partly outside
                np.array(vshape) - 1,
                np.array([1.5, vshape[1] - 0.5, 3.25]),
                np.array([-40, 3, 3]),  # fully outside
                np.array([3, 3, vshape[2] + 50]),
                np.array([-box[0] / 2, 3, 3]),  # touching from outside
                np.array([vshape[0] + box[0] / 2, 3, 3]),
            ]
            for _ in range(6):
                coords.append(rng.uniform(-6, np.array(vshape) + 6))
            for _ in range(3):
                coords.append(rng.integers(-6, np.array(vshape) + 6))
            for cc in coords:
                cases.append((vol, cc, box))
    for vol, cc, box in cases:
        res = cryomap.get_start_end_indices(cc, vol.shape, box)
        ref = orig_get_start_end_indices(cc, vol.shape, box)
        check(all(same(a, b) for a, b in zip(res, ref)) and len(res) == 4, "get_start_end_indices != original %s %s" % (cc, box))
        # list inputs too
        res_l = cryomap.get_start_end_indices(np.asarray(cc), list(vol.shape), list(box))
        check(all(same(a, b) for a, b in zip(res_l, ref)), "get_start_end_indices list args != original")
        vol_before = vol.copy()
        sub = cryomap.extract_subvolume(vol, cc, box)
        check(np.array_equal(vol, vol_before), "extract_subvolume modified its input")
        check(same(sub, orig_extract_subvolume(vol, cc, box)), "extract_subvolume != original %s %s" % (cc, box))
        check(sub.shape == tuple(box), "extract_subvolume shape")
        check(np.array_equal(sub, independent_window(vol, cc, box)), "extract_subvolume window wrong %s %s" % (cc, box))
        sub_e = cryomap.extract_subvolume(vol, cc, box, enforce_shape=True)
        check(same(sub_e, orig_extract_subvolume(vol, cc, box, enforce_shape=True)), "extract_subvolume enforce != orig")
        # repeated call gives the same thing
        check(same(sub, cryomap.extract_subvolume(vol, cc, box)), "extract_subvolume not repeatable")
    # crop (centre and explicit coordinate) and pad round trip
    for vshape in [(12, 12, 12), (9, 14, 11)]:
        vol = rng.normal(size=vshape)
        for new in [(4, 4, 4), (6, 8, 4), (8, 8, 8)]:
            cr = cryomap.crop(vol, new)
            check(same(cr, orig_crop(vol, new)), "crop != original")
            st = np.floor(np.array(vshape) // 2 - np.array(new) / 2).astype(int)
            check(np.array_equal(cr, vol[st[0] : st[0] + new[0], st[1] : st[1] + new[1], st[2] : st[2] + new[2]]), "crop window")
            cr2 = cryomap.crop(vol, new, crop_coord=(5, 6, 5))
            check(same(cr2, orig_crop(vol, new, crop_coord=(5, 6, 5))), "crop coord != original")
            pd_ = cryomap.pad(cr, vshape, fill_value=0.0)
            check(pd_.shape == tuple(vshape) and np.isclose(pd_.sum(), cr.sum()), "pad keeps density")


# --------------------------------------------------------------------------------------------------------------------
# 4. place_object
# --------------------------------------------------------------------------------------------------------------------
def independent_place(template, motl, volume_shape, feature, start_volume=None):
    cont = np.zeros(volume_shape) if start_volume is None else np.array(start_volume, copy=True)
    unsure = np.zeros(cont.shape, dtype=bool)
    df = motl.df
    box = np.array(template.shape)
    for i in range(len(df)):
        row = df.iloc[i]
        R = zxz_matrix(row["phi"], row["theta"], row["psi"])
        rot_t = independent_rotate(template, R)
        mask = rot_t > 0.1
        close = np.abs(rot_t - 0.1) < 1e-7
        pos = np.array([row["x"] + row["shift_x"], row["y"] + row["shift_y"], row["z"] + row["shift_z"]]) - 1.0
        start = np.floor(pos - box / 2.0).astype(int)
        colour = row[feature]
        for j in itertools.product(*[range(b) for b in box]):
            s = start + np.array(j)
            if np.all(s >= 0) and np.all(s < np.array(cont.shape)):
                if close[j]:
                    unsure[tuple(s)] = True
                if mask[j]:
                    cont[tuple(s)] = colour
    return cont, unsure


def test_place_object(rng):
    tshape = (8, 8, 8)
    tc = np.array(tshape) // 2
    template = gaussian_blob(tshape, tc + np.array([1.0, 0.0, 0.5]), 1.6) + 0.6 * gaussian_blob(tshape, tc + np.array([-1.5, 1.0, -1.0]), 1.2)
    configs = [
        (1, (20, 20, 20), "object_id", False),
        (3, (18, 22, 16), "score", False),
        (7, (20, 20, 20), "geom1", True),
        (20, (24, 20, 22), "object_id", False),
        (12, (16, 16, 16), "subtomo_id", False),
    ]
    for n, vshape, feature, integer_pos in configs:
        m = make_motl(n, rng, vshape, integer_pos=integer_pos)
        df_before = m.df.copy()
        out = cryomap.place_object(template, m, volume_shape=vshape, feature_to_color=feature)
        check(m.df.equals(df_before), "place_object modified the motl")
        check(out.shape == tuple(vshape) and out.dtype == np.float64, "place_object shape/dtype")
        check(same(out, orig_place_object(template, m, volume_shape=vshape, feature_to_color=feature)), "place_object != original n=%d" % n)
        ref, unsure = independent_place(template, m, vshape, feature)
        ok = np.array_equal(out[~unsure], ref[~unsure])
        check(ok, "place_object differs from independent stamping (n=%d, %s)" % (n, feature))
        check(unsure.sum() < 5, "too many threshold-ambiguous voxels")
        check(same(out, cryomap.place_object(template, m, volume_shape=vshape, feature_to_color=feature)), "place_object not repeatable")
        # existing volume as the starting container; must not be modified
        start = rng.normal(size=vshape)
        start_copy = start.copy()
        out_v = cryomap.place_object(template, m, volume=start, feature_to_color=feature)
        check(np.array_equal(start, start_copy), "place_object modified the given volume")
        check(same(out_v, orig_place_object(template, m, volume=start, feature_to_color=feature)), "place_object(volume) != original")
        ref_v, unsure_v = independent_place(template, m, vshape, feature, start_volume=start)
        check(np.array_equal(out_v[~unsure_v], ref_v[~unsure_v]), "place_object(volume) differs from independent stamping")
        # containers of other dtypes (the colour is cast into the container's dtype)
        for dt in (np.float32, np.int16):
            start_dt = (rng.normal(size=vshape) * 10).astype(dt)
            out_dt = cryomap.place_object(template, m, volume=start_dt, feature_to_color=feature)
            check(out_dt.dtype == dt, "place_object changed the container dtype")
            check(same(out_dt, orig_place_object(template, m, volume=start_dt, feature_to_color=feature)), "place_object(%s volume) != original" % dt.__name__)
        # list of objects, one per particle
        objs = [template if k % 2 == 0 else template[::-1, :, :].copy() for k in range(n)]
        out_l = cryomap.place_object(objs, m, volume_shape=vshape, feature_to_color=feature)
        check(same(out_l, orig_place_object(objs, m, volume_shape=vshape, feature_to_color=feature)), "place_object(list) != original")
    # axis-aligned binary template: exact
    tb = np.zeros((6, 6, 6))
    tb[2:5, 3, 3] = 1.0
    tb[4, 3:5, 3] = 1.0
    m = make_motl(4, rng, (14, 14, 14), integer_pos=True)
    m.df["phi"] = [0.0, 90.0, 180.0, 270.0]
    m.df["theta"] = [0.0, 90.0, 180.0, 90.0]
    m.df["psi"] = [0.0, 0.0, 90.0, 270.0]
    out = cryomap.place_object(tb, m, volume_shape=(14, 14, 14))
    check(same(out, orig_place_object(tb, m, volume_shape=(14, 14, 14))), "place_object binary != original")
    ref, unsure = independent_place(tb, m, (14, 14, 14), "object_id")
    check(np.array_equal(out[~unsure], ref[~unsure]), "place_object binary differs from independent stamping")


# --------------------------------------------------------------------------------------------------------------------
# 5. symmetrize_volume
# --------------------------------------------------------------------------------------------------------------------
def test_symmetrize(rng):
    shape = (32, 32, 32)
    c = np.array(shape) // 2
    for n in range(2, 13):
        vol = (
            gaussian_blob(shape, c + np.array([5.0, 1.0, 2.0]), 2.5)
            + 0.7 * gaussian_blob(shape, c + np.array([-2.0, 4.0, -3.0]), 3.0)
            + 0.3 * gaussian_blob(shape, c, 4.0)
        )
        for sym in (n, "C%d" % n):
            s = cryomap.symmetrize_volume(vol, sym)
            check(same(s, orig_symmetrize_volume(vol, sym)), "symmetrize_volume != original n=%s" % sym)
        mean_ref = np.zeros(shape)
        for k in range(n):
            mean_ref += independent_rotate(vol, Rz(k * 360.0 / n))
        mean_ref /= n
        check(np.allclose(INNER(s), INNER(mean_ref), atol=1e-8), "symmetrize_volume is not the mean of n rotated copies (n=%d)" % n)
        again = cryomap.rotate(s, rotation_angles=[0, 0, 360.0 / n])
        check(np.max(np.abs(again - s)) < 5e-3, "symmetrised map not invariant (n=%d)" % n)
        check(abs(s.sum() - vol.sum()) < 1e-3 * abs(vol.sum()), "total density changed (n=%d)" % n)


def main():
    rng = np.random.default_rng(20140)
    test_cube_rotations(rng)
    test_random_rotations(rng)
    test_windows(rng)
    test_place_object(rng)
    test_symmetrize(rng)
    if FAILS:
        print("FAILED: %d checks" % len(FAILS))
        sys.exit(1)
    print("PASS")


if __name__ == "__main__":
    main()
