"""C05 / change c -- the empty particle list spelled out in update_coordinates and shift_positions (copy of the frame,
same warning, fresh 0..n-1 index) instead of DataFrame.apply probing the row function with a dummy row of NaNs.

Checks the property (complete position x+shift, orientation R = zxz(phi,theta,psi); update / scale / shift / rotate /
flip and histories of up to 6 of them) against an independent model (own rotation matrices, exact rational rounding),
and compares the worktree's methods bit for bit with the original function texts kept below. Boundary inputs of the
idiom: empty lists with range / left-over / mixed-dtype frames, one-row lists, inplace True / False / keyword, the df
object is replaced (never the caller's frame), exactly one warning, repeated calls on the same object, a shift of the
wrong length on an empty list (no error before, none after).
Run: cd /tmp/wt7/C05 && /venv/bin/python /tmp/seedsS/C05/c/demo.py
"""
import sys, os

sys.path.insert(0, os.getcwd())

import copy
import tempfile
import warnings
from fractions import Fraction

import numpy as np
import pandas as pd

warnings.filterwarnings("ignore")

import cryocat.cryomotl as cm
from cryocat.cryomotl import Motl
from scipy.spatial.transform import Rotation as srot

SEED = int(os.environ.get("DEMO_SEED", "20260928"))
rng = np.random.default_rng(SEED)

# --------------------------------------------------------------------------------------------------------------------
# Original text of the functions the property rests on (HEAD c6c7c39), executed in the namespace of the module so
# that the worktree's (possibly patched) methods can be compared with them on identical inputs.
# --------------------------------------------------------------------------------------------------------------------
ORIG_SRC = '''
def apply_rotation(self, rotation):
    if not isinstance(rotation, rot):  # Use `rot` instead of `R`
        raise ValueError("rotation must be an instance of scipy.spatial.transform.Rotation")

    angles = self.df.loc[:, ["phi", "theta", "psi"]].to_numpy()

    angles_rot = rot.from_euler("zxz", angles, degrees=True)
    final_rotation = angles_rot * rotation
    angles = final_rotation.as_euler("zxz", degrees=True)
    self.df.loc[:, ["phi", "theta", "psi"]] = angles


def flip_handedness(self, tomo_dimensions=None):
    self.df.loc[:, "theta"] = -self.df.loc[:, "theta"]

    # Position flip
    if tomo_dimensions is not None:
        dims = ioutils.dimensions_load(tomo_dimensions)
        if dims.shape == (1, 3):
            z_dim = float(dims["z"].iloc[0]) + 1
            self.df.loc[:, "z"] = z_dim - self.df.loc[:, "z"]
            self.df.loc[:, "shift_z"] = -self.df.loc[:, "shift_z"]
        else:
            tomos = dims["tomo_id"].unique()
            for t in tomos:
                z_dim = float(dims.loc[dims["tomo_id"] == t, "z"].iloc[0]) + 1
                self.df.loc[self.df["tomo_id"] == t, "z"] = z_dim - self.df.loc[self.df["tomo_id"] == t, "z"]
                self.df.loc[self.df["tomo_id"] == t, "shift_z"] = -self.df.loc[self.df["tomo_id"] == t, "shift_z"]


def get_angles(self, tomo_number=None):
    if tomo_number is None:
        angles = self.df.loc[:, ["phi", "theta", "psi"]].values
    else:
        angles = self.df.loc[self.df.loc[:, "tomo_id"] == tomo_number, ["phi", "theta", "psi"]].values

    return np.atleast_2d(angles)


def get_coordinates(self, tomo_number=None):
    if tomo_number is None:
        coord = self.df.loc[:, ["x", "y", "z"]].values + self.df.loc[:, ["shift_x", "shift_y", "shift_z"]].values
    else:
        coord = (
            self.df.loc[self.df.loc[:, "tomo_id"] == tomo_number, ["x", "y", "z"]].values
            + self.df.loc[
                self.df.loc[:, "tomo_id"] == tomo_number,
                ["shift_x", "shift_y", "shift_z"],
            ].values
        )

    return coord


def get_rotations(self, tomo_number=None):
    angles = self.get_angles(tomo_number)
    if angles.shape[0] == 0:
        return []  # Return an empty list if angles is empty
    rotations = rot.from_euler("zxz", angles, degrees=True)

    return rotations


def scale_coordinates(self, scaling_factor):
    for coord in ("x", "y", "z"):
        self.df[coord] = self.df[coord] * scaling_factor
        shift_column = "shift_" + coord
        self.df[shift_column] = self.df[shift_column] * scaling_factor


def update_coordinates(self):
    # Python 0.5 rounding: round(1.5) = 2, BUT round(2.5) = 2, while in Matlab round(2.5) = 3
    def round_and_recenter(row):
        new_row = row.copy()
        shifted_x = row["x"] + row["shift_x"]
        shifted_y = row["y"] + row["shift_y"]
        shifted_z = row["z"] + row["shift_z"]
        new_row["x"] = float(decimal.Decimal(shifted_x).to_integral_value(rounding=decimal.ROUND_HALF_UP))
        new_row["y"] = float(decimal.Decimal(shifted_y).to_integral_value(rounding=decimal.ROUND_HALF_UP))
        new_row["z"] = float(decimal.Decimal(shifted_z).to_integral_value(rounding=decimal.ROUND_HALF_UP))
        new_row["shift_x"] = shifted_x - new_row["x"]
        new_row["shift_y"] = shifted_y - new_row["y"]
        new_row["shift_z"] = shifted_z - new_row["z"]
        return new_row

    self.df = self.df.apply(round_and_recenter, axis=1)
    warnings.warn("The coordinates for subtomogram extraction were changed, new extraction is necessary!")


def shift_positions(self, shift, inplace=True):
    def shift_coords(row):
        v = np.array(shift)
        euler_angles = np.array([[row["phi"], row["theta"], row["psi"]]])
        orientations = rot.from_euler(seq="zxz", angles=euler_angles, degrees=True)
        rshifts = orientations.apply(v)

        row["shift_x"] = row["shift_x"] + rshifts[0][0]
        row["shift_y"] = row["shift_y"] + rshifts[0][1]
        row["shift_z"] = row["shift_z"] + rshifts[0][2]
        return row

    if inplace:
        self.df = self.df.apply(shift_coords, axis=1).reset_index(drop=True)
    else:
        new_motl = copy.deepcopy(self)
        new_motl.df = new_motl.df.apply(shift_coords, axis=1).reset_index(drop=True)
        return new_motl
'''
_ns = dict(vars(cm))
exec(ORIG_SRC, _ns)
ORIG_NAMES = [
    "apply_rotation",
    "flip_handedness",
    "get_angles",
    "get_coordinates",
    "get_rotations",
    "scale_coordinates",
    "update_coordinates",
    "shift_positions",
]
OrigMotl = type("OrigMotl", (Motl,), {k: _ns[k] for k in ORIG_NAMES})


class SubMotl(Motl):  # a subclass that overrides nothing: the worktree's code reached through inheritance
    pass


# --------------------------------------------------------------------------------------------------------------------
# Independent model: complete position P = x + shift, orientation R = Rz(psi) Rx(theta) Rz(phi) (extrinsic zxz).
# --------------------------------------------------------------------------------------------------------------------
def Rz(a):
    c, s = np.cos(np.deg2rad(a)), np.sin(np.deg2rad(a))
    return np.array([[c, -s, 0.0], [s, c, 0.0], [0.0, 0.0, 1.0]])


def Rx(a):
    c, s = np.cos(np.deg2rad(a)), np.sin(np.deg2rad(a))
    return np.array([[1.0, 0.0, 0.0], [0.0, c, -s], [0.0, s, c]])


def euler_matrix(phi, theta, psi):
    return Rz(psi) @ Rx(theta) @ Rz(phi)


def df_positions(df):
    out = np.empty((len(df), 3))
    for k, c in enumerate("xyz"):
        out[:, k] = df[c].to_numpy(dtype=float) + df["shift_" + c].to_numpy(dtype=float)
    return out


def df_matrices(df):
    out = np.empty((len(df), 3, 3))
    for i, (phi, theta, psi) in enumerate(zip(df["phi"].to_numpy(), df["theta"].to_numpy(), df["psi"].to_numpy())):
        out[i] = euler_matrix(phi, theta, psi)
    return out


def half_up_exact(v):
    """Round half away from zero in exact rational arithmetic (no decimal, no float addition)."""
    a = abs(Fraction(float(v)))
    f = a.numerator // a.denominator
    r = f + 1 if a - f >= Fraction(1, 2) else f
    return -r if v < 0 else r


S = np.diag([1.0, 1.0, -1.0])
POLES = [0.0, 180.0, -180.0, 360.0, -0.0]
SPECIAL = [0.0, 90.0, -90.0, 180.0, -180.0, 270.0, 360.0, 1e-9, -1e-9]


def random_angles(n):
    ang = np.column_stack([rng.uniform(-360, 360, n), rng.uniform(-180, 180, n), rng.uniform(-360, 360, n)])
    for i in range(n):
        u = rng.random()
        if u < 0.2:
            ang[i, 1] = rng.choice(POLES)  # gimbal lock
        elif u < 0.3:
            ang[i, rng.integers(3)] = rng.choice(SPECIAL)
        elif u < 0.35:
            ang[i] = rng.choice(SPECIAL, 3)
    return ang


def random_df(n, index_kind="range", tomos=(0, 1, 2, 7), ties=True, holes=True, big=False):
    df = pd.DataFrame(np.zeros((n, 20)), columns=Motl.motl_columns)
    scale = 1e5 if big else 300.0
    pos = rng.uniform(-scale, scale, (n, 3))
    sh = rng.uniform(-3, 3, (n, 3))
    for i in range(n):
        u = rng.random()
        if u < 0.25:
            pos[i] = np.round(pos[i])  # extraction positions
        if u < 0.1:
            sh[i] = 0.0
        elif ties and u < 0.35:
            pos[i] = np.round(pos[i])
            sh[i] = rng.choice([0.5, -0.5, 1.5, -1.5, 2.5, -2.5, 0.0, -0.0, 0.49999999999999994, -0.49999999999999994], 3)
        elif ties and u < 0.45:
            pos[i] = np.round(pos[i]) + 0.5  # half-integer position, integer shift
            sh[i] = np.round(sh[i])
        elif u < 0.5:
            pos[i] = rng.choice([0.0, -0.0, 1.0, -1.0], 3)
            sh[i] = rng.choice([0.0, -0.0, 0.5, -0.5, 0.25, -0.25], 3)
    df[["x", "y", "z"]] = pos
    df[["shift_x", "shift_y", "shift_z"]] = sh
    df[["phi", "theta", "psi"]] = random_angles(n)
    df["tomo_id"] = rng.choice(np.asarray(tomos, dtype=float), n) if n else np.zeros(0)
    df["object_id"] = rng.integers(0, 4, n).astype(float)
    df["subtomo_id"] = np.arange(1, n + 1, dtype=float)
    df["score"] = rng.uniform(-1, 1, n)
    df["class"] = rng.integers(0, 3, n).astype(float)
    df["geom1"] = rng.integers(0, 5, n).astype(float)
    if holes and n:
        df.loc[rng.random(n) < 0.3, "score"] = np.nan  # NaN holes in a column that is not part of the pose
        df.loc[rng.random(n) < 0.3, "geom3"] = np.nan
    if index_kind == "offset":
        df.index = np.arange(n) + 100
    elif index_kind == "shuffled":
        df.index = rng.permutation(n)
    elif index_kind == "step":
        df.index = np.arange(n) * 3 + 2
    elif index_kind == "filtered":  # what is left over after a boolean selection
        big_n = 2 * n + 3
        keep = np.sort(rng.choice(big_n, n, replace=False))
        df.index = keep
    return df


def dims_for(tomos, rng_extra=True):
    """Per-tomogram table (float tomo_id, x, y, z) for the given tomograms, in random order; sometimes with
    tomograms that hold no particle."""
    tomos = list(dict.fromkeys(float(t) for t in tomos))
    if rng_extra and rng.random() < 0.6:
        tomos += [float(t) for t in rng.choice([11, 12, 13, 99], rng.integers(1, 3), replace=False)]
    rng.shuffle(tomos)
    rows = [[t, float(rng.integers(100, 1000)), float(rng.integers(100, 1000)), float(rng.integers(50, 500))] for t in tomos]
    return np.array(rows, dtype=float).reshape(-1, 4)


def as_dims_input(table, how, tmpdir):
    """The ways a dimension table can be handed over (see ioutils.dimensions_load)."""
    table = np.array(table, dtype=float)
    if how == "ndarray":
        return table.copy()
    if how == "frame":
        return pd.DataFrame(table.copy())
    if how == "named_frame":
        cols = ["x", "y", "z"] if table.shape[1] == 3 else ["tomo_id", "x", "y", "z"]
        return pd.DataFrame(table.copy(), columns=cols)
    if how == "list":  # only a single tomogram can be given as list
        return [float(v) for v in table.reshape(-1)]
    if how == "vector":
        return table.reshape(-1).copy()
    if how == "file":
        path = os.path.join(tmpdir, "dims_%d.txt" % rng.integers(1 << 30))
        np.savetxt(path, table, fmt="%.1f")
        return path
    raise AssertionError(how)


def fresh(x):
    if isinstance(x, (pd.DataFrame, np.ndarray)):
        return x.copy()
    if isinstance(x, list):
        return list(x)
    return x


# --------------------------------------------------------------------------------------------------------------------
# Outcome comparison (worktree class vs. original text), bit for bit
# --------------------------------------------------------------------------------------------------------------------
def frame_bits(df):
    return (
        tuple(df.columns),
        tuple(str(t) for t in df.dtypes),
        type(df.index).__name__,
        str(df.index.dtype),
        tuple(df.index.tolist()),
        df.to_numpy(dtype=float).tobytes() if len(df.columns) else b"",
    )


def arr_bits(a):
    a = np.asarray(a)
    return (str(a.dtype), a.shape, np.asarray(a, dtype=float).tobytes())


def run(cls, df, ops):
    """Apply ops to a fresh motl of class cls; return the trace of outcomes."""
    m = cls(df.copy())
    trace = []
    for op in ops:
        name, args = op[0], [fresh(a) for a in op[1:]]
        before = m.df
        with warnings.catch_warnings(record=True) as w:
            warnings.simplefilter("always")
            try:
                if name == "update":
                    ret = m.update_coordinates()
                elif name == "scale":
                    ret = m.scale_coordinates(*args)
                elif name == "shift":
                    ret = m.shift_positions(*args)
                elif name == "shift_copy":
                    ret = m.shift_positions(args[0], inplace=False)
                    assert type(ret) is cls and ret is not m and ret.df is not m.df
                    trace.append(("source_untouched", frame_bits(m.df), m.df is before))
                    m = ret
                    ret = None
                elif name == "shift_kw":
                    ret = m.shift_positions(shift=args[0], inplace=args[1])
                    if ret is not None:
                        m, ret = ret, "new"
                elif name == "rot":
                    ret = m.apply_rotation(*args)
                elif name == "flip":
                    ret = m.flip_handedness(*args)
                elif name == "flip_kw":
                    ret = m.flip_handedness(tomo_dimensions=args[0])
                else:
                    raise AssertionError(name)
                out = ("ok", repr(ret))
            except Exception as e:  # outcomes outside the quantifier are compared as well
                out = ("raise", type(e).__name__, str(e))
            own = sorted(str(x.message) for x in w if "extraction" in str(x.message))
        coords = [arr_bits(m.get_coordinates())] + [arr_bits(m.get_coordinates(t)) for t in (0, 1, 7, 42, 0.0)]
        angles = [arr_bits(m.get_angles())] + [arr_bits(m.get_angles(t)) for t in (0, 1, 7, 42)]
        trace.append((name, out, own, frame_bits(m.df), m.df is before, coords, angles))
    return trace, m


def same_as_original(df, ops, classes=(Motl,)):
    t0, m0 = run(OrigMotl, df, ops)
    for cls in classes:
        t1, m1 = run(cls, df, ops)
        assert len(t0) == len(t1)
        for k, (a, b) in enumerate(zip(t0, t1)):
            assert a == b, "step %d (%s): worktree differs from the original function: %r vs %r" % (
                k,
                ops[min(k, len(ops) - 1)][0],
                [x for x, y in zip(a, b) if x != y][:1],
                [y for x, y in zip(a, b) if x != y][:1],
            )
    return t0


# --------------------------------------------------------------------------------------------------------------------
# Property check against the model
# --------------------------------------------------------------------------------------------------------------------
def close(a, b, scale=1.0):
    a, b = np.asarray(a, dtype=float), np.asarray(b, dtype=float)
    assert a.shape == b.shape, (a.shape, b.shape)
    if a.size == 0:
        return True
    return bool(np.all(np.abs(a - b) <= 1e-7 * max(1.0, scale) + 1e-9 * np.abs(b)))


def observed(m):
    """Pose as seen through the observation points named by the property."""
    P = m.get_coordinates()
    assert close(P, df_positions(m.df)), "get_coordinates is not x + shift"
    R = df_matrices(m.df)
    rots = m.get_rotations()
    if len(m.df):
        assert close(rots.as_matrix(), R), "get_rotations disagrees with zxz(phi, theta, psi)"
    else:
        assert len(rots) == 0
    return P.reshape(-1, 3), R


def check_history(df, ops, table_of=None):
    """Run ops on a worktree Motl and compare each step with the model."""
    m = Motl(df.copy())
    P, R = observed(m)
    tomo = m.df["tomo_id"].to_numpy().copy()
    n = len(df)
    labels = list(df.index)
    for op in ops:
        name, args = op[0], [fresh(a) for a in op[1:]]
        scale = float(np.max(np.abs(P))) if n else 1.0
        if name == "update":
            before = df_positions(m.df)
            m.update_coordinates()
            xyz = m.df[["x", "y", "z"]].to_numpy()
            sh = m.df[["shift_x", "shift_y", "shift_z"]].to_numpy()
            assert np.all(xyz == np.round(xyz)), "update_coordinates: x, y, z not integers"
            assert np.all(np.abs(sh) <= 0.5), "update_coordinates: residual shift larger than 0.5"
            want = np.array([[half_up_exact(v) for v in row] for row in before], dtype=float).reshape(-1, 3)
            assert np.array_equal(xyz, want), "update_coordinates: not round-half-away-from-zero of x + shift"
        elif name == "scale":
            m.scale_coordinates(args[0])
            P = P * args[0]
            scale *= max(1.0, args[0])
        elif name in ("shift", "shift_copy", "shift_kw"):
            s = np.asarray(args[0], dtype=float).reshape(3)
            if name == "shift":
                assert m.shift_positions(args[0]) is None
            elif name == "shift_copy" or (name == "shift_kw" and not args[1]):
                keep = frame_bits(m.df)
                new = m.shift_positions(args[0], inplace=False)
                assert frame_bits(m.df) == keep, "shift_positions(inplace=False) changed the source list"
                m = new
            else:
                m.shift_positions(shift=args[0], inplace=True)
            P = P + np.einsum("nij,j->ni", R, s)
            labels = list(range(n))
        elif name == "rot":
            Q = args[0]
            m.apply_rotation(Q)
            R = np.einsum("nij,jk->nik", R, Q.as_matrix())
        elif name in ("flip", "flip_kw"):
            m.flip_handedness(args[0])
            R = np.einsum("ij,njk,kl->nil", S, R, S)
            if args[0] is not None:
                dz = table_of(op)
                zmax = np.array([dz[t] for t in tomo], dtype=float)
                P = P.copy()
                P[:, 2] = zmax + 1.0 - P[:, 2]
                scale = max(scale, float(np.max(zmax)) if n else 1.0)
        Pn, Rn = observed(m)
        assert close(Pn, P, scale), "complete position after %s: %r != %r" % (name, Pn[:3], P[:3])
        assert close(Rn, R), "orientation after %s" % name
        assert np.array_equal(m.df["tomo_id"].to_numpy(), tomo)
        assert list(m.df.index) == labels, "row labels after %s" % name
        assert list(m.df.columns) == Motl.motl_columns
    return m


def random_rotation():
    u = rng.random()
    if u < 0.15:
        M = euler_matrix(*rng.choice(SPECIAL, 3))
    elif u < 0.25:
        M = np.eye(3)
    else:
        M = euler_matrix(rng.uniform(-360, 360), rng.uniform(-180, 180), rng.uniform(-360, 360))
    return srot.from_matrix(M)


def random_shift():
    u = rng.random()
    if u < 0.1:
        return [0, 0, 0]  # integers, zero
    if u < 0.2:
        return np.array([0.0, -0.0, 0.0])
    if u < 0.3:
        return tuple(float(v) for v in rng.choice([0.5, -0.5, 1, -1, 0], 3))
    if u < 0.4:
        return [int(v) for v in rng.integers(-5, 6, 3)]
    return rng.uniform(-20, 20, 3)


def random_scale():
    return rng.choice([1, 1.0, 2, 0.5, 4.0, 0.25, 1.0 / 3.0, 7.53, float(rng.uniform(0.05, 12))]).item()


DIMS_REGISTRY = {}


def random_flip(tomos, tmpdir, allow_none=False):
    """Returns the op and registers, for the model, z-dimension by tomogram."""
    u = rng.random()
    if allow_none and u < 0.1:
        return ("flip", None)
    if u < 0.45:
        single = np.array([[float(rng.integers(100, 1000)), float(rng.integers(100, 1000)), float(rng.integers(50, 500))]])
        how = rng.choice(["ndarray", "frame", "named_frame", "list", "vector", "file"])
        arg = as_dims_input(single, how, tmpdir)
        op = (rng.choice(["flip", "flip_kw"]).item(), arg)
        DIMS_REGISTRY[id(op)] = {float(t): single[0, 2] for t in tomos}
        return op
    table = dims_for(tomos)
    how = rng.choice(["ndarray", "frame", "named_frame", "file"])
    arg = as_dims_input(table, how, tmpdir)
    op = (rng.choice(["flip", "flip_kw"]).item(), arg)
    DIMS_REGISTRY[id(op)] = {float(r[0]): r[3] for r in table}
    return op


def table_of(op):
    return DIMS_REGISTRY[id(op)]


def random_ops(k, tomos, tmpdir):
    ops = []
    for _ in range(k):
        u = rng.random()
        if u < 0.2:
            ops.append(("update",))
        elif u < 0.35:
            ops.append(("scale", random_scale()))
        elif u < 0.55:
            kind = rng.choice(["shift", "shift_copy", "shift_kw"]).item()
            ops.append((kind, random_shift(), bool(rng.integers(2))) if kind == "shift_kw" else (kind, random_shift()))
        elif u < 0.75:
            ops.append(("rot", random_rotation()))
        else:
            ops.append(random_flip(tomos, tmpdir))
    return ops


def main():
    checks = 0
    tmp = tempfile.TemporaryDirectory()
    tmpdir = tmp.name
    index_kinds = ["range", "offset", "shuffled", "step", "filtered"]
    tomo_sets = [(0, 1, 2, 7), (5,), (0,), (1, 2), (3, 0, 250)]

    # 1. histories of up to 6 operations: model and original text ------------------------------------------------------
    sizes = [0, 1, 1, 2, 3, 5, 8, 13]
    for trial in range(120):
        n = int(rng.choice(sizes))
        tomos = tomo_sets[trial % len(tomo_sets)]
        df = random_df(n, index_kind=index_kinds[trial % len(index_kinds)], tomos=tomos, big=(trial % 11 == 0))
        ops = random_ops(int(rng.integers(1, 7)), tomos, tmpdir)
        check_history(df, ops, table_of)
        same_as_original(df, ops, classes=(Motl, SubMotl))
        checks += 1

    # 2. single operations on lists made of boundary values ------------------------------------------------------------
    for trial in range(40):
        n = int(rng.choice([0, 1, 2, 6]))
        df = random_df(n, index_kind=index_kinds[trial % 5])
        tomos = (0, 1, 2, 7)
        # update: never moves a particle, idempotent on the integer part
        m = check_history(df, [("update",), ("update",)])
        if n:
            m2 = Motl(df.copy())
            m2.update_coordinates()
            assert np.array_equal(m2.df[["x", "y", "z"]].to_numpy(), m.df[["x", "y", "z"]].to_numpy())
        # scale by f then 1/f (power of two) restores
        for f in (2.0, 0.5, 4):
            m = check_history(df, [("scale", f), ("scale", 1.0 / f)])
            assert close(df_positions(m.df), df_positions(df), 1e3)
        # composition of shifts and of rotations
        s1, s2 = np.asarray(random_shift(), dtype=float), np.asarray(random_shift(), dtype=float)
        a = check_history(df, [("shift", s1), ("shift", s2)])
        b = check_history(df, [("shift", s1 + s2)])
        assert close(a.get_coordinates(), b.get_coordinates(), 1e3)
        q1, q2 = random_rotation(), random_rotation()
        a = check_history(df, [("rot", q1), ("rot", q2)])
        b = check_history(df, [("rot", q1 * q2)])
        assert close(df_matrices(a.df), df_matrices(b.df))
        assert close(a.get_coordinates(), df_positions(df), 1e3)
        # flip twice restores the list (positions, shifts, angles), per-tomogram and single table
        for op in (random_flip(tomos, tmpdir), random_flip(tomos, tmpdir)):
            m = check_history(df, [op, op], table_of)
            got, want = m.df, df
            assert list(got.index) == list(want.index)
            for c in Motl.motl_columns:
                g, w = got[c].to_numpy(), want[c].to_numpy()
                assert np.allclose(g, w, rtol=0, atol=1e-9, equal_nan=True), "flip twice: column %s" % c
            same_as_original(df, [op, op])
        same_as_original(df, [("update",), ("update",), ("shift", s1), ("shift_copy", s2), ("rot", q1), ("scale", 3)])
        checks += 1

    # 3. the boundary inputs of the idioms -----------------------------------------------------------------------------
    # 3a. empty lists of every flavour, every operation, repeated on the same object
    empties = [Motl.create_empty_motl_df()]
    for kind in index_kinds:
        d = random_df(6, index_kind=kind)
        empties.append(d[d["x"] > 1e9])  # left over after a selection: non-range empty index
    e = random_df(4).astype({"tomo_id": int, "class": int, "subtomo_id": int})
    empties.append(e.iloc[0:0])  # mixed dtypes
    for e in empties:
        for ops in (
            [("update",), ("update",)],
            [("shift", [1, 2, 3]), ("shift_copy", [1.0, 0.0, 0.0]), ("shift_kw", (0, 0, 1), False)],
            [("shift_copy", np.zeros(3)), ("update",), ("scale", 2)],
            [("rot", random_rotation()), ("flip", None), ("flip", [100.0, 100.0, 50.0])],
            [("flip", dims_for((0, 1))), ("update",), ("shift", [0, 0, 0]), ("update",)],
            [("shift", [1, 2]), ("update",)],  # outside the quantifier: outcome compared all the same
        ):
            same_as_original(e, ops, classes=(Motl, SubMotl))
        m = Motl(e.copy())
        held = m.df
        with warnings.catch_warnings(record=True) as w:
            warnings.simplefilter("always")
            m.update_coordinates()
        assert sum("extraction" in str(x.message) for x in w) == 1, "update_coordinates warns once, also when empty"
        assert m.df is not held and m.df.shape == (0, 20) and list(m.df.columns) == list(e.columns)
        assert [str(t) for t in m.df.dtypes] == [str(t) for t in e.dtypes]
        held = m.df
        assert m.shift_positions([1, 2, 3]) is None
        assert m.df is not held and isinstance(m.df.index, pd.RangeIndex) and m.df.shape == (0, 20)
        new = m.shift_positions([1, 2, 3], inplace=False)
        assert new is not m and new.df is not m.df and isinstance(new.df.index, pd.RangeIndex)
        assert m.get_coordinates().shape == (0, 3) and m.get_rotations() == []
        checks += 1

    # 3b. dimension tables: tomograms without particles, particles without a row in the table, tomogram 0,
    #     repeated rows (first one counts), single row with tomo_id, integer tomo ids, NaN id in the table
    for trial in range(8):
        n = int(rng.choice([0, 1, 4, 9]))
        df = random_df(n, index_kind=index_kinds[trial % 5], tomos=(0, 1, 2, 7))
        tables = [
            np.array([[0, 500, 500, 200.0], [1, 500, 500, 100.0], [2, 400, 400, 81.0], [7, 100, 100, 64.0]]),
            np.array([[7, 100, 100, 64.0], [99, 1, 1, 1.0], [0, 500, 500, 200.0], [2, 400, 400, 81.0], [1, 5, 5, 100.0]]),
            np.array([[0, 500, 500, 200.0]]),  # 1x4: only tomogram 0 is mirrored in z
            np.array([[42, 500, 500, 200.0]]),  # nobody lives there
            np.array([[1, 500, 500, 200.0], [1, 500, 500, 300.0], [0, 1, 1, 10.0], [0, 1, 1, 20.0]]),  # repeated
            np.array([[1, 500, 500, 200.0], [np.nan, 500, 500, 300.0]]),
            np.array([[np.nan, 500, 500, 300.0], [1, 500, 500, 200.0]]),
            np.zeros((0, 4)),
        ]
        for tb in tables:
            for how in ("ndarray", "frame", "named_frame", "file"):
                if how == "file" and (len(tb) == 0 or np.isnan(tb).any()):
                    continue
                same_as_original(df, [("flip", as_dims_input(tb, how, tmpdir)), ("update",)], classes=(Motl, SubMotl))
        itab = pd.DataFrame({"tomo_id": [0, 1, 2, 7, 8], "x": [9, 9, 9, 9, 9], "y": [9, 9, 9, 9, 9], "z": [50, 60, 70, 80, 90]})
        same_as_original(df, [("flip", itab), ("flip_kw", itab)])
        idf = df.astype({"tomo_id": int})
        same_as_original(idf, [("flip", itab), ("flip", tables[1]), ("shift", [1, 1, 1])])
        # first two tables cover every tomogram: property proper
        for tb in tables[:2]:
            op = ("flip", tb)
            DIMS_REGISTRY[id(op)] = {float(r[0]): r[3] for r in tb}
            check_history(df, [op, ("update",), op], table_of)
        checks += 1

    # 3c. column tables: distinct values in every pose column so that a swapped pair of names cannot cancel,
    #     get_coordinates / get_angles by tomogram (0, absent), repeated calls, tables not modified by use
    df = random_df(7, tomos=(0, 3))
    df[["x", "y", "z"]] = np.arange(21, dtype=float).reshape(7, 3) * 10 + 1
    df[["shift_x", "shift_y", "shift_z"]] = np.array([[0.1, 0.2, 0.3]] * 7) + np.arange(7)[:, None] * 0.01
    df[["phi", "theta", "psi"]] = np.array([[10.0, 20.0, 30.0]] * 7) + np.arange(7)[:, None]
    m = Motl(df.copy())
    for _ in range(3):
        assert np.array_equal(m.get_coordinates(), df_positions(df))
        assert np.array_equal(m.get_angles(), df[["phi", "theta", "psi"]].to_numpy())
        for t in (0, 3, 0.0, 3.0, 5, -1):
            sel = df["tomo_id"].to_numpy() == t
            assert np.array_equal(m.get_coordinates(t), df_positions(df)[sel])
            assert np.array_equal(np.atleast_2d(m.get_angles(t)), np.atleast_2d(df[["phi", "theta", "psi"]].to_numpy()[sel]))
    snapshot = {k: copy.deepcopy(v) for k, v in vars(Motl).items() if isinstance(v, (list, tuple, dict, str)) and not k.startswith("__")}
    ops = [("scale", 2), ("rot", random_rotation()), ("shift", [1, 2, 3]), ("update",), ("flip", [10.0, 10.0, 10.0]), ("scale", 0.5)]
    check_history(df, ops[:4] + ops[5:])
    same_as_original(df, ops, classes=(Motl, SubMotl))
    for k, v in snapshot.items():
        assert getattr(Motl, k) == v, "class-level table %s was modified by use" % k
    assert Motl.motl_columns[16:19] == ["phi", "psi", "theta"]  # storage order differs from the Euler order
    checks += 1

    # 3d. outside the quantifier, outcomes still identical: wrong rotation type, wrong shift length, shape of shifts
    df = random_df(3)
    for ops in (
        [("rot", np.eye(3))],
        [("rot", None)],
        [("shift", [1, 2])],
        [("shift", [[1, 2, 3]])],
        [("shift", "abc")],
        [("scale", np.nan)],
        [("flip", "/nonexistent/dims.txt")],
        [("flip", np.zeros((2, 5)))],
        [("flip", [1.0, 2.0])],
    ):
        same_as_original(df, ops)
        same_as_original(df.iloc[0:0], ops)
    ddf = random_df(4)
    ddf.index = [3, 3, 5, 5]  # repeated row labels
    same_as_original(ddf, [("update",), ("rot", random_rotation()), ("flip", [10.0, 10.0, 10.0]), ("shift", [1, 0, 0])])
    same_as_original(ddf, [("flip", dims_for((0, 1, 2, 7), rng_extra=False))])
    for _ in range(6):  # repeated labels and tomograms without particles / particles without a table row
        ddf = random_df(5, tomos=(0, 1, 2))
        ddf.index = rng.choice([[3, 3, 5, 5, 5], [0, 1, 1, 2, 0], [4, 4, 4, 4, 4]])
        same_as_original(ddf, [("flip", np.array([[0, 9, 9, 50.0], [42, 9, 9, 60.0], [1, 9, 9, 70.0], [43, 9, 9, 80.0]]))])
        same_as_original(ddf, [("flip", dims_for((0, 1, 2)))])
    # integer / float32 / object pose columns, whole and fractional dimensions, with and without unpopulated tomograms
    for _ in range(6):
        base = random_df(6, tomos=(0, 1, 2), holes=False)
        base[["x", "y", "z", "shift_x", "shift_y", "shift_z"]] = rng.integers(-50, 50, (6, 6)).astype(float)
        for typ in (int, "float32", object):
            tdf = base.astype({"z": typ, "shift_z": typ})
            tdf2 = base.astype({c: typ for c in ["x", "y", "z", "shift_x", "shift_y", "shift_z", "tomo_id"]})
            for zs in ([50.0, 60.0, 70.0, 80.0], [50.5, 60.25, 70.5, 80.5]):
                tb = np.array([[0, 9, 9, zs[0]], [42, 9, 9, zs[1]], [1, 9, 9, zs[2]], [2, 9, 9, zs[3]]])
                same_as_original(tdf, [("flip", tb), ("flip", tb[[1]]), ("flip", tb[[1, 0]])])
                same_as_original(tdf2, [("flip", tb[::-1]), ("flip", tb[[1]]), ("scale", 2)])
                same_as_original(tdf.iloc[0:0], [("flip", tb)])
    checks += 1

    tmp.cleanup()
    print("PASS (%d groups of checks, seed %d)" % (checks, SEED))


if __name__ == "__main__":
    main()
