"""C18 / b -- get_feature_nn_indices (callee) returns the distances already multiplied by a new optional pixel_size
(default 1.0); its caller get_nn_distances passes the pixel size and no longer scales; get_nn_rotations (positional
caller, uses the indices only) keeps the default.

Run as:  cd /tmp/wt7/C18 && /venv/bin/python /tmp/seedsT/C18/b/demo.py

Checks (on the clean tree and with the patch):
 1. the table of get_nn_stats equals a brute-force computation (all-pairs distances, hand-written zxz matrices):
    k closest of the second list within the tomogram, ascending, distance * pixel size, neighbour's subtomogram number,
    offset in the query particle's frame, angular distance, relative orientation;
 2. moving every tomogram rigidly (its own Q, t; positions re-split into x / shift) leaves distances, particle-frame
    offsets, angular distances, relative orientations and the chosen neighbours unchanged;
 3. get_nn_stats / get_nn_distances (all four rotation_type values) / get_nn_rotations / get_feature_nn_indices give the
    same values, shapes and dtypes as the ORIGINAL functions (text kept below) on the same inputs -- bit for bit.
"""
import os
import sys

sys.path.insert(0, os.getcwd())
import warnings

warnings.filterwarnings("ignore")
import numpy as np
import pandas as pd
from scipy.spatial.transform import Rotation as srot
from cryocat import cryomotl, nnana, geom  # noqa: E402

# text of cryocat/nnana.py lines 74-372 at HEAD (get_feature_nn_indices, get_nn_stats, get_nn_distances,
# get_nn_rotations), kept to compare the patched functions with
ORIG_SRC = r'''def get_feature_nn_indices(fm_a, fm_nn, nn_number=1):
    """Get the indices and distances of nearest neighbors for given feature coordinates.

    Parameters
    ----------
    fm_a : cryomotl.Motl
        A motl for which nearest neighbors are to be found.
    fm_nn : cryomotl.Motl
        A motl in which the nearest neighbors will be searched for.
    nn_number : int, default=1
        The number of nearest neighbors to retrieve for each feature. Default is 1.

    Returns
    -------
    ordered_idx : ndarray
        An array of indices corresponding to the ordered features in `fm_a`.
    nn_idx : ndarray
        A 2D array of shape (n_features, nn_count) containing the indices of the nearest neighbors for each feature
        in `fm_a`.
    nn_dist : ndarray
        A 2D array of shape (n_features, nn_count) containing the distances to the nearest neighbors for each feature
        in `fm_a`.
    nn_count : int
        The actual number of nearest neighbors retrieved, which is the minimum of `nn_number` and the number of
        available neighbors.

    Notes
    -----
    This function uses a KDTree for efficient nearest neighbor search.
    """

    coord_a = fm_a.get_coordinates()
    coord_nn = fm_nn.get_coordinates()

    nn_count = min(nn_number, coord_nn.shape[0])
    kdt_nn = sn.KDTree(coord_nn)
    nn_dist, nn_idx = kdt_nn.query(coord_a, k=nn_count)
    ordered_idx = np.arange(0, nn_idx.shape[0], 1)

    return (
        ordered_idx,
        nn_idx.reshape((nn_idx.shape[0], nn_count)),
        nn_dist.reshape((nn_idx.shape[0], nn_count)),
        nn_count,
    )


def get_nn_stats(motl_a, motl_nn, pixel_size=1.0, feature_id="tomo_id", nn_number=1, rotation_type="angular_distance"):
    """For each particle in motl_a, this function computes nn_number nearest neighbors in motl_nn and returns the
    associated data: distance of neighbor to query point, coordinates of nearest neighbors, coordinates of nearest neighbors
    after being rotated with respect to the coordinate frame of the query point, angular distance between query point and
    nearest neighbor, representations of associated rotation via rotated unit vector + Euler angles, subtomogram-id of query point
    of its associated nearest neighbors.

    Parameters
    ----------
    motl_a : cryocat.cryomotl.Motl or str
        Input particle list of query points.
    motl_nn : cryocat.cryomotl.Motl or str
        Input particle list of with nearest neighbors of interest.
    pixel_size : float, default=1.0
        Pixel size. Defaults to 1.0.
    feature_id : str, default='tomo_id'
        Particle list feature to distinguish between subsets of input motls. Defaults to "tomo_id".
    nn_number : int, default=1
        Number of requested nearest neighbors in motl_nn for each particle in motl_a. Defaults to 1.
    rotation_type : str, default='angular_distance'
        For comparison of rotations. Choice between "all", "angular_distance",
        "cone_distance", and "in_plane_distance". Defaults to "angular_distance".

    Returns
    -------
    pandas dataframe
        Contains statistics of nearest neighbors analysis between input particle lists.
    """
    (
        centered_coord,
        rotated_coord,
        nn_dist,
        ang_dst,
        subtomo_idx,
        subtomo_idx_nn,
    ) = get_nn_distances(
        motl_a, motl_nn, nn_number=nn_number, pixel_size=pixel_size, feature=feature_id, rotation_type=rotation_type
    )

    coord_rot, angles = get_nn_rotations(motl_a, motl_nn, feature=feature_id, nn_number=nn_number)

    nn_stats = pd.DataFrame(
        np.hstack(
            (
                nn_dist.reshape((nn_dist.shape[0], 1)),
                centered_coord,
                rotated_coord,
                ang_dst.reshape((nn_dist.shape[0], 1)),
                coord_rot,
                angles,
                subtomo_idx.reshape((nn_dist.shape[0], 1)),
                subtomo_idx_nn.reshape((nn_dist.shape[0], 1)),
            )
        ),
        columns=[
            "distance",
            "coord_x",
            "coord_y",
            "coord_z",
            "coord_rx",
            "coord_ry",
            "coord_rz",
            "angular_distance",
            "rot_x",
            "rot_y",
            "rot_z",
            "phi",
            "theta",
            "psi",
            "subtomo_idx",
            "subtomo_nn_idx",
        ],
    )

    nn_stats["type"] = "nn"

    return nn_stats


def get_nn_distances(motl_a, motl_nn, pixel_size=1.0, nn_number=1, feature="tomo_id", rotation_type="angular_distance"):
    """Get nearest neighbor distances and related information between two sets of particles.

    Parameters
    ----------
    motl_a : str or Motl
        Path to the first motl file or a Motl object containing the first set of particles.
    motl_nn : str or Motl
        Path to the second motl file or a Motl object containing the second set of particles.
    pixel_size : float, default=1.0
        The size of a pixel in the same units as the coordinates. Default is 1.0.
    nn_number : int, default=1
        The number of nearest neighbors to consider. Default is 1.
    feature : str, default='tomo_id'
        The feature to use for splitting the particles. Default is 'tomo_id'.
    rotation_type : str, default='angular_distance'
        The type of rotation distance to compute. Default is 'angular_distance'.

    Returns
    -------
    centered_coord : np.ndarray
        The coordinates of the nearest neighbors centered around the reference particles.
    rotated_coord : np.ndarray
        The coordinates of the nearest neighbors after applying the rotation.
    nn_dist : np.ndarray
        The distances to the nearest neighbors.
    angular_distances : np.ndarray
        The angular distances between the reference particles and their nearest neighbors.
    subtomo_idx : np.ndarray
        The subtomo IDs of the reference motifs.
    subtomo_idx_nn : np.ndarray
        The subtomo IDs of the nearest neighbors.

    Notes
    -----
    This function assumes that the input motifs have angle information and that the
    motl files are compatible with the Motl class. The function will only work with
    the intersection of features present in both motls.
    """

    if isinstance(motl_a, str):
        motl_a = cryomotl.Motl(motl_path=motl_a)

    if isinstance(motl_nn, str):
        motl_nn = cryomotl.Motl(motl_path=motl_nn)

    # Get unique feature idx
    features_a = np.unique(motl_a.df.loc[:, feature].values)
    features_nn = np.unique(motl_nn.df.loc[:, feature].values)

    # Work only with intersection
    features = np.intersect1d(features_a, features_nn, assume_unique=True)

    centered_coord = []
    nn_dist = []
    angular_distances = []
    rotated_coord = []
    subtomo_idx = []
    subtomo_idx_nn = []

    for f in features:
        fm_a = motl_a.get_motl_subset(f, feature_id=feature)
        fm_nn = motl_nn.get_motl_subset(f, feature_id=feature)

        idx, nn_idx, dist, nn_count = get_feature_nn_indices(fm_a, fm_nn, nn_number)

        if len(idx) == 0:
            continue

        coord_nn = fm_nn.get_coordinates() * pixel_size
        coord_a = fm_a.get_coordinates() * pixel_size

        # get angles
        angles_a = fm_a.get_angles()
        angles_a = angles_a[idx, :]
        angles_nn = fm_nn.get_angles()
        rotations = srot.from_euler("zxz", angles=angles_a, degrees=True)

        angles = -fm_a.df[["psi", "theta", "phi"]].values
        angles = angles[idx, :]
        rot = srot.from_euler("zxz", angles=angles, degrees=True)

        subtomos_nn = fm_nn.df["subtomo_id"].to_numpy()
        subtomos_a = fm_a.df["subtomo_id"].to_numpy()

        for i in range(nn_count):
            c_coord = coord_nn[nn_idx[:, i], :] - coord_a[idx, :]
            centered_coord.append(c_coord)
            nn_dist.append(dist[:, i] * pixel_size)

            angles_nn_sel = angles_nn[nn_idx[:, i], :]

            rotations_nn = srot.from_euler("zxz", angles=angles_nn_sel, degrees=True)
            angular_distances.append(geom.compare_rotations(rotations, rotations_nn, rotation_type=rotation_type))

            rotated_coord.append(rot.apply(c_coord))

            subtomo_idx_nn.append(subtomos_nn[nn_idx[:, i]])
            subtomo_idx.append(subtomos_a[idx])

    return (
        np.vstack(centered_coord),
        np.vstack(rotated_coord),
        np.concatenate(nn_dist),
        np.concatenate(angular_distances),
        np.concatenate(subtomo_idx),
        np.concatenate(subtomo_idx_nn),
    )


def get_nn_rotations(motl_a, motl_nn, nn_number=1, feature="tomo_id", type_id="geom1"):
    """Get nearest neighbor rotations based on specified features from two motl objects.

    Parameters
    ----------
    motl_a : str or Motl
        The path to the first motl file or a Motl object containing the first set of data.
    motl_nn : str or Motl
        The path to the second motl file or a Motl object containing the nearest neighbor data.
    nn_number : int, default=1
        The number of nearest neighbors to consider for each feature. Dfault is 1.
    feature : str, default='tomo_id'
        The feature used to identify unique elements in the motl data. Default is 'tomo_id'.
    type_id : str, default='geom1'
        The type identifier for the geometry. Default is 'geom1'.

    Returns
    -------
    points_on_sphere : ndarray
        An array of points on the sphere representing the rotations.
    angles : ndarray
        An array of Euler angles corresponding to the computed rotations in degrees.

    Notes
    -----
    This function assumes that the input motl objects or paths contain the necessary data
    and that the `get_motl_subset` and `get_angles` methods are available for the Motl class.
    """

    if isinstance(motl_a, str):
        motl_a = cryomotl.Motl(motl_path=motl_a)

    if isinstance(motl_nn, str):
        motl_nn = cryomotl.Motl(motl_path=motl_nn)

    # Get unique feature idx
    features_a = np.unique(motl_a.df.loc[:, feature].values)
    features_nn = np.unique(motl_nn.df.loc[:, feature].values)

    # Work only with intersection
    features = np.intersect1d(features_a, features_nn, assume_unique=True)

    nn_rotations = []

    for f in features:
        fm_a = motl_a.get_motl_subset(f, feature_id=feature)
        fm_nn = motl_nn.get_motl_subset(f, feature_id=feature)

        idx, idx_nn, _, nn_count = get_feature_nn_indices(fm_a, fm_nn, nn_number)

        angles_nn = fm_nn.get_angles()
        angles_ref_to_zero = -fm_a.get_feature(["psi", "theta", "phi"])
        rot_to_zero = srot.from_euler("zxz", angles=angles_ref_to_zero[idx, :], degrees=True)

        for i in range(nn_count):
            rot_nn = srot.from_euler("zxz", angles=angles_nn[idx_nn[:, i], :], degrees=True)
            nn_rotations.append(rot_to_zero * rot_nn)

    nn_rotations = srot.concatenate(nn_rotations)
    points_on_sphere = geom.visualize_rotations(nn_rotations, plot_rotations=False)
    angles = nn_rotations.as_euler("zxz", degrees=True)

    return points_on_sphere, angles
'''

# --------------------------------------------------------------------------------------------------------------------
# the original functions, executed in their own namespace (same imports as cryocat/nnana.py)
# --------------------------------------------------------------------------------------------------------------------
ORIG = {"__name__": "orig_nnana"}
exec(
    "import numpy as np\nimport pandas as pd\nfrom cryocat import cryomotl\nfrom cryocat import geom\n"
    "from scipy.spatial.transform import Rotation as srot\nimport sklearn.neighbors as sn\n",
    ORIG,
)
exec(compile(ORIG_SRC, "<original nnana.py 74-372>", "exec"), ORIG)

COLS = list(cryomotl.Motl.motl_columns)
FAIL = []


def check(cond, msg):
    if not cond:
        FAIL.append(msg)
        if len(FAIL) <= 25:
            print("FAIL:", msg)
    return cond


# --------------------------------------------------------------------------------------------------------------------
# independent model: R = Rz(psi) Rx(theta) Rz(phi)  (extrinsic zxz(phi, theta, psi)), positions = x + shift
# --------------------------------------------------------------------------------------------------------------------
def rz(a):
    c, s = np.cos(a), np.sin(a)
    z, o = np.zeros_like(a), np.ones_like(a)
    return np.stack([np.stack([c, -s, z], -1), np.stack([s, c, z], -1), np.stack([z, z, o], -1)], -2)


def rx(a):
    c, s = np.cos(a), np.sin(a)
    z, o = np.zeros_like(a), np.ones_like(a)
    return np.stack([np.stack([o, z, z], -1), np.stack([z, c, -s], -1), np.stack([z, s, c], -1)], -2)


def euler_to_matrix(phi, theta, psi):
    phi, theta, psi = (np.radians(np.asarray(v, dtype=float)) for v in (phi, theta, psi))
    return rz(psi) @ rx(theta) @ rz(phi)


def rotation_angle_deg(R):
    """robust rotation angle of (n,3,3) matrices (atan2 form; fine at 0 and at 180)"""
    v = np.stack([R[:, 2, 1] - R[:, 1, 2], R[:, 0, 2] - R[:, 2, 0], R[:, 1, 0] - R[:, 0, 1]], -1)
    return np.degrees(np.arctan2(np.linalg.norm(v, axis=1) / 2.0, (np.trace(R, axis1=1, axis2=2) - 1.0) / 2.0))


def positions(df):
    return df[["x", "y", "z"]].to_numpy(dtype=float) + df[["shift_x", "shift_y", "shift_z"]].to_numpy(dtype=float)


def orientations(df):
    return euler_to_matrix(df["phi"].to_numpy(), df["theta"].to_numpy(), df["psi"].to_numpy())


def brute_force(df_a, df_nn, k, pixel_size):
    """expected table, rows in the order tomogram (ascending) / neighbour rank / particle of the first list.
    Returns None when the k+1 closest candidates of some particle are (nearly) tied -- excluded by the quantifier."""
    tomos = sorted(set(df_a["tomo_id"].tolist()) & set(df_nn["tomo_id"].tolist()))
    rows = {key: [] for key in ("distance", "offset", "frame", "angle", "rel", "sub_a", "sub_nn")}
    for t in tomos:
        a = df_a[df_a["tomo_id"] == t]
        b = df_nn[df_nn["tomo_id"] == t]
        pa, pb = positions(a), positions(b)
        Ra, Rb = orientations(a), orientations(b)
        d = np.sqrt(((pa[:, None, :] - pb[None, :, :]) ** 2).sum(-1))  # (na, nb)
        order = np.argsort(d, axis=1, kind="stable")
        ds = np.take_along_axis(d, order, axis=1)
        kk = min(k, len(b))
        gaps = np.diff(ds[:, : kk + 1], axis=1)
        if gaps.size and gaps.min() < 1e-6 * max(1.0, ds[:, : kk + 1].max()):
            return None
        for i in range(kk):
            j = order[:, i]
            off = (pb[j] - pa) * pixel_size
            rows["distance"].append(ds[:, i] * pixel_size)
            rows["offset"].append(off)
            rows["frame"].append(np.einsum("nji,nj->ni", Ra, off))  # Ra^T off
            rel = np.einsum("nji,njk->nik", Ra, Rb[j])  # Ra^T Rb
            rows["rel"].append(rel)
            rows["angle"].append(rotation_angle_deg(rel))
            rows["sub_a"].append(a["subtomo_id"].to_numpy(dtype=float))
            rows["sub_nn"].append(b["subtomo_id"].to_numpy(dtype=float)[j])
    if not rows["distance"]:
        return {}
    return {key: np.concatenate(val) for key, val in rows.items()}


def check_against_model(tag, table, exp, scale):
    """table returned by get_nn_stats against the brute-force expectation"""
    n = len(exp["distance"])
    ok = check(list(table.columns) == STATS_COLUMNS, f"{tag}: columns {list(table.columns)}")
    ok &= check(table.shape == (n, 17), f"{tag}: shape {table.shape} expected ({n}, 17)")
    if not ok:
        return
    tol = 1e-9 * max(1.0, scale)
    check(np.allclose(table["distance"], exp["distance"], rtol=0, atol=tol), f"{tag}: distance")
    check(np.allclose(table[["coord_x", "coord_y", "coord_z"]], exp["offset"], rtol=0, atol=tol), f"{tag}: offset")
    check(np.allclose(table[["coord_rx", "coord_ry", "coord_rz"]], exp["frame"], rtol=0, atol=tol), f"{tag}: particle-frame offset")
    check(np.allclose(table["angular_distance"], exp["angle"], rtol=0, atol=1e-4), f"{tag}: angular distance")
    rel = euler_to_matrix(table["phi"].to_numpy(), table["theta"].to_numpy(), table["psi"].to_numpy())
    check(np.allclose(rel, exp["rel"], rtol=0, atol=1e-9), f"{tag}: relative orientation")
    check(np.allclose(table[["rot_x", "rot_y", "rot_z"]], exp["rel"][:, :, 2], rtol=0, atol=1e-9), f"{tag}: z-normal")
    check(np.array_equal(table["subtomo_idx"], exp["sub_a"]), f"{tag}: subtomo_idx")
    check(np.array_equal(table["subtomo_nn_idx"], exp["sub_nn"]), f"{tag}: subtomo_nn_idx")
    check((table["type"] == "nn").all(), f"{tag}: type column")
    # ascending distances per query particle (rank-major blocks)
    check(np.all(np.asarray(table["distance"]) >= 0), f"{tag}: negative distance")


STATS_COLUMNS = [
    "distance", "coord_x", "coord_y", "coord_z", "coord_rx", "coord_ry", "coord_rz", "angular_distance",
    "rot_x", "rot_y", "rot_z", "phi", "theta", "psi", "subtomo_idx", "subtomo_nn_idx", "type",
]


# --------------------------------------------------------------------------------------------------------------------
# inputs
# --------------------------------------------------------------------------------------------------------------------
SPECIAL = np.array([0.0, 90.0, -90.0, 180.0, -180.0, 270.0, 360.0, 45.0])


def make_df(rng, n, tomo_ids, index="default", ints=False, zero_shift=False, special=False, first_subtomo=1):
    pos = rng.uniform(-300.0, 500.0, (n, 3))
    if ints:
        xyz = np.round(rng.uniform(-3000, 5000, (n, 3)))
    else:
        xyz = pos
    shift = np.zeros((n, 3)) if zero_shift else rng.uniform(-4.0, 4.0, (n, 3))
    if special:
        ang = np.stack([rng.choice(SPECIAL, n), rng.choice(np.array([0.0, 180.0, 90.0, 0.0]), n), rng.choice(SPECIAL, n)], 1)
    else:
        ang = np.stack([rng.uniform(-180, 180, n), rng.uniform(0, 180, n), rng.uniform(-180, 180, n)], 1)
        pole = rng.random(n) < 0.15
        ang[pole, 1] = rng.choice(np.array([0.0, 180.0]), pole.sum())
    data = {c: np.zeros(n) for c in COLS}
    data["score"] = rng.uniform(-1, 1, n)
    data["x"], data["y"], data["z"] = xyz[:, 0], xyz[:, 1], xyz[:, 2]
    data["shift_x"], data["shift_y"], data["shift_z"] = shift[:, 0], shift[:, 1], shift[:, 2]
    data["phi"], data["theta"], data["psi"] = ang[:, 0], ang[:, 1], ang[:, 2]
    data["tomo_id"] = rng.choice(np.asarray(tomo_ids, dtype=float), n)
    if n >= len(tomo_ids):  # every tomogram present at least once
        data["tomo_id"][rng.permutation(n)[: len(tomo_ids)]] = np.asarray(tomo_ids, dtype=float)
    data["subtomo_id"] = (first_subtomo + rng.permutation(n) * 3).astype(float)
    data["object_id"] = rng.integers(1, 4, n).astype(float)
    data["class"] = rng.integers(1, 3, n).astype(float)
    data["geom3"] = np.where(rng.random(n) < 0.3, np.nan, 1.0)  # NaN holes in a column nobody reads
    df = pd.DataFrame(data, columns=COLS)
    if ints:
        for c in ("x", "y", "z", "tomo_id", "subtomo_id", "object_id", "class"):
            df[c] = df[c].astype(np.int64)
    if index == "shuffled":
        df.index = rng.permutation(n) + 10
    elif index == "offset":
        df.index = np.arange(n) + 1000
    elif index == "reversed":
        df.index = np.arange(n)[::-1]
    return df


def move_df(df, Q, t):
    """rigid motion, row by row: positions Q p + t, orientations Q R (Q: (n,3,3), t: (n,3)); positions are split
    anew into a whole-number x / y / z and a non-zero shift"""
    out = df.copy()
    p = np.einsum("nij,nj->ni", Q, positions(df)) + t
    whole = np.floor(p)
    for i, c in enumerate(("x", "y", "z")):
        out[c] = whole[:, i].astype(df[c].dtype)
    for i, c in enumerate(("shift_x", "shift_y", "shift_z")):
        out[c] = p[:, i] - whole[:, i]
    R = Q @ orientations(df)
    with warnings.catch_warnings():
        warnings.simplefilter("ignore")
        ang = srot.from_matrix(R).as_euler("zxz", degrees=True)
    out["phi"], out["theta"], out["psi"] = ang[:, 0], ang[:, 1], ang[:, 2]
    return out


def random_Q(rng, kind):
    if kind == "random":
        return srot.random(random_state=int(rng.integers(1 << 30))).as_matrix()
    if kind == "z180":
        return np.diag([-1.0, -1.0, 1.0])
    if kind == "x180":
        return np.diag([1.0, -1.0, -1.0])
    if kind == "identity":
        return np.eye(3)
    if kind == "z90":
        return np.array([[0.0, -1.0, 0.0], [1.0, 0.0, 0.0], [0.0, 0.0, 1.0]])
    raise ValueError(kind)


def same_table(tag, new, old, exact_cols, close_cols=(), atol=0.0):
    ok = check(list(new.columns) == list(old.columns), f"{tag}: columns differ from the original function")
    ok &= check(new.shape == old.shape, f"{tag}: shape {new.shape} vs original {old.shape}")
    ok &= check(list(new.dtypes) == list(old.dtypes), f"{tag}: dtypes differ from the original function")
    ok &= check(new.index.equals(old.index), f"{tag}: index differs from the original function")
    if not ok:
        return
    for c in exact_cols:
        check(np.array_equal(new[c].to_numpy(), old[c].to_numpy()), f"{tag}: column {c} differs from the original function")
    for c in close_cols:
        check(np.allclose(new[c].to_numpy(), old[c].to_numpy(), rtol=0, atol=atol), f"{tag}: column {c} not within {atol} of the original")


def same_arrays(tag, new, old, atol=0.0):
    """tuples / arrays returned by the lower-level functions"""
    if isinstance(old, tuple):
        if not check(isinstance(new, tuple) and len(new) == len(old), f"{tag}: tuple layout differs"):
            return
        for i, (a, b) in enumerate(zip(new, old)):
            same_arrays(f"{tag}[{i}]", a, b, atol)
        return
    a, b = np.asarray(new), np.asarray(old)
    if not check(a.shape == b.shape and a.dtype == b.dtype, f"{tag}: shape/dtype {a.shape}/{a.dtype} vs {b.shape}/{b.dtype}"):
        return
    if atol == 0.0:
        check(np.array_equal(a, b), f"{tag}: values differ from the original function")
    else:
        check(np.allclose(a, b, rtol=0, atol=atol), f"{tag}: values not within {atol} of the original function")


def call(fn, *args, **kwargs):
    """result or the exception type (the fully disjoint case raises in the original; it must keep doing so)"""
    try:
        with warnings.catch_warnings():
            warnings.simplefilter("ignore")
            return fn(*args, **kwargs)
    except Exception as e:  # noqa
        return type(e)


NUM_COLS = STATS_COLUMNS[:-1]


def one_case(rng, tag, df_a, df_nn, k, pixel_size, coincident=False):
    """the property on one pair of lists + comparison with the original functions + rigid motion"""
    exp = brute_force(df_a, df_nn, k, pixel_size)
    if exp is None:
        return False  # tie: outside the quantifier
    m_a = cryomotl.Motl(df_a.copy())
    m_nn = m_a if coincident else cryomotl.Motl(df_nn.copy())
    keep_a, keep_nn = m_a.df.copy(), m_nn.df.copy()

    new = call(nnana.get_nn_stats, m_a, m_nn, pixel_size=pixel_size, nn_number=k)
    old = call(ORIG["get_nn_stats"], m_a, m_nn, pixel_size=pixel_size, nn_number=k)
    if exp == {}:
        check(isinstance(new, type) and new is old, f"{tag}: disjoint tomograms: {new} vs original {old}")
        return True
    if not check(isinstance(new, pd.DataFrame), f"{tag}: get_nn_stats raised {new}"):
        return True
    scale = float(np.abs(exp["offset"]).max()) if len(exp["offset"]) else 1.0
    check_against_model(tag, new, exp, scale)
    same_table(tag, new, old, EXACT_COLS, CLOSE_COLS, CLOSE_ATOL * max(1.0, scale))
    check((new["type"] == old["type"]).all(), f"{tag}: type column differs")
    # inputs untouched, repeated call gives the same table
    check(m_a.df.equals(keep_a) and m_nn.df.equals(keep_nn), f"{tag}: input lists were modified")
    again = call(nnana.get_nn_stats, m_a, m_nn, pixel_size=pixel_size, nn_number=k)
    check(isinstance(again, pd.DataFrame) and again.equals(new), f"{tag}: second call differs")

    # lower-level functions against their originals, every rotation_type
    for rt in ("angular_distance", "cone_distance", "in_plane_distance", "all"):
        r_new = call(nnana.get_nn_distances, m_a, m_nn, pixel_size, k, "tomo_id", rt)
        r_old = call(ORIG["get_nn_distances"], m_a, m_nn, pixel_size, k, "tomo_id", rt)
        if isinstance(r_old, type) or isinstance(r_new, type):
            check(r_new is r_old, f"{tag}: get_nn_distances({rt}) {r_new} vs original {r_old}")
        else:
            for i, name in enumerate(("centered", "rotated", "dist", "ang", "sub", "sub_nn")):
                same_arrays(f"{tag}: get_nn_distances({rt}).{name}", r_new[i], r_old[i],
                            DIST_ATOL.get(name, 0.0) * max(1.0, scale))
    r_new = call(nnana.get_nn_rotations, m_a, m_nn, k)
    r_old = call(ORIG["get_nn_rotations"], m_a, m_nn, k)
    same_arrays(f"{tag}: get_nn_rotations", r_new, r_old, ROT_ATOL)
    for t in sorted(set(df_a["tomo_id"].tolist()) & set(df_nn["tomo_id"].tolist())):
        fa, fb = m_a.get_motl_subset(t), m_nn.get_motl_subset(t)
        same_arrays(f"{tag}: get_feature_nn_indices tomo {t}", nnana.get_feature_nn_indices(fa, fb, k),
                    ORIG["get_feature_nn_indices"](fa, fb, k))
        extra_feature_checks(tag, fa, fb, k, pixel_size)

    # rigid motion of every tomogram: same Q, t for both lists (per tomogram its own motion)
    Qs, ts = {}, {}
    for t in sorted(set(df_a["tomo_id"].tolist()) | set(df_nn["tomo_id"].tolist())):
        Qs[t] = random_Q(rng, rng.choice(["random", "random", "random", "z180", "x180", "z90", "identity"]))
        ts[t] = rng.uniform(-200, 200, 3)
    mv_a = move_df(df_a, np.stack([Qs[t] for t in df_a["tomo_id"]]), np.stack([ts[t] for t in df_a["tomo_id"]]))
    mv_nn = move_df(df_nn, np.stack([Qs[t] for t in df_nn["tomo_id"]]), np.stack([ts[t] for t in df_nn["tomo_id"]]))
    exp_mv = brute_force(mv_a, mv_nn, k, pixel_size)
    if exp_mv is None:
        return True
    mm_a = cryomotl.Motl(mv_a)
    mm_nn = mm_a if coincident else cryomotl.Motl(mv_nn)
    moved = call(nnana.get_nn_stats, mm_a, mm_nn, pixel_size=pixel_size, nn_number=k)
    if not check(isinstance(moved, pd.DataFrame) and moved.shape == new.shape, f"{tag}: moved lists: {moved if isinstance(moved, type) else moved.shape}"):
        return True
    scale_mv = max(scale, 1.0) * 4 + 1e3 * pixel_size  # positions are floored / re-split: allow their round-off
    tol = 1e-9 * scale_mv
    check(np.allclose(moved["distance"], new["distance"], rtol=0, atol=tol), f"{tag}: distance changed under rigid motion")
    check(np.allclose(moved[["coord_rx", "coord_ry", "coord_rz"]], new[["coord_rx", "coord_ry", "coord_rz"]], rtol=0, atol=tol),
          f"{tag}: particle-frame offset changed under rigid motion")
    check(np.allclose(moved["angular_distance"], new["angular_distance"], rtol=0, atol=1e-4), f"{tag}: angular distance changed under rigid motion")
    rel_m = euler_to_matrix(moved["phi"].to_numpy(), moved["theta"].to_numpy(), moved["psi"].to_numpy())
    rel_n = euler_to_matrix(new["phi"].to_numpy(), new["theta"].to_numpy(), new["psi"].to_numpy())
    check(np.allclose(rel_m, rel_n, rtol=0, atol=1e-8), f"{tag}: relative orientation changed under rigid motion")
    check(np.allclose(moved[["rot_x", "rot_y", "rot_z"]], new[["rot_x", "rot_y", "rot_z"]], rtol=0, atol=1e-8), f"{tag}: z-normal changed under rigid motion")
    check(np.array_equal(moved["subtomo_idx"], new["subtomo_idx"]) and np.array_equal(moved["subtomo_nn_idx"], new["subtomo_nn_idx"]),
          f"{tag}: neighbours changed under rigid motion")
    check_against_model(tag + " (moved)", moved, exp_mv, scale_mv)
    return True


def run_all(seed=20240918):
    rng = np.random.default_rng(seed)
    done = 0
    # --- random cases over the whole quantifier ----------------------------------------------------------------
    for case in range(70):
        n_a, n_nn = int(rng.integers(1, 201)), int(rng.integers(1, 201))
        if case % 7 == 0:
            n_a = int(rng.integers(1, 6))
        if case % 11 == 0:
            n_nn = int(rng.integers(1, 6))
        n_t = int(rng.integers(1, 5))
        all_t = rng.choice(np.arange(1, 40), n_t + 2, replace=False)
        t_a, t_nn = list(all_t[:n_t]), list(all_t[:n_t])
        if case % 5 == 1:  # partly disjoint tomogram sets
            t_a = list(all_t[:n_t]) + [all_t[n_t]]
            t_nn = list(all_t[max(0, n_t - 2):n_t]) + [all_t[n_t + 1]]
        k = int(rng.integers(1, 6))
        ps = float(rng.choice([1.0, 0.5, 2.0, 1.327, 13.48, 1e-3, 7.0]))
        ints = case % 6 == 2
        kw = dict(ints=ints, zero_shift=(case % 4 == 3), special=(case % 9 == 4))
        df_a = make_df(rng, n_a, t_a, index=str(rng.choice(["default", "shuffled", "offset", "reversed"])), **kw)
        df_nn = make_df(rng, n_nn, t_nn, index=str(rng.choice(["default", "shuffled", "offset", "reversed"])),
                        first_subtomo=5000, **kw)
        done += bool(one_case(rng, f"random {case} (n={n_a}/{n_nn}, tomos={len(t_a)}/{len(t_nn)}, k={k}, px={ps})", df_a, df_nn, k, ps))
    # --- coincident lists: the same object, and an equal copy -----------------------------------------------------
    for case in range(12):
        n = int(rng.integers(1, 201)) if case else 1
        t = list(rng.choice(np.arange(1, 20), int(rng.integers(1, 5)), replace=False))
        df = make_df(rng, n, t, index=str(rng.choice(["default", "shuffled"])), special=(case % 4 == 1), ints=(case % 5 == 2))
        k = int(rng.integers(1, 6))
        ps = float(rng.choice([1.0, 2.5, 0.73]))
        done += bool(one_case(rng, f"coincident-object {case} (n={n}, k={k})", df, df, k, ps, coincident=True))
        done += bool(one_case(rng, f"coincident-copy {case} (n={n}, k={k})", df, df.copy(), k, ps))
    # --- edge cases ---------------------------------------------------------------------------------------------
    for k in range(1, 6):
        # single particle in each list, one tomogram
        done += bool(one_case(rng, f"single/single k={k}", make_df(rng, 1, [3]), make_df(rng, 1, [3], first_subtomo=70), k, 1.5))
        # fewer candidates than k in one tomogram, more in another
        a = make_df(rng, 9, [1, 2])
        b = pd.concat([make_df(rng, 2, [1], first_subtomo=100), make_df(rng, 7, [2], first_subtomo=200)])
        done += bool(one_case(rng, f"fewer candidates than k, k={k}", a, b.reset_index(drop=True), k, 2.0))
        done += bool(one_case(rng, f"fewer candidates than k (duplicate row labels), k={k}", a, b, k, 2.0))
        # equal number of particles per tomogram (the layout rotation_type='all' lives on)
        a = pd.concat([make_df(rng, 6, [4]), make_df(rng, 6, [9], first_subtomo=50)]).reset_index(drop=True)
        b = pd.concat([make_df(rng, 8, [9], first_subtomo=300), make_df(rng, 8, [4], first_subtomo=400)]).reset_index(drop=True)
        done += bool(one_case(rng, f"equal-sized tomograms k={k}", a, b, k, 1.0))
        # all orientations at the poles / multiples of 90
        done += bool(one_case(rng, f"special angles k={k}", make_df(rng, 40, [1, 2], special=True),
                              make_df(rng, 30, [1, 2], special=True, first_subtomo=900), k, 3.0))
        # zeros: identical orientation everywhere, positions on the axes
        a = make_df(rng, 5, [1], zero_shift=True)
        a[["phi", "theta", "psi"]] = 0.0
        a[["x", "y", "z"]] = np.array([[0, 0, 0], [1, 0, 0], [0, 2.5, 0], [0, 0, -4], [7, 7, 7]], dtype=float)
        done += bool(one_case(rng, f"zeros k={k}", a, a.copy(), k, 1.0))
    # --- fully disjoint tomogram sets: the original raises; so must the patched one ---------------------------------
    done += bool(one_case(rng, "disjoint", make_df(rng, 10, [1, 2]), make_df(rng, 10, [3, 4]), 2, 1.0))
    return done


# --------------------------------------------------------------------------------------------------------------------
# change b: everything must be identical to the original, bit for bit; the new optional argument of the callee is
# exercised when it exists (patched tree) -- distances = original distances * pixel size, indices untouched
# --------------------------------------------------------------------------------------------------------------------
import inspect

EXACT_COLS = NUM_COLS
CLOSE_COLS = ()
CLOSE_ATOL = 0.0
DIST_ATOL = {}
ROT_ATOL = 0.0
HAS_PIXEL_SIZE = "pixel_size" in inspect.signature(nnana.get_feature_nn_indices).parameters
SEEN = {"scaled": 0}


def extra_feature_checks(tag, fa, fb, k, pixel_size):
    old = ORIG["get_feature_nn_indices"](fa, fb, k)
    # positional callers with three arguments and callers relying on the defaults see what they saw before
    same_arrays(f"{tag}: get_feature_nn_indices(positional)", nnana.get_feature_nn_indices(fa, fb, k), old)
    if k == 1:
        same_arrays(f"{tag}: get_feature_nn_indices(default k)", nnana.get_feature_nn_indices(fa, fb), ORIG["get_feature_nn_indices"](fa, fb))
    if not HAS_PIXEL_SIZE:
        return
    for variant in (lambda: nnana.get_feature_nn_indices(fa, fb, k, pixel_size=pixel_size),
                    lambda: nnana.get_feature_nn_indices(fa, fb, k, pixel_size),
                    lambda: nnana.get_feature_nn_indices(fa, fb, nn_number=k, pixel_size=pixel_size)):
        new = variant()
        SEEN["scaled"] += 1
        same_arrays(f"{tag}: get_feature_nn_indices(pixel_size).idx", (new[0], new[1], new[3]), (old[0], old[1], old[3]))
        same_arrays(f"{tag}: get_feature_nn_indices(pixel_size).dist", new[2], old[2] * pixel_size)
    one = nnana.get_feature_nn_indices(fa, fb, k, pixel_size=1.0)
    same_arrays(f"{tag}: get_feature_nn_indices(pixel_size=1.0)", one, old)


if __name__ == "__main__":
    n = run_all()
    print(f"cases inside the quantifier: {n}; nnana from {os.path.dirname(nnana.__file__)}; "
          f"get_feature_nn_indices has pixel_size: {HAS_PIXEL_SIZE} ({SEEN['scaled']} scaled calls compared)")
    # the signature of the callee as its callers use it: fm_a, fm_nn, nn_number first, in this order
    params = list(inspect.signature(nnana.get_feature_nn_indices).parameters)
    check(params[:3] == ["fm_a", "fm_nn", "nn_number"], f"leading parameters changed: {params}")
    if FAIL:
        print(f"FAIL ({len(FAIL)} checks)")
        sys.exit(1)
    print("PASS")
