"""C09 / a -- clean_by_distance_to_points: one batched KD-tree query per feature instead of one query per point.

Checks (1) the property clause "cleaning against reference points removes exactly the particles whose complete
position (x + shift_x, ...) is within the radius of a point of the same tomogram; survivors are never altered"
against a brute-force computation, and (2) that the function of the tree under test gives the same table as the
original function text (kept below) on the same inputs.

Run:  cd /tmp/wt7/C09 && /venv/bin/python /tmp/seedsT/C09/a/demo.py
"""
import sys, os

sys.path.insert(0, os.getcwd())

import contextlib
import copy
import io

import numpy as np
import pandas as pd
from scipy.spatial import KDTree

from cryocat import cryomotl
from cryocat.cryomotl import Motl

assert os.path.abspath(cryomotl.__file__).startswith(os.getcwd()), cryomotl.__file__


# ----------------------------------------------------------------------------------------------------------------
# original function text (HEAD 917e6f2), as a free function
# ----------------------------------------------------------------------------------------------------------------
def orig_clean_by_distance_to_points(self, points, radius_in_voxels, feature_id="tomo_id", inplace=True, output_file=None):
    # Parse tomograms
    features = self.get_unique_values(feature_id)

    # Initialize clean motl
    cleaned_df = pd.DataFrame()

    # Loop through and clean
    for f in features:
        # Parse tomogram
        feature_m = self.get_motl_subset(f, feature_id=feature_id, reset_index=True)

        # Parse positions
        coord1 = feature_m.get_coordinates()
        coord2 = points.loc[points[feature_id] == f, ["x", "y", "z"]].values

        # Create a KDTree from coord1
        tree = KDTree(coord1)

        # Query points from coord2 within the radius
        indices_to_remove = set()  # Use a set to store unique indices
        for point in coord2:
            indices = tree.query_ball_point(point, r=radius_in_voxels)  # Returns indices as array
            indices_to_remove.update(indices)  # Add indices to the set

        # Convert to a sorted list for consistent ordering
        indices_to_remove = sorted(indices_to_remove)
        cfm = feature_m.df.drop(index=indices_to_remove)
        cleaned_df = pd.concat([cleaned_df, cfm], ignore_index=True)

    cleaned_df.reset_index(drop=True, inplace=True)
    cleaned_motl = Motl(cleaned_df)

    if output_file:
        cleaned_motl.write_out(output_file)

    print(f"{self.df.shape[0]-cleaned_motl.df.shape[0]} particles were removed.")

    if inplace:
        self.df = cleaned_df
    else:
        return cleaned_motl


# ----------------------------------------------------------------------------------------------------------------
# helpers
# ----------------------------------------------------------------------------------------------------------------
def quiet(fn, *args, **kwargs):
    """Call fn without its prints; returns ("ok", result) or ("err", type name, message)."""
    buf = io.StringIO()
    try:
        with contextlib.redirect_stdout(buf):
            return ("ok", fn(*args, **kwargs))
    except Exception as e:  # noqa: BLE001 - the kind of failure is part of the behaviour that is compared
        return ("err", type(e).__name__, str(e))


def make_motl(rng, n, tomo_ids, lo=-20.0, hi=60.0, integer=False, shifts=True, index="default"):
    df = Motl.create_empty_motl_df()
    data = {c: np.zeros(n) for c in Motl.motl_columns}
    data["score"] = rng.random(n)
    data["subtomo_id"] = np.arange(1, n + 1, dtype=float)
    data["tomo_id"] = rng.choice(np.asarray(tomo_ids, dtype=float), size=n) if n else np.zeros(0)
    data["object_id"] = rng.integers(1, 4, size=n).astype(float)
    if integer:
        pos = rng.integers(int(lo), int(hi), size=(n, 3)).astype(float)
        sh = rng.integers(-3, 4, size=(n, 3)).astype(float) if shifts else np.zeros((n, 3))
    else:
        pos = np.round(rng.uniform(lo, hi, size=(n, 3)))
        sh = rng.uniform(-1.0, 1.0, size=(n, 3)) if shifts else np.zeros((n, 3))
    for k, c in enumerate(["x", "y", "z"]):
        data[c] = pos[:, k]
        data["shift_" + c] = sh[:, k]
    data["phi"] = rng.uniform(-180, 180, n)
    data["theta"] = rng.uniform(0, 180, n)
    data["psi"] = rng.uniform(-180, 180, n)
    data["class"] = rng.integers(1, 3, size=n).astype(float)
    df = pd.DataFrame(data, columns=Motl.motl_columns)
    if index == "shuffled":
        df.index = rng.permutation(n) + 100
    elif index == "offset":
        df.index = np.arange(n) * 3 + 7
    return df


def expected_removed(df, points, radius, feature_id):
    """Brute force: returns (surely_removed, surely_kept, undecided) boolean arrays over the rows of df."""
    pos = df[["x", "y", "z"]].to_numpy(dtype=float) + df[["shift_x", "shift_y", "shift_z"]].to_numpy(dtype=float)
    feat = df[feature_id].to_numpy()
    pfeat = points[feature_id].to_numpy()
    pxyz = points[["x", "y", "z"]].to_numpy(dtype=float)
    dmin = np.full(len(df), np.inf)
    for i in range(len(df)):
        q = pxyz[pfeat == feat[i]]
        if len(q):
            d2 = ((q - pos[i]) ** 2).sum(axis=1)
            dmin[i] = np.sqrt(d2.min())
    tol = 1e-9
    return dmin <= radius - tol, dmin > radius + tol, np.abs(dmin - radius) <= tol, dmin


def expected_order(df, feature_id):
    """Rows grouped by feature in order of first appearance, original order inside each group."""
    out = []
    for f in pd.unique(df[feature_id]):
        out.extend(np.flatnonzero(df[feature_id].to_numpy() == f).tolist())
    return np.asarray(out, dtype=int)


def check_case(df, points, radius, feature_id="tomo_id", exact=False, label=""):
    global n_cases, n_removed, n_kept
    before = df.copy(deep=True)
    points_before = points.copy(deep=True)

    m_new = Motl(df.copy(deep=True))
    m_old = Motl(df.copy(deep=True))
    r_new = quiet(m_new.clean_by_distance_to_points, points, radius, feature_id=feature_id)
    r_old = quiet(orig_clean_by_distance_to_points, m_old, points, radius, feature_id=feature_id)
    assert r_new[0] == r_old[0], (label, r_new, r_old)
    if r_new[0] == "err":
        assert r_new[1:] == r_old[1:], (label, r_new, r_old)
        pd.testing.assert_frame_equal(m_new.df, before)  # a failed call leaves the list alone
        n_cases += 1
        return
    # (2) same table as the original function, bit for bit
    pd.testing.assert_frame_equal(m_new.df, m_old.df, check_exact=True)
    pd.testing.assert_frame_equal(points, points_before)  # the reference points are not touched

    # (1) the property
    rem, kept, undecided, dmin = expected_removed(before, points, radius, feature_id)
    order = expected_order(before, feature_id)
    out_ids = m_new.df["subtomo_id"].to_numpy()
    ids = before["subtomo_id"].to_numpy()
    out_set = set(out_ids.tolist())
    assert len(out_set) == len(out_ids), label
    for i in range(len(before)):
        if exact:
            want_removed = dmin[i] <= radius  # integer coordinates: the threshold itself is decided exactly
        elif undecided[i]:
            continue
        else:
            want_removed = bool(rem[i])
        assert (ids[i] in out_set) != want_removed, (label, i, dmin[i], radius)
    # survivors unaltered, in the documented order, with a fresh 0..n-1 index
    surv_pos = [i for i in order if ids[i] in out_set]
    want = before.iloc[surv_pos].reset_index(drop=True)
    pd.testing.assert_frame_equal(m_new.df, want, check_exact=True)
    n_removed += len(before) - len(m_new.df)
    n_kept += len(m_new.df)

    # inplace=False: same survivors, self untouched; a second cleaning of the result removes nothing (repeated calls)
    m3 = Motl(df.copy(deep=True))
    r3 = quiet(m3.clean_by_distance_to_points, points, radius, feature_id=feature_id, inplace=False)
    assert r3[0] == "ok"
    pd.testing.assert_frame_equal(m3.df, before, check_exact=True)
    if len(m_new.df):
        pd.testing.assert_frame_equal(r3[1].df, m_new.df, check_exact=True)
        again = quiet(r3[1].clean_by_distance_to_points, points, radius, feature_id=feature_id, inplace=False)
        assert again[0] == "ok"
        # second pass: groups may be re-ordered only if a whole group vanished - compare as sets of full rows
        pd.testing.assert_frame_equal(
            again[1].df.sort_values("subtomo_id").reset_index(drop=True),
            m_new.df.sort_values("subtomo_id").reset_index(drop=True),
            check_exact=True,
        )
    n_cases += 1


n_cases = n_removed = n_kept = 0
rng = np.random.default_rng(20260928)

# ---- random float cases: 1..4 tomograms, shifts, negative / zero / large coordinates, all index kinds ------------
for trial in range(160):
    n_tomos = int(rng.integers(1, 5))
    tomo_ids = rng.choice(np.arange(1, 40), size=n_tomos, replace=False)
    n = int(rng.choice([1, 2, 3, 10, 40, 90]))
    df = make_motl(rng, n, tomo_ids, index=["default", "shuffled", "offset"][trial % 3])
    n_pts = int(rng.choice([0, 1, 2, 7, 25]))
    # points also for a tomogram that has no particles, and not necessarily for every tomogram that has
    p_tomos = np.concatenate([tomo_ids, [99]])
    points = pd.DataFrame(
        {
            "tomo_id": rng.choice(p_tomos.astype(float), size=n_pts) if n_pts else np.zeros(0),
            "object_id": rng.integers(1, 4, size=n_pts).astype(float),
            "x": rng.uniform(-20, 60, n_pts),
            "y": rng.uniform(-20, 60, n_pts),
            "z": rng.uniform(-20, 60, n_pts),
            "extra": rng.random(n_pts),
        }
    )
    if trial % 2:
        points.index = rng.permutation(n_pts) + 50  # labels of the points must not matter
    radius = float(rng.choice([0.0, 0.5, 3.0, 8.0, 15.0, 40.0, 500.0]))
    feature_id = "object_id" if trial % 5 == 4 else "tomo_id"
    check_case(df, points, radius, feature_id=feature_id, label=f"random {trial}")

# ---- integer cases: distance exactly equal to the radius (3-4-0, 1-2-2, 2-3-6 triples), radius 0 on the spot ------
triples = [((3, 4, 0), 5), ((1, 2, 2), 3), ((2, 3, 6), 7), ((0, 0, 0), 0), ((0, 0, 4), 4)]
for trial in range(120):
    n_tomos = int(rng.integers(1, 5))
    tomo_ids = rng.choice(np.arange(1, 12), size=n_tomos, replace=False)
    n = int(rng.choice([1, 2, 6, 30]))
    df = make_motl(rng, n, tomo_ids, lo=-6, hi=14, integer=True, index=["default", "shuffled", "offset"][trial % 3])
    off, radius = triples[trial % len(triples)]
    pos = df[["x", "y", "z"]].to_numpy() + df[["shift_x", "shift_y", "shift_z"]].to_numpy()
    rows = []
    for i in range(n):
        kind = rng.integers(0, 4)
        sign = rng.choice([-1, 1], size=3)
        perm = rng.permutation(3)
        o = (np.asarray(off)[perm] * sign).astype(float)
        if kind == 0:  # exactly on the sphere -> removed
            rows.append((df["tomo_id"].iloc[i], *(pos[i] + o)))
        elif kind == 1:  # one voxel further along one axis -> decided by the other particles only
            o2 = o.copy()
            o2[int(rng.integers(0, 3))] += rng.choice([-1, 1]) * (radius + 1)
            rows.append((df["tomo_id"].iloc[i], *(pos[i] + o2)))
        elif kind == 2:  # right position, other tomogram -> must not count
            rows.append((float(50 + i), *(pos[i])))
    points = pd.DataFrame(rows, columns=["tomo_id", "x", "y", "z"]).astype(float)
    if trial % 4 == 0:
        points = points.astype({"x": int, "y": int, "z": int})  # integer element type
    check_case(df, points, radius, exact=True, label=f"integer {trial}")

# ---- edge cases ----------------------------------------------------------------------------------------------------
one = make_motl(rng, 1, [3], integer=True)
pt_on = pd.DataFrame({"tomo_id": [3.0], "x": one["x"] + one["shift_x"], "y": one["y"] + one["shift_y"], "z": one["z"] + one["shift_z"]})
check_case(one, pt_on.iloc[0:0], 10, exact=True, label="single row, no points")
check_case(one, pt_on, 0, exact=True, label="single row, point on the particle, radius 0 -> the list becomes empty")
check_case(one, pt_on.assign(tomo_id=4.0), 10, exact=True, label="single row, point in another tomogram")
check_case(make_motl(rng, 0, [1]), pt_on, 3, exact=True, label="empty list")
many = make_motl(rng, 50, [1, 2], integer=True, index="shuffled")
pts_nan = pd.DataFrame({"tomo_id": [1.0, 1.0, 2.0], "x": [0.0, np.nan, 1.0], "y": [0.0, 1.0, 1.0], "z": [0.0, 1.0, 1.0]})
check_case(many, pts_nan, 4, exact=True, label="NaN hole in the points (refused by the tree in both)")
check_case(many, pts_nan.fillna(2.0), -1.0, exact=True, label="negative radius removes nothing")
# three points: an (3, 3) query array must still be read as three points
pts3 = pd.DataFrame({"tomo_id": [1.0, 1.0, 1.0], "x": [0.0, 5.0, 9.0], "y": [0.0, 5.0, 9.0], "z": [0.0, 5.0, 9.0]})
check_case(many, pts3, 6, exact=True, label="three points")
# duplicates of one point, and a particle close to several points
check_case(many, pd.concat([pts3, pts3, pts3], ignore_index=True), 9, exact=True, label="repeated points")

print(f"cases: {n_cases}, particles removed: {n_removed}, kept: {n_kept}")
assert n_removed > 500 and n_kept > 500
print("PASS")
