"""C07 / change b -- tmana.scores_extract_particles: progress line that counts the candidates (zip materialised once)
and peeks at the best candidate with next(), handing it back with itertools.chain.

The demo
  1. checks the peak-extraction property (supra-threshold, separated by more than the diameter, dominating, score /
     1-based position / Euler angles of the voxel) against an independent brute-force computation over many random
     score / angle maps, thresholds, diameters, angle numberings 0/1 and zxz / zzx angle lists (arrays and files),
  2. compares the function in the tree with a verbatim copy of the ORIGINAL function (kept below) on the same inputs,
     including the options outside the property (sigma / triangle threshold, cluster_size, n_particles, tomo_mask,
     symmetry with the same random seed, written output),
  3. checks that the caller's arrays are left untouched and that repeated calls on the same objects agree.
Prints PASS and exits 0 when everything holds.
"""
import sys, os

sys.path.insert(0, os.getcwd())

import io
import shutil
import tempfile
import contextlib
import warnings
import numpy as np
import pandas as pd
from scipy import ndimage

warnings.filterwarnings("ignore")

from cryocat import tmana, cryomap, cryomotl

# ----------------------------------------------------------------------------------------------------------------
# verbatim copy of the original function (HEAD d4d8304, docstring dropped), executed in the namespace of cryocat.tmana
ORIGINAL = '''
def scores_extract_particles_original(
    scores_map,
    angles_map,
    angles_list,
    tomo_id,
    particle_diameter,
    object_id=None,
    scores_threshold=None,
    sigma_threshold=None,
    cluster_size=None,
    n_particles=None,
    output_path=None,
    output_type="emmotl",
    angles_order="zxz",
    symmetry="c1",
    angles_numbering=0,
    tomo_mask=None,
):
    if symmetry.lower().startswith("c"):
        symmetry = int(re.findall(r"\\d+", symmetry)[-1])
    else:
        warnings.warn(
            f"Only C symmetry is supported. Provided {symmetry} is currently not supported and will be ignored."
        )
        symmetry = 1

    # load the scores map
    scores_map = cryomap.read(scores_map)

    # load the angles map
    angles_map = cryomap.read(angles_map)

    # Read angle list.
    anglist = ioutils.rot_angles_load(angles_list, angles_order=angles_order)

    # load and apply a tomogram mask if any:
    if tomo_mask is not None:
        tomo_mask = cryomap.read(tomo_mask)
        scores_map = scores_map * tomo_mask

    if object_id is None:
        object_id = 1

    if scores_threshold is not None:
        threshold = scores_threshold
    elif sigma_threshold is None:
        threshold = compute_scores_map_threshold_triangle(scores_map)
    else:
        # Set threshold by sigma value
        score_mean = scores_map.mean()
        score_std = scores_map.std(ddof=1)
        threshold = score_mean + sigma_threshold * score_std

    # Threshold and sort indices/scores
    t_idx = np.where(scores_map > threshold)

    k = len(t_idx[0])

    # Check for early termination
    if k == 0:
        return None

    k = min(k, len(scores_map[t_idx])) - 1
    s_idx = np.argpartition(-scores_map[t_idx], k)[: k + 1]
    s_idx = s_idx[np.argsort(-scores_map[t_idx][s_idx])]  # Sort for later

    # Sorted indices. s_ind[0] = x, s_ind[1] = y, s_ind[2] = z
    s_ind = np.array([t_idx[0][s_idx], t_idx[1][s_idx], t_idx[2][s_idx]])
    # n_vox = len(s_idx)

    # Create a list of tuples where each tuple is (coord, score) and sort it by score in descending order
    scored_coords = sorted(zip(s_ind.T, scores_map[s_ind[0], s_ind[1], s_ind[2]]), key=lambda x: x[1], reverse=True)

    # Build a KD-tree with the coordinates
    tree = KDTree([coord for coord, score in scored_coords])

    # Remove any points that are within the specified particle diameter of a higher score point
    coord_to_score = {tuple(coord): score for coord, score in scored_coords}
    remaining_coords = set(coord_to_score.keys())
    filtered_coords = []

    for coord, score in scored_coords:
        if tuple(coord) not in remaining_coords:
            continue
        filtered_coords.append((coord, score))
        nearby_coords = tree.query_ball_point(coord, particle_diameter)
        for nearby_coord in nearby_coords:
            nearby_coord_tuple = tuple(scored_coords[nearby_coord][0])
            if nearby_coord_tuple in remaining_coords and coord_to_score[nearby_coord_tuple] <= score:
                remaining_coords.remove(nearby_coord_tuple)

    # Extract the coordinates from the filtered_coords list
    filtered_coords, filtered_scores = zip(*filtered_coords)
    filtered_coords = np.array(filtered_coords)
    filtered_scores = np.array(filtered_scores)

    # Use DBSCAN to cluster points
    clusterer = DBSCAN(eps=particle_diameter / 2, min_samples=1)
    cluster_labels = clusterer.fit_predict(filtered_coords)

    # Keep track of hits in case of number of particles
    filtered_hit_idx = np.zeros(len(filtered_coords), dtype=bool)

    # Count number of hits
    c = 0
    for cluster_id in np.unique(cluster_labels):
        if cluster_id == -1:
            continue

        # Check cluster size
        if cluster_size is not None:
            c_size = np.sum(cluster_labels == cluster_id)
            if c_size < cluster_size:
                continue

        filtered_hit_idx[cluster_labels == cluster_id] = True
        c += np.sum(cluster_labels == cluster_id)

    # Remaining positions
    rpos = filtered_coords[filtered_hit_idx]
    filtered_scores = filtered_scores[filtered_hit_idx]
    if n_particles is not None:
        rpos = rpos[0 : min(rpos.shape[0], n_particles), :]
        filtered_scores = filtered_scores[0 : min(rpos.shape[0], n_particles)]

    # Fill orientation and scores
    # Parse angle index
    ang_idx = angles_map[rpos[:, 0], rpos[:, 1], rpos[:, 2]].astype(int) - angles_numbering

    phi = anglist[ang_idx, 0]
    theta = anglist[ang_idx, 1]
    psi = anglist[ang_idx, 2]

    if symmetry > 1:
        add_phi = np.linspace(0, 360, symmetry + 1)
        add_phi = add_phi[:-1]
        phi = phi + np.random.choice(add_phi, size=phi.shape[0])

    ##### Generate motivelist #####
    print("Generating motivelist...")

    motl = cryomotl.Motl()
    motl.fill(
        {
            "x": rpos[:, 0] + 1,
            "y": rpos[:, 1] + 1,
            "z": rpos[:, 2] + 1,
            "score": filtered_scores,
            "class": 1,
            "tomo_id": tomo_id,
            "object_id": object_id,
            "phi": phi,
            "theta": theta,
            "psi": psi,
            "subtomo_id": np.arange(1, rpos.shape[0] + 1),
        }
    )

    del s_ind, scored_coords
    gc.collect()

    if output_path is not None:
        if output_type == "emmotl":
            motl.write_out(output_path)
        elif output_type == "stopgap":
            sg_motl = cryomotl.StopgapMotl(motl.df)
            sg_motl.write_out(output_path=output_path)
        elif output_type == "relion":
            rel_motl = cryomotl.RelionMotl(motl.df)
            rel_motl.write_out(output_path=output_path)
        else:
            raise ValueError(f"The output motl type {output_type} is not currently supported.")

    return motl
'''
_ns = dict(vars(tmana))
exec(ORIGINAL, _ns)
scores_extract_particles_original = _ns["scores_extract_particles_original"]

rng = np.random.default_rng(70707)
n_prop = 0
n_cmp = 0


def quiet(fn, *args, **kwargs):
    buf = io.StringIO()
    with contextlib.redirect_stdout(buf):
        try:
            out = fn(*args, **kwargs)
        except Exception as e:  # compared between original and patched as well
            out = e
    return out, buf.getvalue()


def make_maps(shape, dtype, n_angles, numbering, smooth):
    """plateau-free score map (all values distinct), angle map holding numbers numbering .. numbering+n_angles-1"""
    n = int(np.prod(shape))
    field = rng.normal(size=shape)
    if smooth > 0:
        field = ndimage.gaussian_filter(field, smooth, mode="wrap")
    # rank transform -> distinct values also in float32 (n <= 64000 < 2**24)
    ranks = np.empty(n, dtype=np.int64)
    ranks[np.argsort(field, axis=None, kind="stable")] = np.arange(n)
    scale = float(rng.choice([1.0, 0.37, 12.0]))
    offset = float(rng.choice([0.0, -0.5, 0.25]))
    scores = ((ranks / n) * scale + offset * scale).astype(dtype).reshape(shape)
    assert len(np.unique(scores)) == n
    angles_map = (rng.integers(0, n_angles, size=shape) + numbering).astype(rng.choice([np.float32, np.int32, np.float64]))
    anglist = np.column_stack(
        [rng.uniform(-180, 180, n_angles), rng.uniform(0, 180, n_angles), rng.uniform(-180, 180, n_angles)]
    )
    return scores, angles_map, anglist


def pick_diameter():
    """integer diameters (lattice distances hit them exactly) and fractional ones away from any lattice distance"""
    if rng.random() < 0.5:
        return float(rng.integers(1, 16))
    while True:
        dia = float(rng.uniform(0.6, 15.0))
        frac = (dia * dia) % 1.0
        if 0.05 < frac < 0.95:
            return dia


def brute_force(scores, threshold, dia):
    """own greedy suppression on the integer lattice, squared distances are exact integers"""
    idx = np.argwhere(scores > threshold)
    sc = scores[idx[:, 0], idx[:, 1], idx[:, 2]].astype(np.float64)
    order = np.argsort(-sc, kind="stable")
    idx, sc = idx[order], sc[order]
    alive = np.ones(len(sc), dtype=bool)
    peaks = []
    for j in range(len(sc)):
        if not alive[j]:
            continue
        peaks.append(j)
        d2 = ((idx - idx[j]) ** 2).sum(axis=1)
        alive[d2 <= dia * dia] = False
    return idx, sc, idx[peaks], sc[peaks]


def check_property(motl, scores, angles_map, angle_rows, numbering, threshold, dia, tomo_id, object_id):
    """angle_rows: (n_angles, 3) array already in the order phi, theta, psi"""
    global n_prop
    df = motl.df
    assert list(df.columns) == cryomotl.Motl.motl_columns
    pos = df[["x", "y", "z"]].to_numpy()
    assert np.array_equal(pos, np.round(pos)) and (pos >= 1).all() and (pos <= np.array(scores.shape)).all()
    vox = pos.astype(int) - 1  # 1-based position of the voxel
    sc = df["score"].to_numpy()
    # each peak carries its voxel's score, and exceeds the threshold
    assert np.array_equal(sc, scores[vox[:, 0], vox[:, 1], vox[:, 2]].astype(np.float64))
    assert (sc > threshold).all()
    # peaks are farther apart than the diameter
    d2 = ((vox[:, None, :] - vox[None, :, :]) ** 2).sum(axis=2)
    np.fill_diagonal(d2, np.iinfo(np.int64).max)
    assert (d2 > dia * dia).all(), "two peaks within the particle diameter"
    # every supra-threshold voxel is within the diameter of a peak with an equal or higher score
    cand, cand_sc, ref_vox, ref_sc = brute_force(scores, threshold, dia)
    for start in range(0, len(cand), 2000):
        c = cand[start : start + 2000]
        cd2 = ((c[:, None, :] - vox[None, :, :]) ** 2).sum(axis=2)
        ok = (cd2 <= dia * dia) & (sc[None, :] >= cand_sc[start : start + 2000][:, None])
        assert ok.any(axis=1).all(), "a supra-threshold voxel is not dominated by a peak"
    # plateau-free scores: the answer is unique -> same peaks, in descending order of the score
    assert np.array_equal(vox, ref_vox), "peaks differ from the brute-force reference"
    assert np.array_equal(sc, ref_sc)
    # Euler angles its angle-map entry points to
    a_idx = angles_map[vox[:, 0], vox[:, 1], vox[:, 2]].astype(int) - numbering
    assert np.array_equal(df["phi"].to_numpy(), angle_rows[a_idx, 0])
    assert np.array_equal(df["theta"].to_numpy(), angle_rows[a_idx, 1])
    assert np.array_equal(df["psi"].to_numpy(), angle_rows[a_idx, 2])
    # book-keeping columns
    assert (df["tomo_id"] == tomo_id).all() and (df["object_id"] == (1 if object_id is None else object_id)).all()
    assert (df["class"] == 1).all()
    assert np.array_equal(df["subtomo_id"].to_numpy(), np.arange(1, len(df) + 1))
    for col in ["shift_x", "shift_y", "shift_z", "geom1", "geom2", "geom3", "geom4", "geom5", "subtomo_mean"]:
        assert (df[col] == 0).all()
    n_prop += 1


def same_result(r_new, r_old):
    if r_old is None or r_new is None:
        assert r_old is None and r_new is None
    elif isinstance(r_old, Exception) or isinstance(r_new, Exception):
        assert type(r_old) is type(r_new) and str(r_old) == str(r_new), (repr(r_new), repr(r_old))
    else:
        pd.testing.assert_frame_equal(r_new.df, r_old.df, check_exact=True)
        assert type(r_new) is type(r_old)


def compare(args, kwargs, seed=None):
    """patched vs original on the same inputs; inputs untouched; repeated call agrees; random state advances equally"""
    global n_cmp
    snap = [a.copy() if isinstance(a, np.ndarray) else a for a in args]
    ksnap = {k: (v.copy() if isinstance(v, np.ndarray) else v) for k, v in kwargs.items()}
    wflags = [a.flags.writeable if isinstance(a, np.ndarray) else None for a in args]
    if seed is not None:
        np.random.seed(seed)
    r_new, log_new = quiet(tmana.scores_extract_particles, *args, **kwargs)
    st_new = np.random.get_state()
    if seed is not None:
        np.random.seed(seed)
    r_old, log_old = quiet(scores_extract_particles_original, *args, **kwargs)
    st_old = np.random.get_state()
    same_result(r_new, r_old)
    assert st_new[0] == st_old[0] and np.array_equal(st_new[1], st_old[1]) and st_new[2:] == st_old[2:]
    if isinstance(r_new, Exception) and not isinstance(r_new, (ValueError, IndexError)):
        raise r_new
    for a, s, w in zip(args, snap, wflags):
        if isinstance(a, np.ndarray):
            assert np.array_equal(a, s) and a.dtype == s.dtype and a.shape == s.shape and a.flags.writeable == w
    for k, v in kwargs.items():
        if isinstance(v, np.ndarray):
            assert np.array_equal(v, ksnap[k]) and v.dtype == ksnap[k].dtype
    # the original log lines are still there, in the same order
    old_lines = log_old.strip().splitlines()
    new_lines = log_new.strip().splitlines()
    assert [l for l in new_lines if l in old_lines] == old_lines
    # repeated call on the same objects
    if seed is not None:
        np.random.seed(seed)
    r_again, _ = quiet(tmana.scores_extract_particles, *args, **kwargs)
    same_result(r_again, r_old)
    n_cmp += 1
    return r_new


tmp_dir = tempfile.mkdtemp(prefix="c07b_", dir=os.path.dirname(os.path.abspath(__file__)))
try:
    # -----------------------------------------------------------------------------------------------------------
    # 1. the property, arrays as input
    sizes = [(6, 6, 6), (9, 7, 5), (12, 12, 12), (16, 10, 20), (24, 24, 24), (30, 17, 22), (40, 40, 40), (1, 8, 8), (3, 3, 3)]
    for it in range(70):
        shape = sizes[it % len(sizes)] if it < 2 * len(sizes) else sizes[int(rng.integers(0, len(sizes) - 3))]
        dtype = np.float32 if rng.random() < 0.6 else np.float64
        numbering = int(rng.integers(0, 2))
        order = "zxz" if rng.random() < 0.5 else "zzx"
        n_angles = int(rng.integers(1, 60))
        scores, angles_map, anglist = make_maps(shape, dtype, n_angles, numbering, smooth=float(rng.choice([0, 0.8, 1.5, 3.0])))
        n = scores.size
        # threshold: between 1 and ~2500 voxels above it; sometimes exactly a map value (strict '>' matters)
        n_above = int(min(n - 1, rng.choice([1, 2, 5, 30, 200, 800, 2500])))
        sorted_sc = np.sort(scores, axis=None)
        threshold = float(sorted_sc[n - n_above - 1]) if rng.random() < 0.5 else float(
            (np.float64(sorted_sc[n - n_above - 1]) + np.float64(sorted_sc[n - n_above])) / 2
        )
        if rng.random() < 0.3:
            threshold = scores.dtype.type(threshold)  # numpy scalar threshold
        dia = pick_diameter()
        tomo_id = int(rng.integers(1, 300))
        object_id = None if rng.random() < 0.5 else int(rng.integers(1, 9))
        args = (scores, angles_map, anglist, tomo_id, dia)
        kwargs = dict(scores_threshold=threshold, angles_numbering=numbering, angles_order=order)
        if object_id is not None:
            kwargs["object_id"] = object_id
        res = compare(args, kwargs)
        assert isinstance(res, cryomotl.Motl), repr(res)
        # an angle list handed in as an array is taken as it is (phi, theta, psi), whatever the order says
        check_property(res, scores, angles_map, anglist, numbering, float(threshold), dia, tomo_id, object_id)

    # -----------------------------------------------------------------------------------------------------------
    # 2. the property, files as input (map files are transposed on reading, zzx lists hold phi, psi, theta per line)
    for it in range(8):
        shape = [(10, 12, 14), (16, 16, 16), (20, 9, 13), (8, 8, 30)][it % 4]
        numbering = it % 2
        order = ["zxz", "zzx"][(it // 2) % 2]
        ext = [".em", ".mrc"][(it // 4) % 2]
        n_angles = 25
        scores, angles_map, anglist = make_maps(shape, np.float32, n_angles, numbering, smooth=1.0)
        angles_map = angles_map.astype(np.float32)
        s_path = os.path.join(tmp_dir, f"scores_{it}{ext}")
        a_path = os.path.join(tmp_dir, f"angles_{it}{ext}")
        l_path = os.path.join(tmp_dir, f"anglist_{it}.csv")
        cryomap.write(scores, s_path, data_type=np.float32)
        cryomap.write(angles_map, a_path, data_type=np.float32)
        np.savetxt(l_path, anglist, delimiter=",", fmt="%.17g")
        back = cryomap.read(s_path)
        assert np.array_equal(back, scores), "map file round trip"
        threshold = float(np.quantile(scores.astype(np.float64), 0.97))
        dia = pick_diameter()
        res = compare((s_path, a_path, l_path, 7, dia), dict(scores_threshold=threshold, angles_numbering=numbering, angles_order=order))
        # what the csv parser makes of the file (its default float parsing may be off in the last bit)
        parsed = pd.read_csv(l_path, header=None).to_numpy()
        assert parsed.shape == anglist.shape and np.allclose(parsed, anglist, rtol=1e-13, atol=0)
        rows = parsed if order == "zxz" else parsed[:, [0, 2, 1]]  # file columns phi, psi, theta -> phi, theta, psi
        check_property(res, scores, angles_map, rows, numbering, threshold, dia, 7, None)

    # -----------------------------------------------------------------------------------------------------------
    # 3. edge cases of the quantifier
    scores, angles_map, anglist = make_maps((10, 10, 10), np.float64, 5, 1, smooth=0)
    top = float(scores.max())
    second = float(np.sort(scores, axis=None)[-2])
    # nothing above the threshold -> None, from both
    assert compare((scores, angles_map, anglist, 1, 4.0), dict(scores_threshold=top, angles_numbering=1)) is None
    assert compare((scores, angles_map, anglist, 1, 4.0), dict(scores_threshold=top + 1, angles_numbering=1)) is None
    # exactly one voxel above the threshold
    res = compare((scores, angles_map, anglist, 1, 4.0), dict(scores_threshold=second, angles_numbering=1))
    assert len(res.df) == 1
    check_property(res, scores, angles_map, anglist, 1, second, 4.0, 1, None)
    # every voxel above the threshold, tiny and huge diameter
    low = float(scores.min()) - 1.0
    res = compare((scores, angles_map, anglist, 3, 0.5), dict(scores_threshold=low, angles_numbering=1))
    assert len(res.df) == scores.size
    check_property(res, scores, angles_map, anglist, 1, low, 0.5, 3, None)
    res = compare((scores, angles_map, anglist, 3, 100.0), dict(scores_threshold=low, angles_numbering=1))
    assert len(res.df) == 1
    check_property(res, scores, angles_map, anglist, 1, low, 100.0, 3, None)
    # integer diameter given as int / numpy integer
    for dia in (3, np.int64(5), np.float32(2.5)):
        thr = float(np.quantile(scores, 0.9))
        res = compare((scores, angles_map, anglist, 2, dia), dict(scores_threshold=thr, angles_numbering=1))
        check_property(res, scores, angles_map, anglist, 1, thr, float(dia), 2, None)
    # read-only inputs
    ro_s, ro_a, ro_l = scores.copy(), angles_map.copy(), anglist.copy()
    for a in (ro_s, ro_a, ro_l):
        a.flags.writeable = False
    res = compare((ro_s, ro_a, ro_l, 2, 3.0), dict(scores_threshold=thr, angles_numbering=1))
    check_property(res, scores, angles_map, anglist, 1, thr, 3.0, 2, None)

    # -----------------------------------------------------------------------------------------------------------
    # 4. options outside the property: patched == original
    for it in range(24):
        shape = sizes[int(rng.integers(0, 6))]
        numbering = int(rng.integers(0, 2))
        scores, angles_map, anglist = make_maps(shape, np.float32, 30, numbering, smooth=float(rng.choice([0.8, 1.5])))
        scores = scores - np.float32(0.2)  # some non-positive scores for the triangle threshold
        dia = pick_diameter()
        kwargs = dict(angles_numbering=numbering)
        mode = it % 6
        if mode == 0:
            kwargs["sigma_threshold"] = float(rng.uniform(1.0, 1.6))
        elif mode == 1:
            pass  # triangle threshold
        elif mode == 2:
            kwargs.update(scores_threshold=float(np.quantile(scores, 0.95)), cluster_size=int(rng.integers(1, 3)))
        elif mode == 3:
            kwargs.update(scores_threshold=float(np.quantile(scores, 0.95)), n_particles=int(rng.integers(1, 6)))
        elif mode == 4:
            mask = (rng.random(shape) < 0.7).astype(np.float32)
            kwargs.update(scores_threshold=float(np.quantile(scores, 0.9)), tomo_mask=mask)
        else:
            kwargs.update(scores_threshold=float(np.quantile(scores, 0.95)), symmetry=f"C{int(rng.integers(2, 7))}")
        compare((scores, angles_map, anglist, 5, dia), kwargs, seed=int(rng.integers(0, 2**31)))
    # non-C symmetry (warning, treated as c1) and written output
    scores, angles_map, anglist = make_maps((12, 12, 12), np.float32, 10, 0, smooth=1.0)
    thr = float(np.quantile(scores, 0.95))
    compare((scores, angles_map, anglist, 5, 3.0), dict(scores_threshold=thr, symmetry="d2"))
    out_new = os.path.join(tmp_dir, "new.em")
    out_old = os.path.join(tmp_dir, "old.em")
    r1, _ = quiet(tmana.scores_extract_particles, scores, angles_map, anglist, 5, 3.0, scores_threshold=thr, output_path=out_new)
    r2, _ = quiet(scores_extract_particles_original, scores, angles_map, anglist, 5, 3.0, scores_threshold=thr, output_path=out_old)
    same_result(r1, r2)
    assert open(out_new, "rb").read() == open(out_old, "rb").read()
    compare((scores, angles_map, anglist, 5, 3.0), dict(scores_threshold=thr, output_path=out_new, output_type="nonsense"))
finally:
    shutil.rmtree(tmp_dir, ignore_errors=True)

print(f"{n_prop} property checks, {n_cmp} comparisons with the original function")
print("PASS")
