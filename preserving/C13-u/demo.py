"""C13 -- masks: analytic shapes and voxel-wise set algebra.

Tests the property against an independent computation (integer lattice arithmetic for the shapes, boolean algebra
for union / intersection / subtraction / difference), compares the algebra functions of the tree with a verbatim copy
of the original functions (ORIG_SRC below) on the same inputs, and checks that the caller's inputs (arrays, the list,
files on disk) are left untouched -- also over repeated calls on the same objects.

Run:  cd /tmp/wt11/C13 && /venv/bin/python <this file>      (prints PASS and exits 0 when everything holds)
"""
import sys, os

sys.path.insert(0, os.getcwd())
import warnings

warnings.filterwarnings("ignore")
import hashlib
import shutil
import tempfile
import numpy as np
from cryocat import cryomask as cm
from cryocat import cryomap

# ---------------------------------------------------------------------------------------------------------------------
# verbatim copy of the original functions (cryocat/cryomask.py at HEAD d4d8304, lines 219-338)
ORIG_SRC = '''
def union(mask_list, output_name=None):
    """Calculate the union of multiple masks. The final values are clipped to 0.0 and 1.0.

    Parameters
    ----------
    mask_list : list
        A list of masks (loaded or specified by their paths, or combination of both).
    output_name : str, optional
        The name of the output file. If provided, the final mask is written out. Defaults to None.

    Returns
    -------
    numpy.ndarray
        3D array with the final mask.

    """

    final_mask = np.zeros(cryomap.read(mask_list[0]).shape)

    for m in mask_list:
        mask = cryomap.read(m)
        final_mask += mask

    final_mask = np.clip(final_mask, 0.0, 1.0)

    write_out(final_mask, output_name)

    return final_mask


def intersection(mask_list, output_name=None):
    """Calculate the intersection of multiple masks. The final values are clipped to 0.0 and 1.0.

    Parameters
    ----------
    mask_list : list
        A list of masks (loaded or specified by their paths, or combination of both).
    output_name : str, optional
        The name of the output file. If provided, the final mask is written out. Defaults to None.

    Returns
    -------
    numpy.ndarray
        3D array with the final mask as a numpy array.

    """
    final_mask = np.ones(cryomap.read(mask_list[0]).shape)

    for m in mask_list:
        mask = cryomap.read(m)
        final_mask *= mask

    final_mask = np.clip(final_mask, 0.0, 1.0)
    write_out(final_mask, output_name)

    return final_mask


def subtraction(mask_list, output_name=None):
    """Calculate the subtraction of multiple masks. The subtraction follows the
    order in the list, i.e., the second mask is subtracted from the first one, the third one from the result of the
    first subtraction etc. The final values are clipped to 0.0 and 1.0.

    Parameters
    ----------
    mask_list : list
        A list of masks (loaded or specified by their paths, or combination of both).
    output_name : str, optional
        The name of the output file. If provided, the final mask is written out. Defaults to None.

    Returns
    -------
    numpy.ndarray
        3D array with the final mask as a numpy array.

    """
    # in floating point, like union and intersection: unsigned masks would wrap around at 0 - 1, boolean ones have no `-`
    final_mask = cryomap.read(mask_list[0]).astype(float)

    for m in mask_list[1:]:
        mask = cryomap.read(m)
        final_mask -= mask

    final_mask = np.clip(final_mask, 0.0, 1.0)
    write_out(final_mask, output_name)

    return final_mask


def difference(mask_list, output_name=None):
    """Calculate the difference between multiple masks. The function first compute the union of all the masks in the
    list and then their intersection which is then substracted from the union. The final values are clipped
    to 0.0 and 1.0.

    Parameters
    ----------
    mask_list : list
        A list of masks (loaded or specified by their paths, or combination of both).
    output_name : str, optional
        The name of the output file. If provided, the final mask is written out. Defaults to None.

    Returns
    -------
    numpy.ndarray
        3D array with the final mask after calculating the difference.

    Examples
    --------
        difference([mask1, 'mask2.em', 'mask3.mrc'], output_name='output.mrc')

    """

    union_mask = union(mask_list)
    inter_mask = intersection(mask_list)

    final_mask = union_mask - inter_mask
    final_mask = np.clip(final_mask, 0.0, 1.0)
    write_out(final_mask, output_name)

    return final_mask
'''
orig = {"np": np, "cryomap": cryomap, "write_out": cm.write_out}
exec(ORIG_SRC, orig)

rng = np.random.default_rng(20260928)
fails = []
counts = {}


def check(cond, msg):
    if not cond:
        fails.append(msg)
        if len(fails) <= 20:
            print("FAIL:", msg)


def tick(name):
    counts[name] = counts.get(name, 0) + 1


# ---------------------------------------------------------------------------------------------------------------------
# independent shape computations (integer lattice)
def grids(size):
    return np.ogrid[0 : size[0], 0 : size[1], 0 : size[2]]


def ball(size, c, r):
    i, j, k = grids(size)
    d2 = (i - c[0]) ** 2 + (j - c[1]) ** 2 + (k - c[2]) ** 2
    if r < 0:
        return np.zeros(size, dtype=bool)
    return d2 <= r * r  # r integer or half-integer: r*r is exact in floating point


def cyl(size, c, r, h):
    i, j, k = grids(size)
    return (((i - c[0]) ** 2 + (j - c[1]) ** 2) <= r * r) & (np.abs(k - c[2]) <= h // 2)


def ell_sides(size, c, rad):
    """integer lhs / rhs of  sum ((i-c)/r)^2 <= 1  multiplied by (rx ry rz)^2  (python integers: no overflow)"""
    i, j, k = [g.astype(object) for g in grids(size)]
    rx, ry, rz = [int(v) for v in rad]
    lhs = (
        (i - int(c[0])) ** 2 * (ry * rz) ** 2
        + (j - int(c[1])) ** 2 * (rx * rz) ** 2
        + (k - int(c[2])) ** 2 * (rx * ry) ** 2
    )
    rhs = (rx * ry * rz) ** 2
    return np.asarray(lhs < rhs, dtype=bool), np.asarray(lhs > rhs, dtype=bool)


def check_ell(mask, size, c, rad, tag):
    inside, outside = ell_sides(size, c, rad)
    m = np.asarray(mask).astype(bool)
    check(bool(np.all(m[inside])), f"{tag}: interior voxel missing")
    check(not bool(np.any(m[outside])), f"{tag}: exterior voxel set")


def rand_size(even=False, big=False):
    hi = 49 if big else 25
    s = rng.integers(6, hi, size=3)
    if even:
        s = (s // 2) * 2
        s[s < 6] = 6
    return [int(v) for v in s]


def rand_center(size):
    return [int(rng.integers(0, s)) for s in size]


def shapes_part():
    # ---- sphere (hard) -------------------------------------------------------------------------------------------
    for n in range(70):
        size = rand_size(big=(n % 7 == 0))
        c = rand_center(size) if n % 4 else None
        r = int(rng.integers(1, max(size) + 4))
        cc = c if c is not None else [s // 2 for s in size]
        size_in, c_in = list(size), (list(c) if c is not None else None)
        m = cm.spherical_mask(size_in, radius=r, center=c_in)
        check(m.shape == tuple(size), f"sphere shape {size}")
        check(
            np.array_equal(m.astype(bool), ball(size, cc, r)) and set(np.unique(m)) <= {0.0, 1.0},
            f"sphere {size} c={c} r={r}",
        )
        check(size_in == size and (c is None or c_in == c), "sphere arguments modified")
        m2 = cm.spherical_mask(size_in, radius=r, center=c_in)
        check(np.array_equal(m, m2), "sphere repeated call differs")
        tick("sphere")
    m = cm.spherical_mask(12)
    check(np.array_equal(m.astype(bool), ball([12, 12, 12], [6, 6, 6], 6)), "sphere default radius / cubic")
    # ---- cylinder (hard) -----------------------------------------------------------------------------------------
    for n in range(70):
        size = rand_size(big=(n % 7 == 0))
        c = rand_center(size) if n % 4 else None
        cc = c if c is not None else [s // 2 for s in size]
        r = int(rng.integers(1, max(size[:2]) + 4))
        h = int(rng.integers(1, size[2] + 6))
        fits = cc[2] - h // 2 >= 0 and cc[2] + h // 2 + 1 <= size[2]
        try:
            m = cm.cylindrical_mask(list(size), radius=r, height=h, center=None if c is None else list(c))
        except ValueError:
            check(not fits, f"cylinder raised although the slab fits {size} c={c} r={r} h={h}")
            tick("cylinder, slab outside box (raises)")
            continue
        check(fits, f"cylinder built although the slab does not fit {size} c={c} h={h}")
        check(
            np.array_equal(m.astype(bool), cyl(size, cc, r, h)) and set(np.unique(m)) <= {0.0, 1.0},
            f"cylinder {size} c={c} r={r} h={h}",
        )
        tick("cylinder")
    # ---- ellipsoid (hard, even boxes) ----------------------------------------------------------------------------
    for n in range(60):
        size = rand_size(even=True, big=(n % 10 == 0))
        c = rand_center(size) if n % 4 else None
        cc = c if c is not None else [s // 2 for s in size]
        rad = [int(rng.integers(1, s + 3)) for s in size]
        m = cm.ellipsoid_mask(list(size), radii=list(rad), center=None if c is None else list(c))
        check(m.shape == tuple(size) and m.dtype == bool, "ellipsoid shape / dtype")
        check_ell(m, size, cc, rad, f"ellipsoid {size} c={c} rad={rad}")
        tick("ellipsoid")
    # ---- shells ---------------------------------------------------------------------------------------------------
    for n in range(50):
        size = rand_size()
        c = rand_center(size) if n % 3 else None
        cc = c if c is not None else [s // 2 for s in size]
        r = int(rng.integers(1, max(size)))
        t = int(rng.integers(1, 7))
        m = cm.spherical_shell_mask(list(size), t, radius=r, center=None if c is None else list(c))
        exp = ball(size, cc, r + t / 2) & ~ball(size, cc, r - t / 2)
        check(
            np.array_equal(m.astype(bool), exp) and set(np.unique(m)) <= {0.0, 1.0},
            f"s_shell {size} c={c} r={r} t={t}",
        )
        tick("spherical shell")
    for n in range(40):
        size = rand_size(even=True)
        c = rand_center(size) if n % 3 else None
        cc = c if c is not None else [s // 2 for s in size]
        t = int(rng.integers(1, 6))
        rad = [int(rng.integers(t // 2 + 2, s + 2)) for s in size]
        m = cm.ellipsoid_shell_mask(list(size), t, radii=list(rad), center=None if c is None else list(c))
        in_o, out_o = ell_sides(size, cc, [int(v + t / 2) for v in rad])
        in_i, out_i = ell_sides(size, cc, [int(v - t / 2) for v in rad])
        mb = np.asarray(m).astype(bool)
        check(
            bool(np.all(mb[in_o & out_i])) and not bool(np.any(mb[out_o | in_i])),
            f"e_shell {size} c={c} rad={rad} t={t}",
        )
        tick("ellipsoid shell")
    # ---- name based generator ------------------------------------------------------------------------------------
    for n in range(40):
        r = int(rng.integers(1, 9))
        h = int(rng.integers(1, 12))
        t = int(rng.integers(1, 5))
        rad = [int(rng.integers(t // 2 + 2, 9)) for _ in range(3)]
        given = None if n % 2 else int(rng.integers(12, 17)) * 2
        # sphere
        ms = given if given is not None else 2 * r + 4
        m = cm.generate_mask(f"sphere_r{r}", mask_size=given)
        check(np.array_equal(m.astype(bool), ball([ms] * 3, [ms // 2] * 3, r)), f"generate sphere_r{r} size={given}")
        # cylinder
        ms = given if given is not None else 2 * max(r, h) + 4
        m = cm.generate_mask(f"cylinder_r{r}_h{h}", mask_size=given)
        check(
            np.array_equal(m.astype(bool), cyl([ms] * 3, [ms // 2] * 3, r, h)),
            f"generate cylinder_r{r}_h{h} size={given}",
        )
        # spherical shell
        ms = given if given is not None else 2 * max(r, t) + 4
        ms = -(-(ms + t) // 2) * 2
        m = cm.generate_mask(f"s_shell_r{r}_s{t}", mask_size=given)
        exp = ball([ms] * 3, [ms // 2] * 3, r + t / 2) & ~ball([ms] * 3, [ms // 2] * 3, r - t / 2)
        check(m.shape == (ms,) * 3 and np.array_equal(m.astype(bool), exp), f"generate s_shell_r{r}_s{t} size={given}")
        # ellipsoid
        ms = given if given is not None else 2 * max(rad) + 4
        m = cm.generate_mask(f"ellipsoid_rx{rad[0]}_ry{rad[1]}_rz{rad[2]}", mask_size=given)
        check(m.shape == (ms,) * 3, "generate ellipsoid shape")
        check_ell(m, [ms] * 3, [ms // 2] * 3, rad, f"generate ellipsoid {rad} size={given}")
        # ellipsoid shell
        ms = given if given is not None else 2 * max(rad + [t]) + 4
        m = cm.generate_mask(f"e_shell_rx{rad[0]}_ry{rad[1]}_rz{rad[2]}_s{t}", mask_size=given)
        in_o, out_o = ell_sides([ms] * 3, [ms // 2] * 3, [int(v + t / 2) for v in rad])
        in_i, out_i = ell_sides([ms] * 3, [ms // 2] * 3, [int(v - t / 2) for v in rad])
        mb = np.asarray(m).astype(bool)
        check(
            m.shape == (ms,) * 3 and bool(np.all(mb[in_o & out_i])) and not bool(np.any(mb[out_o | in_i])),
            f"generate e_shell {rad} t={t}",
        )
        tick("generator (5 shapes)")
    # ---- soft edges -----------------------------------------------------------------------------------------------
    for n in range(60):
        size = rand_size(even=True, big=(n % 12 == 0))
        c = rand_center(size) if n % 3 else None
        cc = c if c is not None else [s // 2 for s in size]
        sigma = float(rng.choice([0.0, 0.3, 0.5, 1.0, 1.5, 2.0, 2.7, 3.0]))
        outwards = bool(n % 2)
        r = int(rng.integers(1, max(size)))
        m = cm.spherical_mask(
            list(size), radius=r, center=None if c is None else list(c), gaussian=sigma, gaussian_outwards=outwards
        )
        check(m.min() >= -1e-9 and m.max() <= 1 + 1e-9, f"soft sphere outside [0,1] {size} r={r} s={sigma}")
        if outwards or sigma == 0:
            check(bool(np.all(m[ball(size, cc, r)] >= 1 - 1e-3)), f"soft sphere core {size} c={c} r={r} s={sigma}")
        rad = [int(rng.integers(1, s)) for s in size]
        m = cm.ellipsoid_mask(
            list(size), radii=list(rad), center=None if c is None else list(c), gaussian=sigma, gaussian_outwards=outwards
        )
        check(m.min() >= -1e-9 and m.max() <= 1 + 1e-9, f"soft ellipsoid outside [0,1] {size} rad={rad} s={sigma}")
        if outwards or sigma == 0:
            inside, _ = ell_sides(size, cc, rad)
            check(
                bool(np.all(np.asarray(m, dtype=float)[inside] >= 1 - 1e-3)),
                f"soft ellipsoid core {size} rad={rad} s={sigma}",
            )
        rc = int(rng.integers(1, max(size[:2])))
        h = int(rng.integers(1, 6))
        try:
            m = cm.cylindrical_mask(list(size), radius=rc, height=h, gaussian=sigma, gaussian_outwards=outwards)
        except ValueError:
            tick("soft cylinder, slab outside box (raises)")
        else:
            check(m.min() >= -1e-9 and m.max() <= 1 + 1e-9, f"soft cylinder outside [0,1] {size} s={sigma}")
            if outwards or sigma == 0:
                check(
                    bool(np.all(m[cyl(size, [s // 2 for s in size], rc, h)] >= 1 - 1e-3)),
                    f"soft cylinder core {size} r={rc} h={h} s={sigma}",
                )
        tick("soft edges")


# ---------------------------------------------------------------------------------------------------------------------
# set algebra
BIN_DTYPES = [np.float64, np.float32, bool, np.uint8, np.int8, np.int64, np.uint16]
tmpdir = tempfile.mkdtemp(prefix="c13_demo_")


def random_binary(size):
    kind = rng.integers(0, 4)
    if kind == 0:
        return rng.random(size) < rng.random()
    if kind == 1:
        return ball(size, rand_center(size), int(rng.integers(1, max(size))))
    if kind == 2:
        return cyl(size, rand_center(size), int(rng.integers(1, max(size))), int(rng.integers(1, 9)))
    return np.full(size, bool(rng.integers(0, 2)))  # all empty / all full


def dress(arr, n):
    """different memory layouts of the same values"""
    k = n % 5
    if k == 1:
        return np.asfortranarray(arr)
    if k == 2:
        big = np.zeros(tuple(2 * s for s in arr.shape), dtype=arr.dtype)
        view = big[::2, ::2, ::2]
        view[...] = arr
        return view
    if k == 3:
        ro = arr.copy()
        ro.flags.writeable = False
        return ro
    return arr


def snapshot(item):
    if isinstance(item, str):
        with open(item, "rb") as f:
            return ("file", hashlib.sha256(f.read()).hexdigest())
    return ("array", item.copy(), item.dtype, item.shape, item.strides, item.flags.writeable)


def unchanged(item, snap):
    if isinstance(item, str):
        return snapshot(item) == snap
    return (
        np.array_equal(item, snap[1], equal_nan=True)
        and item.dtype == snap[2]
        and item.shape == snap[3]
        and item.strides == snap[4]
        and item.flags.writeable == snap[5]
    )


def same(a, b):
    return (
        type(a) is type(b)
        and a.dtype == b.dtype
        and a.shape == b.shape
        and np.array_equal(a, b, equal_nan=True)
        and a.flags.c_contiguous == b.flags.c_contiguous
        and a.flags.f_contiguous == b.flags.f_contiguous
        and a.flags.writeable == b.flags.writeable
    )


OPS = ["union", "intersection", "subtraction", "difference"]


def expected(op, vals):
    """vals: list of float64 arrays with the values of the masks"""
    if op == "union":
        return np.clip(np.sum(vals, axis=0), 0, 1)
    if op == "intersection":
        return np.clip(np.prod(vals, axis=0), 0, 1)
    if op == "subtraction":
        return np.clip(vals[0] - np.sum(vals[1:], axis=0) if len(vals) > 1 else vals[0], 0, 1)
    return np.clip(np.clip(np.sum(vals, axis=0), 0, 1) - np.clip(np.prod(vals, axis=0), 0, 1), 0, 1)


def expected_bool(op, bits):
    any_ = np.logical_or.reduce(bits)
    all_ = np.logical_and.reduce(bits)
    if op == "union":
        return any_
    if op == "intersection":
        return all_
    if op == "subtraction":
        return bits[0] & ~np.logical_or.reduce(bits[1:]) if len(bits) > 1 else bits[0]
    return any_ & ~all_  # two masks: XOR


def run_case(items, values, bits, tag, container=list):
    """items: what is handed to the functions (arrays / paths); values: float64 values; bits: boolean values or None"""
    mask_list = container(items)
    ids = [id(x) for x in mask_list]
    snaps = [snapshot(x) for x in mask_list]
    if bits is not None and len(bits) == 2:
        check(np.array_equal(expected_bool("difference", bits), bits[0] ^ bits[1]), "xor")
    for op in OPS:
        new_f = getattr(cm, op)
        old_f = orig[op]
        res = new_f(mask_list)
        ref = old_f(mask_list)
        check(same(res, ref), f"{tag} {op}: differs from the original function")
        check(res.dtype == np.float64 and res.shape == values[0].shape, f"{tag} {op}: dtype / shape")
        check(res.min() >= 0.0 and res.max() <= 1.0, f"{tag} {op}: outside [0,1]")
        if bits is not None:
            check(
                np.array_equal(res, expected_bool(op, bits).astype(float)),
                f"{tag} {op}: not the voxel-wise boolean operation",
            )
        else:
            check(np.allclose(res, expected(op, values), rtol=0, atol=1e-12), f"{tag} {op}: not the clipped arithmetic")
        for x in mask_list:
            if not isinstance(x, str):
                check(not np.shares_memory(res, x), f"{tag} {op}: result shares memory with an input")
        # repeated call on the same objects
        res2 = new_f(mask_list)
        check(same(res, res2), f"{tag} {op}: repeated call differs")
        check(not np.shares_memory(res, res2), f"{tag} {op}: two calls return the same buffer")
        # inputs untouched
        check(
            len(mask_list) == len(ids) and all(id(x) == i for x, i in zip(mask_list, ids)), f"{tag} {op}: list changed"
        )
        check(all(unchanged(x, s) for x, s in zip(mask_list, snaps)), f"{tag} {op}: an input was modified")
        # results of earlier calls are not touched by later calls
        res_copy = res.copy()
        new_f(mask_list)
        check(np.array_equal(res, res_copy), f"{tag} {op}: earlier result changed by a later call")
        # the result is the caller's: writing into it does not reach the inputs
        res[...] = 0.5
        check(all(unchanged(x, s) for x, s in zip(mask_list, snaps)), f"{tag} {op}: result aliases an input")
        tick(op)


def to_path(arr, n):
    ext = ["em", "mrc"][n % 2]
    p = os.path.join(tmpdir, f"m{n}_{rng.integers(0, 10**9)}.{ext}")
    cryomap.write(np.asarray(arr, dtype=np.float32), p, data_type=np.single)
    return p


def algebra_part():
    # ---- binary masks, all dtypes and layouts ---------------------------------------------------------------------
    for n in range(150):
        size = rand_size(big=(n % 25 == 0))
        k = int(rng.integers(1, 6))
        bits = [random_binary(size) for _ in range(k)]
        if n % 6 == 0 and k > 1:
            bits[1] = bits[0].copy()  # equal masks
        items = [
            dress(b.astype(BIN_DTYPES[int(rng.integers(0, len(BIN_DTYPES)))]), n + q) for q, b in enumerate(bits)
        ]
        if n % 9 == 0 and k > 1:
            items[-1] = items[0]  # the very same object twice
            bits[-1] = bits[0]
        run_case(
            items, [b.astype(float) for b in bits], bits, f"binary#{n}", container=tuple if n % 10 == 3 else list
        )
    # ---- soft masks ---------------------------------------------------------------------------------------------
    for n in range(80):
        size = rand_size(big=(n % 20 == 0))
        k = int(rng.integers(1, 6))
        vals = []
        for q in range(k):
            kind = (n + q) % 4
            if kind == 0:
                v = rng.random(size)
            elif kind == 1:
                v = np.asarray(
                    cm.spherical_mask(size, radius=int(rng.integers(1, 8)), gaussian=float(rng.uniform(0.2, 3))),
                    dtype=float,
                )
            elif kind == 2:
                v = rng.random(size).astype(np.float32)
            else:
                v = np.clip(rng.normal(0.5, 0.5, size), 0, 1)  # many exact 0 and 1
            vals.append(v)
        items = [dress(v, n + q) for q, v in enumerate(vals)]
        run_case(items, [np.asarray(v, dtype=np.float64) for v in vals], None, f"soft#{n}")
    # ---- masks given by path (em / mrc), mixed with loaded ones -------------------------------------------------------
    for n in range(30):
        size = rand_size()
        k = int(rng.integers(1, 6))
        binary = bool(n % 2)
        vals = [
            random_binary(size).astype(np.float32) if binary else rng.random(size).astype(np.float32) for _ in range(k)
        ]
        items = [to_path(v, n * 10 + q) if (q + n) % 3 != 2 else v for q, v in enumerate(vals)]
        run_case(
            items, [v.astype(np.float64) for v in vals], [v > 0.5 for v in vals] if binary else None, f"paths#{n}"
        )
        # written output equals the returned mask (single precision)
        for op in OPS:
            out_new = os.path.join(tmpdir, f"out_new_{n}_{op}.mrc")
            out_old = os.path.join(tmpdir, f"out_old_{n}_{op}.mrc")
            r_new = getattr(cm, op)(items, output_name=out_new)
            r_old = orig[op](items, output_name=out_old)
            check(same(r_new, r_old), f"paths#{n} {op}: with output_name differs from original")
            check(np.array_equal(cryomap.read(out_new), r_new.astype(np.float32)), f"paths#{n} {op}: written file")
            check(np.array_equal(cryomap.read(out_new), cryomap.read(out_old)), f"paths#{n} {op}: written files differ")
        tick("paths + output_name")
    # ---- error behaviour is the same as before ------------------------------------------------------------------------
    a = np.ones((6, 7, 8))
    b = np.ones((6, 7, 9))
    a0, b0 = a.copy(), b.copy()
    for op in OPS:
        for bad, name in [
            ([], "empty list"),
            ([a, b], "shape mismatch"),
            ([a, 3], "bad entry"),
            ([3, a], "bad first entry"),
            ([a, "x.txt"], "bad path"),
        ]:
            outcome = []
            for f in (getattr(cm, op), orig[op]):
                try:
                    f(bad)
                    outcome.append("no error")
                except Exception as e:
                    outcome.append(type(e).__name__)
            check(outcome[0] == outcome[1], f"{op} on {name}: {outcome[0]} instead of {outcome[1]}")
        check(np.array_equal(a, a0) and np.array_equal(b, b0), f"{op}: inputs modified on the error path")
    tick("error cases")


try:
    shapes_part()
    algebra_part()
finally:
    shutil.rmtree(tmpdir, ignore_errors=True)

print("cases:", counts)
if fails:
    print(f"{len(fails)} check(s) failed")
    print("FAIL")
    sys.exit(1)
print("PASS")
sys.exit(0)
