import sys, os

sys.path.insert(0, os.getcwd())

import io
import contextlib
import tempfile
import warnings
import numpy as np
import pandas as pd

warnings.filterwarnings("ignore")

from cryocat import cryomotl, cryomap, geom, ioutils, tmana
from cryocat.cryomotl import Motl

FAILS = []


def fail(msg):
    FAILS.append(msg)
    print("FAIL:", msg)


def quiet(fn, *a, **k):
    with contextlib.redirect_stdout(io.StringIO()):
        return fn(*a, **k)


# --------------------------------------------------------------------------------------------------------------
# Part 1: Motl.clean_by_distance  --  independent reference + the predicates of the property
# --------------------------------------------------------------------------------------------------------------
COLS = list(Motl.motl_columns)


def make_motl_df(rng, n, n_groups, feature_id, metric_id, clustered=True, integer_scores=False, nan_holes=False):
    df = pd.DataFrame(np.zeros((n, len(COLS))), columns=COLS)
    if clustered:
        n_cent = max(1, n // 6)
        cent = rng.uniform(-50, 150, size=(n_cent, 3))
        pos = cent[rng.integers(0, n_cent, size=n)] + rng.normal(0, 4.0, size=(n, 3))
    else:
        pos = rng.uniform(-20, 60, size=(n, 3))
    base = np.round(pos)
    shifts = pos - base
    df[["x", "y", "z"]] = base
    df[["shift_x", "shift_y", "shift_z"]] = shifts
    df["tomo_id"] = 1.0
    df["object_id"] = 1.0
    df["class"] = 1.0
    df["subtomo_id"] = np.arange(1, n + 1, dtype=float)
    # group labels: not necessarily consecutive, may be negative or fractional
    labels = rng.choice(np.array([-3.0, 0.0, 2.0, 7.0, 11.5, 40.0]), size=n_groups, replace=False)
    df[feature_id] = labels[rng.integers(0, n_groups, size=n)]
    if integer_scores:
        # ties in the score: only the predicates are checked then
        df[metric_id] = rng.integers(-3, 4, size=n).astype(float)
    else:
        df[metric_id] = rng.normal(0, 1, size=n)  # negative values included
    df[["phi", "theta", "psi"]] = rng.uniform(-180, 180, size=(n, 3))
    df.loc[rng.random(n) < 0.15, "theta"] = rng.choice([0.0, 180.0])  # poles
    if nan_holes:
        free = [c for c in ("geom3", "geom4", "geom5", "subtomo_mean") if c not in (feature_id, metric_id)]
        for c in free:
            df.loc[rng.random(n) < 0.3, c] = np.nan
    return df


def positions(df):
    return df[["x", "y", "z"]].to_numpy(dtype=float) + df[["shift_x", "shift_y", "shift_z"]].to_numpy(dtype=float)


def all_dists(p):
    diff = p[:, None, :] - p[None, :, :]
    return np.sqrt((diff * diff).sum(axis=2))


def pick_radius(rng, df, feature_id):
    """a radius d > 0 such that no pair distance inside a group is within 1e-7 of d (exact ties excluded)"""
    p = positions(df)
    D = all_dists(p)
    same = df[feature_id].to_numpy()[:, None] == df[feature_id].to_numpy()[None, :]
    dd = D[same & ~np.eye(len(df), dtype=bool)]
    for _ in range(100):
        d = float(rng.choice([rng.uniform(0.05, 3), rng.uniform(3, 12), rng.uniform(12, 80), rng.uniform(80, 1000)]))
        if dd.size == 0 or np.min(np.abs(dd - d)) > 1e-7:
            return d
    raise RuntimeError("no radius found")


def ref_clean(df, d, feature_id, metric_id, keep_greater):
    """independent greedy suppression, returns the kept rows (group value ascending, original order inside)"""
    parts = []
    for f in sorted(set(df[feature_id].tolist())):
        g = df[df[feature_id] == f]
        p = positions(g)
        s = g[metric_id].to_numpy(dtype=float)
        n = len(g)
        order = sorted(range(n), key=(lambda i: -s[i]) if keep_greater else (lambda i: s[i]))
        D = all_dists(p)
        keep = np.ones(n, dtype=bool)
        for j in order:
            if keep[j]:
                rm = D[j] < d
                rm[j] = False
                keep[rm] = False
        parts.append(g[keep])
    return pd.concat(parts)


def same_rows(a, b):
    if a.shape[0] != b.shape[0]:
        return False
    A = a[COLS].to_numpy(dtype=float)
    B = b[COLS].to_numpy(dtype=float)
    return np.array_equal(A, B, equal_nan=True)


def check_clean_predicates(orig, out, d, feature_id, metric_id, keep_greater, tag):
    # every output row is an input row (identified by subtomo_id) carrying all its values
    o = orig.set_index("subtomo_id", drop=False)
    if out.shape[0] == 0:
        fail(f"{tag}: nothing kept")
        return
    ids = out["subtomo_id"].to_numpy()
    if len(set(ids.tolist())) != len(ids) or not set(ids.tolist()) <= set(o.index.tolist()):
        fail(f"{tag}: output rows are not a subset of the input rows")
        return
    if not same_rows(o.loc[ids], out):
        fail(f"{tag}: a kept row changed its values")
    if list(out.index) != list(range(out.shape[0])):
        fail(f"{tag}: index of the cleaned list is not 0..n-1")
    kept = np.isin(orig["subtomo_id"].to_numpy(), ids)
    p = positions(orig)
    s = orig[metric_id].to_numpy(dtype=float)
    f = orig[feature_id].to_numpy()
    D = all_dists(p)
    same = f[:, None] == f[None, :]
    K = np.where(kept)[0]
    # separated
    sub = D[np.ix_(K, K)].copy()
    sub[~same[np.ix_(K, K)]] = np.inf
    np.fill_diagonal(sub, np.inf)
    if sub.size and sub.min() < d:
        fail(f"{tag}: two remaining particles of one group are closer than d")
    # dominating
    for i in np.where(~kept)[0]:
        better = (s[K] >= s[i]) if keep_greater else (s[K] <= s[i])
        ok = same[i, K] & (D[i, K] < d) & better
        if not ok.any():
            fail(f"{tag}: removed particle {i} has no dominating remaining neighbour in its group")
            break


def run_clean(df, d, feature_id, metric_id, keep_greater):
    m = Motl(df.copy())
    quiet(m.clean_by_distance, d, feature_id, metric_id=metric_id, keep_greater=keep_greater)
    return m


def check_clean_case(rng, n, n_groups, feature_id, metric_id, keep_greater, tag, **kw):
    df = make_motl_df(rng, n, n_groups, feature_id, metric_id, **kw)
    if rng.random() < 0.5:  # non-default row index
        df.index = rng.permutation(n) * 3 + 5
    d = pick_radius(rng, df, feature_id)
    before = df.copy()
    m = run_clean(df, d, feature_id, metric_id, keep_greater)
    out = m.df
    if not same_rows(before, df) or list(before.index) != list(df.index):
        fail(f"{tag}: the caller's table was modified")
    check_clean_predicates(df, out, d, feature_id, metric_id, keep_greater, tag)
    if not kw.get("integer_scores", False):
        ref = ref_clean(df, d, feature_id, metric_id, keep_greater)
        if not same_rows(ref, out):
            fail(f"{tag}: differs from the independent greedy result ({ref.shape[0]} vs {out.shape[0]} rows)")
    # groups do not affect each other: every group cleaned alone gives the same rows
    for f in sorted(set(df[feature_id].tolist())):
        alone = run_clean(df[df[feature_id] == f], d, feature_id, metric_id, keep_greater).df
        part = out[out[feature_id] == f]
        if not same_rows(alone, part):
            fail(f"{tag}: group {f} cleaned alone differs from its part of the joint result")
    # repeated call on the same object: nothing more is removed
    quiet(m.clean_by_distance, d, feature_id, metric_id=metric_id, keep_greater=keep_greater)
    if not same_rows(out, m.df):
        fail(f"{tag}: second call on the cleaned list removed or changed rows")
    return df, d


def part1(seed=1234, n_random=70):
    rng = np.random.default_rng(seed)
    feats = ["tomo_id", "object_id", "class", "geom1", "geom2", "subtomo_mean"]
    mets = ["score", "geom4", "geom5"]
    # edge cases: single row, two rows, all in one cluster, 400 rows
    for kg in (True, False):
        check_clean_case(rng, 1, 1, "tomo_id", "score", kg, f"single-row kg={kg}")
        check_clean_case(rng, 2, 1, "tomo_id", "score", kg, f"two-row kg={kg}")
        check_clean_case(rng, 2, 2, "object_id", "score", kg, f"two-row two groups kg={kg}")
        check_clean_case(rng, 400, 4, "tomo_id", "score", kg, f"400 rows kg={kg}")
        check_clean_case(rng, 60, 3, "class", "score", kg, f"score ties kg={kg}", integer_scores=True)
        check_clean_case(rng, 80, 2, "geom1", "geom4", kg, f"NaN holes kg={kg}", nan_holes=True)
    for t in range(n_random):
        n = int(rng.choice([rng.integers(1, 8), rng.integers(8, 60), rng.integers(60, 200)]))
        ng = int(rng.integers(1, 5))
        fid = feats[int(rng.integers(0, len(feats)))]
        mid = mets[int(rng.integers(0, len(mets)))]
        kg = bool(rng.integers(0, 2))
        check_clean_case(
            rng, n, min(ng, 4), fid, mid, kg, f"random#{t} n={n} g={ng} {fid}/{mid} kg={kg}",
            clustered=bool(rng.integers(0, 2)), nan_holes=bool(rng.integers(0, 2)),
        )
    # integer lattice with a radius strictly between two lattice distances (no exact ties)
    g = np.array([[x, y, z] for x in range(5) for y in range(5) for z in range(4)], dtype=float)
    df = pd.DataFrame(np.zeros((len(g), len(COLS))), columns=COLS)
    df[["x", "y", "z"]] = g
    df["tomo_id"] = np.where(g[:, 0] < 2, 3.0, 9.0)
    df["subtomo_id"] = np.arange(1, len(g) + 1, dtype=float)
    df["score"] = rng.permutation(len(g)).astype(float)
    for d in (0.5, 1.2, 1.5, 2.1, 2.5, 3.3):
        for kg in (True, False):
            out = run_clean(df, d, "tomo_id", "score", kg).df
            check_clean_predicates(df, out, d, "tomo_id", "score", kg, f"lattice d={d} kg={kg}")
            if not same_rows(ref_clean(df, d, "tomo_id", "score", kg), out):
                fail(f"lattice d={d} kg={kg}: differs from the independent greedy result")


# --------------------------------------------------------------------------------------------------------------
# Part 2: tmana.scores_extract_particles  --  independent reference + the predicates of the property
# --------------------------------------------------------------------------------------------------------------
def make_maps(rng, shape, n_angles, numbering, dtype=np.float64, smooth=False):
    while True:
        sc = rng.normal(0.0, 1.0, size=shape)
        if smooth:
            from scipy.ndimage import gaussian_filter

            sc = gaussian_filter(sc, 1.0) * 5
        if np.unique(sc.astype(dtype)).size != sc.size:
            # values collide in the map's precision: keep the landscape, spread the values evenly (rank transform)
            rank = np.argsort(np.argsort(sc.ravel(), kind="stable"), kind="stable").reshape(shape)
            sc = rank / float(sc.size) * 8.0 - 4.0
        sc = sc.astype(dtype)
        if np.unique(sc).size == sc.size:  # plateau-free
            break
    am = rng.integers(numbering, numbering + n_angles, size=shape).astype(dtype)
    al = rng.uniform(-180, 180, size=(n_angles, 3))
    al[:, 1] = rng.uniform(0, 180, size=n_angles)
    al[0] = [0.0, 0.0, 0.0]  # poles
    if n_angles > 1:
        al[-1] = [90.0, 180.0, -90.0]
    if n_angles > 2:
        al[1] = [-180.0, 0.0, 180.0]
    return sc, am, np.round(al, 3)


def ref_peaks(sc, thr, diam):
    idx = np.argwhere(sc > thr)
    if idx.shape[0] == 0:
        return None
    vals = sc[idx[:, 0], idx[:, 1], idx[:, 2]]
    order = np.argsort(-vals.astype(np.float64), kind="stable")
    idx = idx[order]
    vals = vals[order]
    alive = np.ones(len(idx), dtype=bool)
    peaks = []
    d2lim = float(diam) * float(diam)
    for i in range(len(idx)):
        if not alive[i]:
            continue
        peaks.append(i)
        diff = (idx - idx[i]).astype(np.float64)
        d2 = (diff * diff).sum(axis=1)
        alive[(d2 <= d2lim)] = False
    return idx[peaks], vals[peaks]


def check_peaks(sc, am, expected_angles, numbering, thr, diam, motl, tomo_id, object_id, tag):
    ref = ref_peaks(sc, thr, diam)
    if ref is None:
        if motl is not None:
            fail(f"{tag}: peaks returned although nothing exceeds the threshold")
        return
    if motl is None:
        fail(f"{tag}: None returned although voxels exceed the threshold")
        return
    df = motl.df
    n = df.shape[0]
    pos1 = df[["x", "y", "z"]].to_numpy(dtype=float)
    vox = np.round(pos1).astype(int) - 1
    if not np.array_equal(vox + 1, pos1) or (vox < 0).any() or (vox >= np.array(sc.shape)).any():
        fail(f"{tag}: positions are not 1-based voxel positions")
        return
    s = df["score"].to_numpy(dtype=np.float64)
    vs = sc[vox[:, 0], vox[:, 1], vox[:, 2]].astype(np.float64)
    if not np.array_equal(s, vs):
        fail(f"{tag}: a peak does not carry its voxel's score")
    if not (vs > thr).all():
        fail(f"{tag}: a peak does not exceed the threshold")
    diff = (vox[:, None, :] - vox[None, :, :]).astype(float)
    d2 = (diff * diff).sum(axis=2)
    np.fill_diagonal(d2, np.inf)
    if n > 1 and not (d2 > float(diam) * float(diam)).all():
        fail(f"{tag}: two peaks are not farther apart than the diameter")
    # every supra-threshold voxel is dominated
    idx = np.argwhere(sc > thr)
    vals = sc[idx[:, 0], idx[:, 1], idx[:, 2]].astype(np.float64)
    dd = ((idx[:, None, :] - vox[None, :, :]).astype(float) ** 2).sum(axis=2)
    dom = ((dd <= float(diam) * float(diam)) & (vs[None, :] >= vals[:, None])).any(axis=1)
    if not dom.all():
        fail(f"{tag}: a supra-threshold voxel has no dominating peak within the diameter")
    # angles
    ai = am[vox[:, 0], vox[:, 1], vox[:, 2]].astype(int) - numbering
    exp = expected_angles[ai]
    got = df[["phi", "theta", "psi"]].to_numpy(dtype=float)
    if not np.array_equal(got, exp):
        fail(f"{tag}: Euler angles differ from the angle-list entry of the voxel")
    # exact agreement with the independent greedy extraction (order: descending score)
    rvox, rvals = ref
    if rvox.shape[0] != n or not np.array_equal(rvox, vox):
        fail(f"{tag}: peaks differ from the independent greedy extraction ({rvox.shape[0]} vs {n})")
    # bookkeeping columns
    if not (df["tomo_id"] == tomo_id).all() or not (df["object_id"] == (1 if object_id is None else object_id)).all():
        fail(f"{tag}: tomo_id / object_id wrong")
    if not np.array_equal(df["subtomo_id"].to_numpy(dtype=float), np.arange(1, n + 1, dtype=float)):
        fail(f"{tag}: subtomo_id is not 1..n")
    if not (df["class"] == 1).all():
        fail(f"{tag}: class is not 1")
    rest = [c for c in COLS if c not in ("x", "y", "z", "score", "phi", "theta", "psi", "tomo_id", "object_id", "subtomo_id", "class")]
    if not (df[rest].to_numpy(dtype=float) == 0).all():
        fail(f"{tag}: other columns are not zero")
    if sorted(df.columns) != sorted(COLS) or list(df.index) != list(range(n)):
        fail(f"{tag}: table layout wrong")


def zzx_view(al):
    """what a zzx angle list file (columns phi, psi, theta) holds for the zxz triples al"""
    return al[:, [0, 2, 1]]


def pick_threshold(rng, sc, max_supra=1500):
    flat = np.sort(sc.ravel().astype(np.float64))
    lo = flat[max(0, flat.size - max_supra)]
    choice = rng.integers(0, 4)
    if choice == 0:
        return float(flat[-1]) + 1.0  # nothing exceeds
    if choice == 1:
        return float(flat[-1 - int(rng.integers(0, min(5, flat.size)))])  # a value of the map itself (strict >)
    # representable in the map's own precision, so that "exceeds" means the same in every precision
    return float(sc.dtype.type(rng.uniform(lo, flat[-1])))


def part2_arrays(seed=99, n_random=60, extract=None):
    extract = extract or tmana.scores_extract_particles
    rng = np.random.default_rng(seed)
    shapes = [(1, 1, 1), (2, 3, 1), (5, 5, 5), (6, 7, 8), (9, 4, 11), (12, 12, 12), (16, 15, 14), (21, 20, 19), (40, 40, 40)]
    for t in range(n_random):
        shape = shapes[t % len(shapes)]
        numbering = int(rng.integers(0, 2))
        order = ["zxz", "zzx"][int(rng.integers(0, 2))]
        n_angles = int(rng.choice([1, 2, 5, 50]))
        dtype = [np.float64, np.float32][int(rng.integers(0, 2))]
        sc, am, al = make_maps(rng, shape, n_angles, numbering, dtype=dtype, smooth=bool(rng.integers(0, 2)))
        thr = pick_threshold(rng, sc, max_supra=400 if shape[0] == 40 else 1500)
        diam = float(rng.choice([rng.uniform(0.3, 1.0), rng.integers(1, 8), rng.uniform(1, 12), 5.0, 50.0]))
        tomo_id = int(rng.integers(1, 500))
        object_id = None if rng.random() < 0.3 else int(rng.integers(1, 20))
        sc0, am0, al0 = sc.copy(), am.copy(), al.copy()
        # an array angle list is taken as it is (phi, theta, psi in its columns) for either order
        m = quiet(
            extract, sc, am, al, tomo_id, diam, object_id=object_id, scores_threshold=thr,
            angles_order=order, angles_numbering=numbering,
        )
        tag = f"arrays#{t} {shape} {dtype.__name__} thr={thr:.4f} diam={diam:.3f} num={numbering} {order}"
        check_peaks(sc, am, al, numbering, thr, diam, m, tomo_id, object_id, tag)
        if not (np.array_equal(sc, sc0) and np.array_equal(am, am0) and np.array_equal(al, al0)):
            fail(f"{tag}: an input array was modified")
        if t % 7 == 0:  # repeated call on the same objects
            m2 = quiet(
                extract, sc, am, al, tomo_id, diam, object_id=object_id, scores_threshold=thr,
                angles_order=order, angles_numbering=numbering,
            )
            if (m is None) != (m2 is None) or (m is not None and not same_rows(m.df, m2.df)):
                fail(f"{tag}: repeated call gives a different result")


def write_inputs(tmp, sc, am, al, order, ext):
    """score / angle maps written as float32 map files, the angle list as csv in the column order of `order`"""
    sp = os.path.join(tmp, "scores" + ext)
    ap = os.path.join(tmp, "angles" + ext)
    lp = os.path.join(tmp, "anglist.csv")
    cryomap.write(sc, sp, data_type=np.single)
    cryomap.write(am, ap, data_type=np.single)
    cols = zzx_view(al) if order == "zzx" else al
    with open(lp, "w") as fh:
        for r in cols:
            fh.write(",".join(repr(float(v)) for v in r) + "\n")
    return sp, ap, lp


def part2_files(seed=7, n_random=16, wrap=str, extract=None):
    """the same property with the maps and the angle list given as files; `wrap` turns the path text into the
    argument that is passed (str by default)"""
    extract = extract or tmana.scores_extract_particles
    rng = np.random.default_rng(seed)
    shapes = [(4, 5, 6), (7, 7, 7), (10, 9, 8), (13, 14, 12), (2, 2, 9)]
    with tempfile.TemporaryDirectory() as tmp:
        for t in range(n_random):
            shape = shapes[t % len(shapes)]
            numbering = t % 2
            order = ["zxz", "zzx"][(t // 2) % 2]
            ext = [".em", ".mrc", ".rec"][t % 3]
            sc, am, al = make_maps(rng, shape, int(rng.choice([1, 3, 30])), numbering, dtype=np.float32)
            thr = pick_threshold(rng, sc)
            diam = float(rng.choice([rng.integers(1, 6), rng.uniform(0.5, 9)]))
            sp, ap, lp = write_inputs(tmp, sc, am, al, order, ext)
            m = quiet(
                extract, wrap(sp), wrap(ap), wrap(lp), 17, diam, object_id=4, scores_threshold=thr,
                angles_order=order, angles_numbering=numbering,
            )
            tag = f"files#{t} {shape} {ext} thr={thr:.4f} diam={diam:.3f} num={numbering} {order} {wrap.__name__}"
            check_peaks(sc, am, al, numbering, thr, diam, m, 17, 4, tag)
            # mixed: file maps, array list
            m = quiet(
                extract, wrap(sp), am, al, 17, diam, object_id=4, scores_threshold=thr,
                angles_order=order, angles_numbering=numbering,
            )
            check_peaks(sc, am, al, numbering, thr, diam, m, 17, 4, tag + " mixed")


def finish():
    if FAILS:
        print(f"{len(FAILS)} failure(s)")
        print("FAIL")
        sys.exit(1)
    print("PASS")
    sys.exit(0)


# --------------------------------------------------------------------------------------------------------------
# Part 3 (change b): cryomap.read / ioutils.rot_angles_load of the tree against the original texts
# --------------------------------------------------------------------------------------------------------------
import re
import pathlib
import emfile
import mrcfile


def read_original(input_map, transpose=True, data_type=None):
    if isinstance(input_map, str):

        def valid_mrc(filename):
            pattern = r"\.(mrc|ali|rec|st)(\.\d+)?$"
            return bool(re.search(pattern, filename))

        if valid_mrc(input_map):
            data = mrcfile.open(input_map).data
        elif input_map.endswith(".em"):
            data = emfile.read(input_map)[1]
        else:
            raise ValueError("The input map file name", input_map, "is neither em or mrc file!")

        if transpose:
            data = data.transpose(2, 1, 0)
    elif isinstance(input_map, np.ndarray):
        data = np.array(input_map)
    else:
        raise ValueError(f"Input map must be path to valid file or nparray")

    data = np.array(data, copy=True)
    if data_type is not None:
        data = data.astype(data_type)

    return data


def rot_angles_load_original(input_angles, angles_order="zxz"):
    if isinstance(input_angles, str):
        # Not all strings are valid: file can not exist
        if not os.path.exists(input_angles):
            raise ValueError(f"File '{input_angles}' does not exist.")

        angles = pd.read_csv(input_angles, header=None)
        # Check valid data
        if len(angles.columns) != 3:
            raise ValueError(f"File '{input_angles}' does not contain valid data.")

        if angles_order == "zzx":
            angles.columns = ["phi", "psi", "theta"]
        else:
            angles.columns = ["phi", "theta", "psi"]

        angles = angles.loc[:, ["phi", "theta", "psi"]].to_numpy()

    elif isinstance(input_angles, np.ndarray):
        angles = input_angles.copy()
    else:
        raise ValueError("The input_angles have to be either a valid path to a file or numpy array!!!")

    return angles


def same_array(a, b):
    return (
        type(a) is type(b) and a.shape == b.shape and a.dtype == b.dtype and np.array_equal(a, b, equal_nan=True)
        and a.flags.c_contiguous == b.flags.c_contiguous and a.flags.f_contiguous == b.flags.f_contiguous
        and a.flags.writeable == b.flags.writeable
    )


def outcome(fn, *a, **k):
    try:
        return ("ok", fn(*a, **k))
    except Exception as e:
        return ("raise", type(e), e.args)


def same_outcome(o1, o2):
    if o1[0] != o2[0]:
        return False
    if o1[0] == "raise":
        return o1[1] is o2[1] and o1[2] == o2[2]
    return same_array(o1[1], o2[1])


def tree_accepts_path_objects(tmp):
    p = os.path.join(tmp, "probe.em")
    cryomap.write(np.zeros((2, 2, 2), dtype=np.float32), p)
    try:
        cryomap.read(pathlib.Path(p))
        return True
    except ValueError:
        return False


def part3(seed=21):
    rng = np.random.default_rng(seed)
    with tempfile.TemporaryDirectory() as tmp:
        # arrays of several types, layouts and sizes
        arrs = []
        for shape in [(1, 1, 1), (3, 4, 5), (8, 8, 8), (7, 2, 9), (40, 40, 40), (0, 3, 3), (5, 6)]:
            for dt in (np.float64, np.float32, np.int16, np.uint8):
                a = (rng.normal(0, 50, size=shape)).astype(dt)
                arrs.append(a)
        arrs.append(np.asfortranarray(rng.normal(size=(4, 5, 6))))
        arrs.append(rng.normal(size=(6, 8, 10))[::2, ::2, ::2])
        ro = rng.normal(size=(3, 3, 3))
        ro.flags.writeable = False
        arrs.append(ro)
        hole = rng.normal(size=(3, 4, 5))
        hole[1, 2, 3] = np.nan
        arrs.append(hole)
        for a in arrs:
            keep = a.copy()
            for tr in (True, False):
                for dt in (None, np.float32, np.float64, int):
                    o1 = outcome(read_original, a, transpose=tr, data_type=dt)
                    o2 = outcome(cryomap.read, a, transpose=tr, data_type=dt)
                    if not same_outcome(o1, o2):
                        fail(f"read array {a.shape} {a.dtype} transpose={tr} data_type={dt}: tree differs from original")
                    if o2[0] == "ok" and (o2[1] is a or np.shares_memory(o2[1], a)):
                        fail(f"read array {a.shape}: the returned array shares memory with the input")
            if not np.array_equal(keep, a, equal_nan=True):
                fail("read: input array modified")
        # files
        n = 0
        for shape in [(1, 1, 1), (3, 4, 5), (8, 8, 8), (7, 2, 9), (17, 16, 15)]:
            for ext in (".em", ".mrc", ".rec"):
                for dt in (np.float32, np.int16):
                    a = (rng.normal(0, 50, size=shape)).astype(dt)
                    p = os.path.join(tmp, f"m{n}{ext}")
                    n += 1
                    cryomap.write(a, p)
                    for tr in (True, False):
                        for dtt in (None, np.float64):
                            o1 = outcome(read_original, p, transpose=tr, data_type=dtt)
                            o2 = outcome(cryomap.read, p, transpose=tr, data_type=dtt)
                            if not same_outcome(o1, o2):
                                fail(f"read file {p} transpose={tr} data_type={dtt}: tree differs from original")
                    got = cryomap.read(p)
                    if not (got.shape == a.shape and np.array_equal(got, a) and got.dtype == a.dtype):
                        fail(f"read file {p}: the voxels written are not the voxels read")
        # numbered mrc names and wrong names
        a = rng.normal(size=(3, 4, 5)).astype(np.float32)
        p = os.path.join(tmp, "stack.mrc")
        cryomap.write(a, p)
        for name in ("stack.mrc.1", "stack.st", "stack.ali"):
            q = os.path.join(tmp, name)
            with open(p, "rb") as src, open(q, "wb") as dst:
                dst.write(src.read())
            if not same_outcome(outcome(read_original, q), outcome(cryomap.read, q)):
                fail(f"read {name}: tree differs from original")
        bad_inputs = [os.path.join(tmp, "x.txt"), os.path.join(tmp, "missing.em"), "", 5, None, 3.5, [1, 2, 3],
                      (p, "x"), p.encode(), {"a": 1}]
        for bad in bad_inputs:
            if not same_outcome(outcome(read_original, bad), outcome(cryomap.read, bad)):
                fail(f"read {bad!r}: tree differs from original")

        # angle lists
        lists = []
        for k in (1, 2, 5, 200):
            al = np.round(rng.uniform(-180, 180, size=(k, 3)), 4)
            al[0] = [0.0, 0.0, 0.0]
            lists.append(al)
        lists.append(np.array([[0, 180, 0], [90, 0, -90]]))  # integers, poles
        lists.append((np.round(rng.uniform(-180, 180, size=(4, 3)) * 4) / 4).astype(np.float32))  # short decimals
        for i, al in enumerate(lists):
            keep = al.copy()
            for order in ("zxz", "zzx", "other"):
                o1 = outcome(rot_angles_load_original, al, order)
                o2 = outcome(ioutils.rot_angles_load, al, order)
                if not same_outcome(o1, o2):
                    fail(f"rot_angles_load array#{i} {order}: tree differs from original")
                if o2[0] == "ok" and np.shares_memory(o2[1], al):
                    fail(f"rot_angles_load array#{i}: result shares memory with the input")
                lp = os.path.join(tmp, f"list{i}.csv")
                with open(lp, "w") as fh:
                    for r in al:
                        fh.write(",".join(repr(float(v)) for v in r) + "\n")
                o1 = outcome(rot_angles_load_original, lp, order)
                o2 = outcome(ioutils.rot_angles_load, lp, order)
                if not same_outcome(o1, o2):
                    fail(f"rot_angles_load file#{i} {order}: tree differs from original")
                exp = al.astype(float)[:, [0, 2, 1]] if order == "zzx" else al.astype(float)
                if o2[0] != "ok" or not np.array_equal(o2[1], exp):
                    fail(f"rot_angles_load file#{i} {order}: wrong angles")
            if not np.array_equal(keep, al):
                fail("rot_angles_load: input modified")
        two = os.path.join(tmp, "two.csv")
        with open(two, "w") as fh:
            fh.write("1,2\n3,4\n")
        for bad in (two, os.path.join(tmp, "nope.csv"), "random", 7, None, [[1, 2, 3]], (two, "zxz"), two.encode()):
            if not same_outcome(outcome(rot_angles_load_original, bad), outcome(ioutils.rot_angles_load, bad)):
                fail(f"rot_angles_load {bad!r}: tree differs from original")

        # path objects: only a tree that accepts them is asked; they must behave as their text form
        if tree_accepts_path_objects(tmp):
            print("tree accepts path objects: checking them against the text form")
            a = rng.normal(size=(5, 6, 7)).astype(np.float32)
            for ext in (".em", ".mrc"):
                p = os.path.join(tmp, "po" + ext)
                cryomap.write(a, p)
                for tr in (True, False):
                    if not same_outcome(outcome(cryomap.read, p, transpose=tr), outcome(cryomap.read, pathlib.Path(p), transpose=tr)):
                        fail(f"read Path {ext}: differs from the text form")
            lp = os.path.join(tmp, "list0.csv")
            for order in ("zxz", "zzx"):
                if not same_outcome(outcome(ioutils.rot_angles_load, lp, order), outcome(ioutils.rot_angles_load, pathlib.Path(lp), order)):
                    fail("rot_angles_load Path: differs from the text form")
            for bad in (pathlib.Path(tmp) / "x.txt", pathlib.Path(tmp) / "missing.em"):
                if not same_outcome(outcome(cryomap.read, str(bad)), outcome(cryomap.read, bad)):
                    fail(f"read {bad!r}: differs from the text form")
            if not same_outcome(outcome(ioutils.rot_angles_load, os.path.join(tmp, "nope.csv")),
                                outcome(ioutils.rot_angles_load, pathlib.Path(tmp) / "nope.csv")):
                fail("rot_angles_load missing Path: differs from the text form")
            part2_files(seed=8, n_random=8, wrap=pathlib.Path)
        else:
            print("tree does not accept path objects (unmodified behaviour)")


if __name__ == "__main__":
    part1()
    part2_arrays()
    part2_files()
    part3()
    finish()
