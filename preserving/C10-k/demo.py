"""C10 demo (change a): cyclic symmetry expansion places subunits on the symmetry orbit.

Run as:  cd /tmp/wt7/C10 && /venv/bin/python /tmp/seedsS/C10/a/demo.py

Part 1 checks the property against an independent numpy computation (hand-written Rz/Rx matrices, no scipy, no
cryocat helpers) for every n in 1..64, spelled 'Cn', 'cn' and as a number, over random and edge-case particle lists.
Part 2 runs the ORIGINAL text of split_in_asymmetric_subunits (kept below) side by side with the function of the
tree and demands bit-identical tables (values, dtypes, index, column order) and the same outcome class on the
boundary inputs the idiom of this change is notorious for.
"""
import os
import sys

sys.path.insert(0, os.getcwd())

import copy
import warnings

import numpy as np
import pandas as pd

warnings.simplefilter("ignore")

from cryocat import cryomotl
from cryocat.cryomotl import Motl

VARIANT = "a"
# True: an input that made the original raise must raise the same exception type now.
# False (change b only): it must still raise, but the type may be more specific.
STRICT_EXCEPTION_TYPE = True

ORIGINAL_SOURCE = r'''
def split_in_asymmetric_subunits(self, symmetry, xyz_shift):
    """Split the motive list into assymetric subunits.

    Parameters
    ----------
    symmetry : str or number
        Symmetry to be used. Currently cyclic and dihedral symmetry are supported. Cx or
        cx specify the cyclic symmetry of order x, Dx or dx dihedral symmetry of order x. If symmetry is specified
        as int/float, cyclic symmetry is assumed.
    xyz_shift : numpy.ndarray
        Shift by which the center of current particles should be shifted to be centered at first
        subunit.

    Returns
    -------
    :class:`Motl`
        Splitted particle list.

    Warnings
    --------
    This method does not preserve a child class - it always returns :class:`Motl`.

    """
    if isinstance(symmetry, str):
        nfold = int(re.findall(r"\d+", symmetry)[-1])
        if symmetry.lower().startswith("c"):
            s_type = 1  # c symmetry
        elif symmetry.lower().startswith("d"):
            s_type = 2  # d symmetry
        else:
            ValueError("Unknown symmetry - currently only c and are supported!")
    elif isinstance(symmetry, (int, float)):
        s_type = 1  # c symmetry
        nfold = symmetry
    else:
        ValueError(
            "The symmetry has to be specified as a string (starting with c or d) or as a number (float, int)!"
        )

    inplane_step = 360 / nfold

    if s_type == 1:
        n_subunits = nfold
        phi_angles = np.arange(n_subunits) * inplane_step
        new_angles = np.zeros((n_subunits, 3))
        new_angles[:, 0] = phi_angles
    elif s_type == 2:
        n_subunits = nfold * 2
        in_plane_offset = int(inplane_step / 2)
        new_angles = np.zeros((n_subunits, 3))
        new_angles[0::2, 0] = np.arange(0, 360, int(inplane_step))
        new_angles[1::2, 0] = np.arange(0 + in_plane_offset, 360 + in_plane_offset, int(inplane_step))
        new_angles[1::2, 1] = 180

        phi_angles = new_angles[:, 0].copy()

    phi_angles = phi_angles.reshape(
        n_subunits,
    )

    # make up vectors
    starting_vector = np.array(xyz_shift)
    rho = np.sqrt(starting_vector[0] ** 2 + starting_vector[1] ** 2)
    the = np.arctan2(starting_vector[1], starting_vector[0])

    rot_rho = np.full((n_subunits,), rho)
    rep_the = np.full((n_subunits,), the) + np.deg2rad(phi_angles)
    rep_z = np.full((n_subunits,), starting_vector[2])

    if s_type == 2:
        rep_z[1::2] *= -1

    # https://stackoverflow.com/questions/20924085/python-conversion-between-coordinates
    # [center_shift(:, 1), center_shift(:, 2), center_shift(:, 3)] = pol2cart([0;0.785398163397448;1.570796326794897;2.356194490192345;3.141592653589793;3.926990816987241;4.712388980384690;5.497787143782138], repmat(10,8,1), repmat(0,8,1));
    center_shift = np.zeros([rot_rho.shape[0], 3])
    center_shift[:, 0] = rot_rho * np.cos(rep_the)
    center_shift[:, 1] = rot_rho * np.sin(rep_the)
    center_shift[:, 2] = rep_z

    new_motl_df = pd.concat([self.df] * n_subunits)

    new_motl_df["geom5"] = new_motl_df["subtomo_id"]
    new_motl_df = new_motl_df.sort_values(by="subtomo_id")
    new_motl_df["geom2"] = np.tile(np.arange(1, n_subunits + 1).reshape(n_subunits, 1), (len(self.df), 1))

    euler_angles = new_motl_df[["phi", "theta", "psi"]]
    rotations = rot.from_euler(seq="zxz", angles=euler_angles, degrees=True)
    center_shift = np.tile(center_shift, (len(self.df), 1))
    new_angles = np.tile(new_angles, (len(self.df), 1))
    new_motl_df.loc[:, ["shift_x", "shift_y", "shift_z"]] = new_motl_df.loc[
        :, ["shift_x", "shift_y", "shift_z"]
    ] + rotations.apply(center_shift)

    new_rotations = rotations * rot.from_euler(seq="zxz", angles=new_angles, degrees=True)
    new_motl_df.loc[:, ["phi", "theta", "psi"]] = new_rotations.as_euler(seq="zxz", degrees=True)

    new_motl_df["subtomo_id"] = np.arange(1, len(new_motl_df) + 1)
    new_motl = Motl(new_motl_df)
    new_motl.update_coordinates()
    new_motl.df.reset_index(inplace=True, drop=True)
    return new_motl
'''

_ns = {}
exec(compile(ORIGINAL_SOURCE, "<original split_in_asymmetric_subunits>", "exec"), cryomotl.__dict__, _ns)
original_split = _ns["split_in_asymmetric_subunits"]

COLS = list(Motl.motl_columns)
CARRIED = ["score", "geom1", "tomo_id", "object_id", "subtomo_mean", "geom3", "geom4", "class"]
failures = []
n_checks = 0


def fail(msg):
    failures.append(msg)
    if len(failures) <= 20:
        print("FAIL:", msg)


# ---------------------------------------------------------------- independent model
def Rz(deg):
    a = np.deg2rad(deg)
    return np.array([[np.cos(a), -np.sin(a), 0.0], [np.sin(a), np.cos(a), 0.0], [0.0, 0.0, 1.0]])


def Rx(deg):
    a = np.deg2rad(deg)
    return np.array([[1.0, 0.0, 0.0], [0.0, np.cos(a), -np.sin(a)], [0.0, np.sin(a), np.cos(a)]])


def euler_matrix(phi, theta, psi):
    # extrinsic z-x-z: first about z by phi, then about x by theta, then about z by psi
    return Rz(psi) @ Rx(theta) @ Rz(phi)


def check_property(inp, out, n, s, tag):
    """inp: the input table (as handed to Motl), out: the table of the returned Motl."""
    global n_checks
    n_checks += 1
    s = np.asarray(s, dtype=float)
    if list(out.columns) != list(inp.columns):
        return fail(f"{tag}: columns changed")
    if len(out) != n * len(inp):
        return fail(f"{tag}: {len(out)} rows for {len(inp)} particles, n={n}")
    if list(out.index) != list(range(len(out))):
        return fail(f"{tag}: index of the result is not 0..N-1")
    ids = out["subtomo_id"].to_numpy()
    if len(np.unique(ids)) != len(ids) or np.isnan(ids).any():
        return fail(f"{tag}: subtomo_id not unique")
    parents = inp.sort_values("subtomo_id", kind="stable")
    o = out.to_numpy(dtype=float).reshape(len(inp), n, len(COLS))
    ci = {c: i for i, c in enumerate(out.columns)}
    for p, (_, prow) in enumerate(parents.iterrows()):
        Rp = euler_matrix(prow["phi"], prow["theta"], prow["psi"])
        centre = np.array([prow[c] + prow["shift_" + c] for c in "xyz"])
        scale = max(1.0, np.abs(centre).max(), np.abs(s).max())
        for k in range(n):
            r = o[p, k]
            if r[ci["geom5"]] != prow["subtomo_id"]:
                return fail(f"{tag}: geom5 {r[ci['geom5']]} != parent {prow['subtomo_id']}")
            if r[ci["geom2"]] != k + 1:
                return fail(f"{tag}: geom2 {r[ci['geom2']]} != {k + 1}")
            for c in CARRIED:
                a, b = r[ci[c]], prow[c]
                if not (a == b or (np.isnan(a) and np.isnan(b))):
                    return fail(f"{tag}: field {c} not carried ({a} vs {b})")
            expected_R = Rp @ Rz(360.0 * k / n)
            got_R = euler_matrix(r[ci["phi"]], r[ci["theta"]], r[ci["psi"]])
            if not np.allclose(got_R, expected_R, atol=1e-9, rtol=0):
                return fail(f"{tag}: orientation of subunit {k} is not R*Rz(360k/n)")
            xyz = np.array([r[ci["x"]], r[ci["y"]], r[ci["z"]]])
            sh = np.array([r[ci["shift_x"]], r[ci["shift_y"]], r[ci["shift_z"]]])
            if not np.array_equal(xyz, np.round(xyz)):
                return fail(f"{tag}: x,y,z not whole numbers")
            if np.abs(sh).max() > 0.5:
                return fail(f"{tag}: |shift| > 0.5")
            pos = xyz + sh
            if not np.allclose(pos, centre + expected_R @ s, atol=1e-9 * scale, rtol=0):
                return fail(f"{tag}: position of subunit {k} off the orbit")
            # maps back to the parent's centre with the subunit's OWN orientation
            if not np.allclose(pos - got_R @ s, centre, atol=1e-8 * scale, rtol=0):
                return fail(f"{tag}: subunit {k} does not map back to the parent's centre")


# ---------------------------------------------------------------- inputs
def random_table(rng, n_rows, index="default", holes=False, poles=False, halves=False, zeros=False):
    df = pd.DataFrame(0.0, index=range(n_rows), columns=COLS)
    df["score"] = rng.uniform(-1, 1, n_rows)
    df["geom1"] = rng.integers(-3, 4, n_rows).astype(float)
    df["geom2"] = rng.integers(0, 9, n_rows).astype(float)
    df["subtomo_id"] = rng.permutation(np.arange(1, 3 * n_rows + 1))[:n_rows].astype(float)
    df["tomo_id"] = rng.integers(0, 4, n_rows).astype(float)
    df["object_id"] = rng.integers(0, 5, n_rows).astype(float)
    df["subtomo_mean"] = rng.uniform(-5, 5, n_rows)
    df[["x", "y", "z"]] = rng.integers(-300, 2000, (n_rows, 3)).astype(float)
    df[["shift_x", "shift_y", "shift_z"]] = rng.uniform(-8, 8, (n_rows, 3))
    df[["geom3", "geom4", "geom5"]] = rng.uniform(-9, 9, (n_rows, 3))
    df["phi"] = rng.uniform(-360, 360, n_rows)
    df["theta"] = rng.uniform(0, 180, n_rows)
    df["psi"] = rng.uniform(-360, 360, n_rows)
    df["class"] = rng.integers(0, 3, n_rows).astype(float)
    if poles:
        df["theta"] = rng.choice([0.0, 180.0, -180.0, 360.0, 90.0], n_rows)
        df["phi"] = rng.choice([0.0, 180.0, -180.0, 360.0, 33.0, -90.0], n_rows)
        df["psi"] = rng.choice([0.0, 180.0, -180.0, 360.0, -47.5, 90.0], n_rows)
    if halves:
        df[["shift_x", "shift_y", "shift_z"]] = rng.choice([0.5, -0.5, 1.5, -1.5, 2.5, -2.5, 0.0], (n_rows, 3))
    if zeros:
        df[["x", "y", "z", "shift_x", "shift_y", "shift_z", "phi", "theta", "psi"]] = 0.0
        df[["tomo_id", "object_id", "class", "score", "geom1"]] = 0.0
    if holes:
        for c in ["score", "geom1", "geom2", "object_id", "subtomo_mean", "geom3", "geom4", "geom5", "class"]:
            df.loc[rng.random(n_rows) < 0.4, c] = np.nan
    if index == "shuffled":
        df.index = rng.permutation(np.arange(100, 100 + n_rows))
    elif index == "duplicated":
        df.index = rng.integers(5, 8, n_rows)
    elif index == "labels":
        df.index = [f"p{i}" for i in rng.permutation(n_rows)]
    return df


OFFSETS = [
    np.array([10.0, 0.0, 0.0]),
    np.array([10, 0, 0]),  # integer array, as in the repository's tests
    np.array([0.0, 0.0, 7.5]),  # on the axis
    np.array([0.0, 0.0, 0.0]),  # no offset at all
    np.array([-0.0, 0.0, -3.0]),
    np.array([-4.25, 11.5, -6.0]),
    np.array([0.0, -12.0, 2.0]),
    [3.5, -2.0, 1.0],  # plain list
    (0, 5, -2),  # tuple of ints
    np.array([1e-9, -1e-9, 0.25]),
]
# single precision offsets are computed in single precision (rho, theta), so only original-vs-tree is compared for them
OFFSET_F32 = np.array([1.5, 2.5, 3.5], dtype=np.float32)


def spellings(n, rng):
    return [f"C{n}", f"c{n}", int(n)][int(rng.integers(0, 3))]


def run(fn, table, symmetry, offset):
    """-> ('ok', DataFrame) or ('raise', exception type name)"""
    m = Motl(table.copy())
    try:
        with warnings.catch_warnings():
            warnings.simplefilter("ignore")
            res = fn(m, symmetry, copy.deepcopy(offset))
    except Exception as err:  # noqa: BLE001 - the outcome class is what is compared
        return "raise", type(err).__name__, m
    return "ok", res, m


def same_table(a, b):
    return (
        list(a.columns) == list(b.columns)
        and list(a.index) == list(b.index)
        and list(a.dtypes) == list(b.dtypes)
        and a.equals(b)
        # the sign of a zero is part of "bit-identical"
        and np.array_equal(np.signbit(a.to_numpy(dtype=float)), np.signbit(b.to_numpy(dtype=float)))
    )


def compare(table, symmetry, offset, tag, in_quantifier=True, n=None):
    before = table.copy()
    kind_o, res_o, m_o = run(original_split, table, symmetry, offset)
    kind_t, res_t, m_t = run(Motl.split_in_asymmetric_subunits, table, symmetry, offset)
    if kind_o == "ok":
        if kind_t != "ok":
            return fail(f"{tag}: original returned a list, the tree raises {res_t}")
        if type(res_t) is not Motl:
            return fail(f"{tag}: result is not a Motl")
        if not same_table(res_o.df, res_t.df):
            return fail(f"{tag}: tables of original and tree differ")
        if not same_table(m_t.df, before) or not same_table(m_o.df, before):
            return fail(f"{tag}: the input list was modified")
        if in_quantifier:
            check_property(before, res_t.df, n, offset, tag)
    else:
        if in_quantifier:
            return fail(f"{tag}: original raises {res_o} inside the quantifier")
        if kind_t != "raise":
            return fail(f"{tag}: original raised {res_o}, the tree goes on")
        if STRICT_EXCEPTION_TYPE and res_o != res_t:
            return fail(f"{tag}: original raised {res_o}, the tree raises {res_t}")
    return kind_t, res_t


# ---------------------------------------------------------------- part 1 + 2: inside the quantifier
rng = np.random.default_rng(int(os.environ.get("DEMO_SEED", "20240610")))

# every n in 1..64, every spelling, small list with non-default index, every offset in turn
for n in range(1, 65):
    for j, sym in enumerate([f"C{n}", f"c{n}", n]):
        tab = random_table(rng, 3, index=["default", "shuffled", "labels"][j], holes=(n % 2 == 0), poles=(n % 5 == 0))
        compare(tab, sym, OFFSETS[(3 * n + j) % len(OFFSETS)], f"n={n} sym={sym!r}", n=n)

# edge-case lists x all offsets
edge_tables = {
    "single row": random_table(rng, 1),
    "single row, poles": random_table(rng, 1, poles=True),
    "single row, all zero": random_table(rng, 1, zeros=True),
    "two rows, halves": random_table(rng, 2, halves=True),
    "poles+halves+holes, duplicated index": random_table(rng, 7, index="duplicated", poles=True, halves=True, holes=True),
    "labels index, holes": random_table(rng, 5, index="labels", holes=True),
}
for name, tab in edge_tables.items():
    for off in OFFSETS:
        n = int(rng.choice([1, 2, 3, 7, 11, 13, 16, 64]))
        compare(tab, spellings(n, rng), off, f"{name} n={n} off={off!r}", n=n)

# sizes up to the upper end of the quantifier
for n_rows, n in [(17, 7), (40, 13), (100, 1), (100, 9), (100, 64), (64, 64)]:
    tab = random_table(rng, n_rows, index="shuffled", holes=True)
    compare(tab, spellings(n, rng), OFFSETS[int(rng.integers(0, len(OFFSETS)))], f"{n_rows} particles n={n}", n=n)

# integer-typed bookkeeping columns (ids as int64), float geometry
tab = random_table(rng, 6, index="shuffled")
tab = tab.astype({"subtomo_id": "int64", "tomo_id": "int64", "object_id": "int64", "geom2": "int64", "class": "int64"})
for n in (1, 5, 14):
    compare(tab, f"C{n}", OFFSETS[5], f"int id columns n={n}", n=n)

# repeated calls on the same object: nothing accumulates, the input stays as it was
tab = random_table(rng, 4, index="shuffled", holes=True)
m = Motl(tab.copy())
first = m.split_in_asymmetric_subunits("C7", OFFSETS[5])
off_list = [3.5, -2.0, 1.0]
for rep in range(3):
    again = m.split_in_asymmetric_subunits("c7", OFFSETS[5])
    other = m.split_in_asymmetric_subunits(5, off_list)
    if not same_table(first.df, again.df):
        fail("repeated call gives a different table")
    check_property(tab, again.df, 7, OFFSETS[5], "repeated C7")
    check_property(tab, other.df, 5, off_list, "repeated 5")
if not same_table(m.df, tab) or off_list != [3.5, -2.0, 1.0]:
    fail("repeated calls modified the input list or the offset")
# splitting the result again (a second generation) is itself inside the quantifier
second = first.split_in_asymmetric_subunits("C2", OFFSETS[0])
check_property(first.df, second.df, 2, OFFSETS[0], "second generation")
compare(first.df, "C2", OFFSETS[0], "second generation (orig vs tree)", n=2)

# ---------------------------------------------------------------- part 2: boundary inputs of the idiom (outside the quantifier too)
tab = random_table(rng, 2)
outside = [
    "D1", "D2", "d3", "D4", "d6", "D7", "D11", "d360",  # dihedral: same function, other branch
    "x5", "5", " C5", "C", "", "D", "Cn", "sym", "C0", "c00", "C2.5", "C-3", "C3D2", "D2C3", "CC4", "İ3", "Ç4",
    0, -2, 3.0, 2.5, 0.0, True, False, np.int64(3), np.float64(4.0), None, [3], ("C", 3), b"C3", 3 + 0j,
]
for sym in outside:
    for off in (OFFSETS[0], OFFSETS[5], OFFSETS[2]):
        compare(tab, sym, off, f"outside sym={sym!r}", in_quantifier=False)
# strings that are inside the quantifier although they look odd: leading zeros, upper/lower case
for sym, n in [("C07", 7), ("c007", 7), ("C1", 1), ("c64", 64), ("C12", 12)]:
    compare(tab, sym, OFFSETS[5], f"odd spelling {sym!r}", n=n)
for sym in ("C1", "c7", 12, "D3"):
    compare(tab, sym, OFFSET_F32, f"float32 offset sym={sym!r}", in_quantifier=False)
# malformed offsets / tables: same outcome class as before
for off in ([1.0, 2.0], [], None, "abc", np.array([[1.0, 2.0, 3.0]]), np.array([1, 2, 3], dtype=np.uint8),
            np.array([np.nan, 1.0, 2.0]), np.array([np.inf, 1.0, 2.0]), [1.0, 2.0, 3.0, 4.0]):
    for sym in ("C3", 4, "D2"):
        compare(tab, sym, off, f"malformed offset {off!r} sym={sym!r}", in_quantifier=False)
int_tab = random_table(rng, 2).round().astype("int64")
obj_tab = random_table(rng, 2).astype(object)
nan_tab = random_table(rng, 3)
nan_tab.loc[1, ["phi", "shift_x"]] = np.nan
empty_tab = random_table(rng, 2).iloc[:0]
for name, t in [("all-int table", int_tab), ("object table", obj_tab), ("NaN angles", nan_tab), ("empty", empty_tab)]:
    for sym in ("C3", 5, "D2"):
        compare(t, sym, OFFSETS[5], f"{name} sym={sym!r}", in_quantifier=False)

# idiom of change a: module-level tables shared by every call -- they must hold exactly the literals they replaced and
# must come out of all the calls above (including the failing ones) unchanged; on the unmodified tree they do not exist.
EXPECTED_TABLES = {
    "SHIFT_COLUMNS": ["shift_x", "shift_y", "shift_z"],
    "EULER_COLUMNS": ["phi", "theta", "psi"],  # order of the "zxz" sequence, not of motl_columns
    "FULL_TURN": 360,
    "CYCLIC_SYMMETRY": 1,
    "DIHEDRAL_SYMMETRY": 2,
    "SYMMETRY_TYPES": {"c": 1, "d": 2},
}
present = [k for k in EXPECTED_TABLES if hasattr(cryomotl, k)]
for k in present:
    v = getattr(cryomotl, k)
    if v != EXPECTED_TABLES[k] or type(v) is not type(EXPECTED_TABLES[k]):
        fail(f"table {k} is {v!r}, expected {EXPECTED_TABLES[k]!r}")
if present and len(present) != len(EXPECTED_TABLES):
    fail(f"only some of the tables exist: {present}")
if Motl.motl_columns != COLS:
    fail("motl_columns changed")
# the dispatch by first letter: every one-letter prefix gives the same outcome class in original and tree
import string

tab1 = random_table(rng, 1)
for letter in string.ascii_letters + string.digits + " _-":
    compare(tab1, letter + "4", OFFSETS[5], f"prefix {letter!r}", in_quantifier=(letter in "cC"), n=4)

if failures:
    print(f"{len(failures)} failure(s) in {n_checks} property checks")
    sys.exit(1)
print(f"PASS ({VARIANT}: {n_checks} property checks, original and tree bit-identical on all inputs)")
