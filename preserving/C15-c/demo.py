import os, sys

sys.path.insert(0, os.getcwd())

import contextlib, io, itertools, tempfile, types
import numpy as np
import mrcfile

import cryocat
from cryocat import tiltstack, ioutils, cryomap

assert os.path.abspath(cryocat.__file__).startswith(os.getcwd()), cryocat.__file__

TMP = tempfile.mkdtemp(prefix="c15demo_")
RNG = np.random.default_rng(1503)
FAILS = []
N_CHECKS = [0]
_counter = itertools.count()


def check(cond, msg):
    N_CHECKS[0] += 1
    if not cond:
        FAILS.append(msg)
        if len(FAILS) <= 15:
            print("FAIL:", msg)


def quiet(f, *a, **k):
    with contextlib.redirect_stdout(io.StringIO()):
        return f(*a, **k)


def tmpname(tag, ext=".mrc"):
    return os.path.join(TMP, f"{tag}_{next(_counter)}{ext}")


def raw_write(arr_zyx, path):
    """Independent writer: stores the (n, y, x) array as is."""
    with mrcfile.new(path, overwrite=True) as m:
        m.set_data(np.ascontiguousarray(arr_zyx))


def raw_read(path):
    with mrcfile.open(path, permissive=True) as m:
        return np.array(m.data)


def make_stack(n=None, h=None, w=None, dtype=None):
    n = int(RNG.integers(2, 26)) if n is None else n
    h = int(RNG.integers(4, 41)) if h is None else h
    w = int(RNG.integers(4, 41)) if w is None else w
    if h == w:
        w = w + 1 if w < 40 else w - 1
    dtype = [np.float32, np.int16][int(RNG.integers(0, 2))] if dtype is None else dtype
    if dtype == np.int16:
        ref = RNG.integers(-3000, 3000, size=(n, h, w)).astype(np.int16)
    else:
        ref = (RNG.normal(size=(n, h, w)) * 50).astype(np.float32)
    return ref


def same(a, b):
    return a.shape == b.shape and a.dtype == b.dtype and np.array_equal(a, b)


class Case:
    """One configuration: reference stack in (n, y, x) plus the way it is handed to the library."""

    def __init__(self, ref, in_order, out_order, as_file, write_file):
        self.ref, self.in_order, self.out_order = ref, in_order, out_order
        self.as_file, self.write_file = as_file, write_file
        if as_file:
            self.inp = tmpname("in")
            raw_write(ref, self.inp)
        else:
            self.inp = ref.transpose(2, 1, 0).copy() if in_order == "xyz" else ref.copy()
            if RNG.integers(0, 3) == 0:  # sometimes a non-contiguous view as input
                self.inp = ref.transpose(2, 1, 0) if in_order == "xyz" else ref[:, :, :]
        self.inp_backup = None if as_file else np.array(self.inp, copy=True)

    def label(self):
        return f"n,h,w={self.ref.shape} {self.ref.dtype} in={self.in_order} out={self.out_order} file_in={self.as_file} file_out={self.write_file}"

    def orient(self, exp_zyx):
        return exp_zyx.transpose(2, 1, 0) if self.out_order == "xyz" else exp_zyx

    def untouched(self):
        if self.as_file:
            return same(raw_read(self.inp), self.ref)
        return same(self.inp, self.inp_backup)


def all_cases(ref):
    for in_order, out_order, as_file, write_file in itertools.product(
        ["xyz", "zyx"], ["xyz", "zyx"], [False, True], [False, True]
    ):
        yield Case(ref, in_order, out_order, as_file, write_file)


def block_means(ref, f):
    """Independent block mean with zero padding at the far edges (explicit loops over blocks)."""
    n, h, w = ref.shape
    H, W = -(-h // f), -(-w // f)
    pad = np.zeros((n, H * f, W * f), dtype=np.float64)
    pad[:, :h, :w] = ref
    out = np.zeros((n, H, W), dtype=np.float64)
    for i in range(H):
        for j in range(W):
            out[:, i, j] = pad[:, i * f : (i + 1) * f, j * f : (j + 1) * f].sum(axis=(1, 2)) / (f * f)
    return out


def property_checks(mod, tag, n_stacks):
    """The property C15 checked against independent computations, for module-like object `mod`."""
    for s in range(n_stacks):
        if s == 0:
            ref = make_stack(2, 4, 40, np.int16)
        elif s == 1:
            ref = make_stack(25, 40, 4, np.float32)
        elif s == 2:
            ref = make_stack(3, 5, 7, np.float32)
        else:
            ref = make_stack()
        n, h, w = ref.shape
        dt = ref.dtype
        # tilt angles without ties, any order, negative values included
        angles = RNG.permutation(np.arange(n) * 3.0 - 1.5 * n) + RNG.uniform(-1, 1, size=n)
        order = sorted(range(n), key=lambda i: angles[i])
        k = int(RNG.integers(1, n))
        rm0 = sorted(RNG.choice(n, size=k, replace=False).tolist())
        rm0_shuffled = RNG.permutation(rm0).tolist()
        keep = [i for i in range(n) if i not in rm0]
        nw, nh = int(RNG.integers(1, w + 1)), int(RNG.integers(1, h + 1))
        f = int(RNG.choice([1, 2, 3, 4]))

        for c in all_cases(ref):
            L = f"[{tag}] {c.label()}"
            kw = dict(input_order=c.in_order, output_order=c.out_order)

            def run(func, exp_zyx, name, *a, exact=True, **k2):
                of = tmpname("out") if c.write_file else None
                try:
                    got = quiet(func, c.inp, *a, output_file=of, **kw, **k2)
                except Exception as e:  # noqa
                    check(False, f"{L} {name}: raised {type(e).__name__}: {e}")
                    return None
                exp = c.orient(exp_zyx)
                if exact:
                    check(same(got, exp), f"{L} {name}: returned array differs")
                else:
                    check(
                        got.shape == exp.shape and got.dtype == exp.dtype and np.allclose(got, exp, rtol=1e-6, atol=1e-4),
                        f"{L} {name}: returned array differs",
                    )
                if of:
                    on_disk = raw_read(of)
                    check(
                        on_disk.shape == exp_zyx.shape
                        and on_disk.dtype == dt
                        and (np.array_equal(on_disk, exp_zyx) if exact else np.allclose(on_disk, exp_zyx, rtol=1e-6, atol=1e-4)),
                        f"{L} {name}: written file differs",
                    )
                    # file holds the returned result
                    check(np.array_equal(c.orient(on_disk), got), f"{L} {name}: file != returned")
                check(c.untouched(), f"{L} {name}: input modified")
                return got

            # sorting
            exp_sorted = np.stack([ref[i] for i in order], axis=0)
            run(mod.sort_tilts_by_angle, exp_sorted, "sort(array angles)", angles.copy())
            run(mod.sort_tilts_by_angle, exp_sorted, "sort(list angles)", angles.tolist())
            # removing: 0-based / 1-based, list / array / shuffled
            exp_rm = np.stack([ref[i] for i in keep], axis=0)
            run(mod.remove_tilts, exp_rm, "remove 0-based list", list(rm0), numbered_from_1=False)
            run(mod.remove_tilts, exp_rm, "remove 1-based list", [i + 1 for i in rm0], numbered_from_1=True)
            run(mod.remove_tilts, exp_rm, "remove 1-based default", np.array(rm0_shuffled) + 1)
            run(mod.remove_tilts, exp_rm, "remove 0-based shuffled array", np.array(rm0_shuffled), numbered_from_1=False)
            if len(rm0) > 1:
                tf = tmpname("idx", ".txt")
                np.savetxt(tf, np.array(rm0) + 1, fmt="%d")
                run(mod.remove_tilts, exp_rm, "remove 1-based txt file", tf)
            # flipping: IMOD naming -- 'x' flips rows (y index), 'y' flips columns, 'z' flips tilt order
            for ax, exp_flip in (("x", ref[:, ::-1, :]), ("y", ref[:, :, ::-1]), ("z", ref[::-1, :, :])):
                run(mod.flip_along_axes, exp_flip, f"flip {ax}", ax)
                run(mod.flip_along_axes, ref, f"flip {ax} twice (list)", [ax, ax])
                # twice through two calls, array route
                g1 = quiet(mod.flip_along_axes, c.inp, [ax], input_order=c.in_order, output_order="zyx")
                g2 = quiet(mod.flip_along_axes, g1, ax, input_order="zyx", output_order=c.out_order)
                check(same(g2, c.orient(ref)), f"{L} flip {ax} two calls not identity")
            run(mod.flip_along_axes, ref[::-1, :, ::-1], "flip [y,z]", ["y", "z"])
            run(mod.flip_along_axes, ref[:, ::-1, ::-1], "flip [x,y]", ["x", "y"])
            # crop: central window
            sw, sh = w // 2 - nw // 2, h // 2 - nh // 2
            run(mod.crop, ref[:, sh : sh + nh, sw : sw + nw], "crop", new_width=nw, new_height=nh)
            run(mod.crop, ref[:, :, sw : sw + nw], "crop width only", new_width=nw)
            run(mod.crop, ref[:, sh : sh + nh, :], "crop height only", new_height=str(nh))
            run(mod.crop, ref, "crop none")
            # binning: block means
            bm = block_means(ref, f)
            exp_bin = bm.astype(dt)
            run(mod.bin, exp_bin, f"bin {f}", f, exact=(dt == np.int16))
            # even / odd split
            pre = tmpname("split", "") if c.write_file else None
            ev, od = quiet(mod.split_stack_even_odd, c.inp, output_file_prefix=pre, **kw)
            exp_ev = np.stack([ref[i] for i in range(0, n, 2)], axis=0)
            exp_od = np.stack([ref[i] for i in range(1, n, 2)], axis=0)
            check(same(ev, c.orient(exp_ev)), f"{L} split: even differs")
            check(same(od, c.orient(exp_od)), f"{L} split: odd differs")
            tax = 2 if c.out_order == "xyz" else 0
            inter = np.empty(c.orient(ref).shape, dtype=dt)
            sl_e = [slice(None)] * 3
            sl_o = [slice(None)] * 3
            sl_e[tax], sl_o[tax] = slice(0, None, 2), slice(1, None, 2)
            if inter[tuple(sl_e)].shape == ev.shape and inter[tuple(sl_o)].shape == od.shape:
                inter[tuple(sl_e)] = ev
                inter[tuple(sl_o)] = od
                check(same(inter, c.orient(ref)), f"{L} split: interleave != input")
            else:
                check(False, f"{L} split: even/odd shapes do not interleave to the input")
            if pre:
                fe, fo = raw_read(pre + "_even.mrc"), raw_read(pre + "_odd.mrc")
                check(same(fe, exp_ev), f"{L} split: even file differs")
                check(same(fo, exp_od), f"{L} split: odd file differs")
            # results must not alias each other / later edits: modify outputs, call again
            if ev.flags.writeable:
                ev[...] = 0
            ev2, od2 = quiet(mod.split_stack_even_odd, c.inp, **kw)
            check(same(ev2, c.orient(exp_ev)) and same(od2, c.orient(exp_od)), f"{L} split: repeated call differs")
            check(same(od, c.orient(exp_od)), f"{L} split: odd changed when even was edited")
            check(c.untouched(), f"{L} split: input modified")

    # indices_load itself
    for _ in range(50):
        v = RNG.integers(1, 26, size=int(RNG.integers(1, 10)))
        for src in (v.tolist(), v.copy()):
            check(np.array_equal(mod.indices_load(src, numbered_from_1=True), v - 1), f"[{tag}] indices_load 1-based")
            check(np.array_equal(mod.indices_load(src), v - 1), f"[{tag}] indices_load default")
            check(np.array_equal(mod.indices_load(src, numbered_from_1=False), v), f"[{tag}] indices_load 0-based")
        check(np.array_equal(np.asarray(v), v), "input kept")


class Mod(types.SimpleNamespace):
    pass


def lib_mod():
    return Mod(
        sort_tilts_by_angle=tiltstack.sort_tilts_by_angle,
        remove_tilts=tiltstack.remove_tilts,
        flip_along_axes=tiltstack.flip_along_axes,
        crop=tiltstack.crop,
        bin=tiltstack.bin,
        split_stack_even_odd=tiltstack.split_stack_even_odd,
        indices_load=ioutils.indices_load,
    )


def orig_mod(orig_tiltstack_src="", orig_ioutils_src=""):
    """Original (pre-refactoring) code compiled from the text kept in this file. Everything that is not redefined by
    the given text is taken from the worktree's modules."""
    io_ns = dict(vars(ioutils))
    if orig_ioutils_src:
        exec(compile(orig_ioutils_src, "<orig_ioutils>", "exec"), io_ns)
    ns = dict(vars(tiltstack))
    ns["ioutils"] = types.SimpleNamespace(**{k: v for k, v in io_ns.items() if not k.startswith("__")})
    if orig_tiltstack_src:
        exec(compile(orig_tiltstack_src, "<orig_tiltstack>", "exec"), ns)
    return Mod(
        sort_tilts_by_angle=ns["sort_tilts_by_angle"],
        remove_tilts=ns["remove_tilts"],
        flip_along_axes=ns["flip_along_axes"],
        crop=ns["crop"],
        bin=ns["bin"],
        split_stack_even_odd=ns["split_stack_even_odd"],
        indices_load=io_ns["indices_load"],
        TiltStack=ns["TiltStack"],
    )


def outcome(f, *a, **k):
    """Result or exception type, for comparing the patched and the original code also on odd inputs."""
    try:
        r = quiet(f, *a, **k)
    except Exception as e:  # noqa
        return ("EXC", type(e).__name__)
    return ("OK", r)


def same_outcome(o1, o2):
    if o1[0] != o2[0]:
        return False
    if o1[0] == "EXC":
        return o1[1] == o2[1]
    r1, r2 = o1[1], o2[1]
    if isinstance(r1, tuple):
        return len(r1) == len(r2) and all(same(np.asarray(x), np.asarray(y)) for x, y in zip(r1, r2))
    return same(np.asarray(r1), np.asarray(r2))


# ---------------------------------------------------------------------------------------------------------------------
# Change (c): crop -- size validation and window arithmetic moved into the helper _central_window (used for both axes);
#             flip_along_axes -- if/elif chain of reversed slices replaced by a name->axis table and np.flip;
#             TiltStack.correct_order -- early return, np.swapaxes(.., 0, 2) for transpose(2, 1, 0).
# Original texts of the class and of the six functions (docstrings removed), kept for the direct comparison:
ORIG_TS = r'''
class TiltStack:

    def __init__(self, tilt_stack, input_order="xyz", output_order="xyz"):

        if not isinstance(tilt_stack, np.ndarray):  # if loading necessary, load in zyx
            self.data = cryomap.read(tilt_stack, transpose=False)
            if self.data.shape == 2:
                self.data = np.expand_dims(
                    self.data, axis=0
                )  # ensure that it will always have three dimensions, for z=1 mrc returns 2d array
        else:
            self.data = tilt_stack.copy()
            if self.data.shape == 2:
                if input_order == "xyz":
                    self.data = np.expand_dims(self.data, axis=2)  # ensure that it will always have three dimensions
                else:
                    self.data = np.expand_dims(self.data, axis=0)  # ensure that it will always have three dimensions

            if input_order == "xyz":
                self.data = self.data.transpose(2, 1, 0)

        self.data_type = self.data.dtype

        self.input_order = input_order
        self.current_order = "zyx"
        self.output_order = output_order

        self.n_tilts, self.height, self.width = self.data.shape

    def write_out(self, output_file, new_data=None):

        if output_file:
            data_to_write = new_data if new_data is not None else self.data
            cryomap.write(data_to_write, output_file, data_type=self.data_type, transpose=False)

    def correct_order(self, new_data=None):

        return_data = new_data if new_data is not None else self.data

        if return_data.dtype != self.data_type:
            return_data = return_data.astype(self.data_type)

        if self.current_order != self.output_order:
            return return_data.transpose(2, 1, 0)
        else:
            return return_data


def crop(tilt_stack, new_width=None, new_height=None, output_file=None, input_order="xyz", output_order="xyz"):

    print(f"Cropping of the tilt stack started...")

    ts = TiltStack(tilt_stack=tilt_stack, input_order=input_order, output_order=output_order)

    if new_width is not None:
        new_width = int(new_width)
        if new_width > ts.width:
            raise ValueError(f"new_width cannot be greater than ts.width ({ts.width})")
    else:
        new_width = ts.width
    if new_height is not None:
        new_height = int(new_height)
        if new_height > ts.height:
            raise ValueError(f"new_height cannot be greater than ts.height ({ts.height})")
    else:
        new_height = ts.height

    # Calculate the center of the original array
    center_w, center_h = ts.width // 2, ts.height // 2

    # Calculate the cropping indices
    start_w = int(center_w - int(new_width) // 2)
    end_w = int(start_w + int(new_width))

    start_h = int(center_h - int(new_height) // 2)
    end_h = int(start_h + int(new_height))

    # crop the actual images
    ts.data = ts.data[:, start_h:end_h, start_w:end_w]

    ts.write_out(output_file)

    print(f"...cropping of the tilt stack successfully finished. New dimensions are {end_w-start_w}, {end_h-start_h}\n")

    return ts.correct_order()


def sort_tilts_by_angle(tilt_stack, input_tilts, output_file=None, input_order="xyz", output_order="xyz"):

    print(f"Reordering of the tilt stack started...")

    ts = TiltStack(tilt_stack=tilt_stack, input_order=input_order, output_order=output_order)

    tilt_angles = ioutils.tlt_load(input_tilts, sort_angles=False)
    sorted_indices = np.argsort(tilt_angles)

    ts.data = ts.data[sorted_indices, :, :]
    ts.write_out(output_file)

    print("...reordering of the tilt stack successfully finished.\n")

    return ts.correct_order()


def remove_tilts(
    tilt_stack,
    idx_to_remove,
    numbered_from_1=True,
    output_file=None,
    input_order="xyz",
    output_order="xyz",
):

    print(f"Removing of specified tilts started...")

    ts = TiltStack(tilt_stack=tilt_stack, input_order=input_order, output_order=output_order)

    idx_to_remove_final = ioutils.indices_load(idx_to_remove, numbered_from_1=numbered_from_1)
    # Check bounds
    max_index = ts.data.shape[0]
    if any(idx < 0 or idx >= max_index for idx in idx_to_remove_final):
        raise IndexError(
            f"One or more indices in idx_to_remove exceed bounds. " f"Valid range: 0 to {max_index - 1} (0-based)."
        )
    ts.data = np.delete(ts.data, idx_to_remove_final, axis=0)
    ts.write_out(output_file)

    print(f"...removing of {idx_to_remove_final.shape[0]} tilts successfully finished.\n")

    return ts.correct_order()


def bin(tilt_stack, binning_factor, output_file=None, input_order="xyz", output_order="xyz"):

    print(f"Binning tilt stack with binning factor of {str(binning_factor)} started...")

    # cast in case of string
    binning_factor = int(binning_factor)

    ts = TiltStack(tilt_stack=tilt_stack, input_order=input_order, output_order=output_order)
    ts.data = downscale_local_mean(ts.data, (1, binning_factor, binning_factor))
    ts.write_out(output_file)

    print("...binning finished successfully.\n")
    return ts.correct_order()


def split_stack_even_odd(tilt_stack, output_file_prefix=None, input_order="xyz", output_order="xyz"):

    ts = TiltStack(tilt_stack=tilt_stack, input_order=input_order, output_order=output_order)

    even_stack = []
    odd_stack = []

    if not ts.n_tilts == 1:
        # For each tilt image in the stack
        for i in range(ts.n_tilts):

            # Split to even and odd by using modulo 2
            if i % 2 == 0:
                even_stack.append(ts.data[i, :, :])
            else:
                odd_stack.append(ts.data[i, :, :])

        even_stack = np.stack(even_stack, axis=0)
        odd_stack = np.stack(odd_stack, axis=0)

        if output_file_prefix:
            ts.write_out(output_file_prefix + "_even.mrc", new_data=even_stack)
            ts.write_out(output_file_prefix + "_odd.mrc", new_data=odd_stack)

        return ts.correct_order(even_stack), ts.correct_order(odd_stack)
    else:
        raise ValueError(f"Stack contains only 1 tilt.")


def flip_along_axes(tilt_stack, axes, output_file=None, input_order="xyz", output_order="xyz"):

    ts = TiltStack(tilt_stack=tilt_stack, input_order=input_order, output_order=output_order)

    if not isinstance(axes, list):
        axes = [axes]

    for a in axes:
        if a == "x":
            ts.data = ts.data[:, ::-1, :]
        elif a == "y":
            ts.data = ts.data[:, :, ::-1]
        elif a == "z":
            ts.data = ts.data[::-1, :, :]
        else:
            raise ValueError(f"The axes can be 'x', 'y', or 'z'. Provided axis {a} not supported.")

    ts.write_out(output_file)

    return ts.correct_order()
'''


def compare_with_original():
    orig = orig_mod(ORIG_TS)
    lib = lib_mod()
    assert orig.TiltStack is not tiltstack.TiltStack

    def both(name, c, *a, file_kw="output_file", **k):
        kw = dict(input_order=c.in_order, output_order=c.out_order)
        f1 = tmpname("cmpA") if c.write_file else None
        f2 = tmpname("cmpB") if c.write_file else None
        o1 = outcome(getattr(lib, name), c.inp, *a, **{file_kw: f1}, **kw, **k)
        o2 = outcome(getattr(orig, name), c.inp, *a, **{file_kw: f2}, **kw, **k)
        check(same_outcome(o1, o2), f"[cmp] {c.label()} {name}{a}{k}: differs from original ({o1[0]}/{o2[0]})")
        if o1[0] == "OK" and o2[0] == "OK":
            r1, r2 = o1[1], o2[1]
            check(r1.strides == r2.strides, f"[cmp] {c.label()} {name}: strides differ")
            check(r1.flags.writeable == r2.flags.writeable, f"[cmp] {c.label()} {name}: writeable differs")
            if f1:
                check(same(raw_read(f1), raw_read(f2)), f"[cmp] {c.label()} {name}: files differ")
        elif f1:
            check(os.path.exists(f1) == os.path.exists(f2), f"[cmp] {c.label()} {name}: file in one version only")
        check(c.untouched(), f"[cmp] {c.label()} {name}: input modified")
        return o1, o2

    for it in range(40):
        ref = make_stack(n=(it % 24) + 2)
        n, h, w = ref.shape
        angles = RNG.permutation(n) * 2.5 - n
        for c in all_cases(ref):
            if c.write_file and it % 2:
                continue
            # flips: single names, lists, repeated, all orders of pairs, invalid names
            for axes in ("x", "y", "z", ["x"], ["y", "y"], ["x", "y"], ["y", "x"], ["z", "x", "y"], ["x", "z", "x"], [],
                         "w", ["x", "q"], ["xy"], ("x", "y"), [1], [None], "X", ["x", ["y"]]):
                both("flip_along_axes", c, axes)
            # crops: every kind of size argument, including limits and the rejected ones
            sizes_w = [None, 1, 2, w - 1, w, w + 1, str(max(1, w // 2)), float(w) - 0.5, 0, int(RNG.integers(1, w + 1))]
            sizes_h = [None, 1, 2, h - 1, h, h + 1, str(max(1, h // 3)), float(h) - 0.5, 0, int(RNG.integers(1, h + 1))]
            for i in range(len(sizes_w)):
                both("crop", c, new_width=sizes_w[i], new_height=sizes_h[(i * 3 + it) % len(sizes_h)])
            both("crop", c, new_width=w + 5, new_height=h + 5)  # both too large: width is reported
            both("crop", c, new_width="abc")
            # everything that goes through correct_order
            both("sort_tilts_by_angle", c, angles)
            both("remove_tilts", c, [1, n])
            both("bin", c, 2)
            kw = dict(input_order=c.in_order, output_order=c.out_order)
            e1 = quiet(lib.split_stack_even_odd, c.inp, **kw)
            e2 = quiet(orig.split_stack_even_odd, c.inp, **kw)
            check(all(same(x, y) and x.strides == y.strides for x, y in zip(e1, e2)), f"[cmp] {c.label()} split differs")

    # error messages of crop are the same text
    ref = make_stack(3, 6, 9, np.int16)
    for k in (dict(new_width=10), dict(new_height=7), dict(new_width=10, new_height=7), dict(new_width="12")):
        msgs = []
        for m in (lib, orig):
            try:
                quiet(m.crop, ref, input_order="zyx", **k)
                msgs.append(None)
            except ValueError as e:
                msgs.append(str(e))
        check(msgs[0] == msgs[1] and msgs[0] is not None, f"[cmp] crop message {k}: {msgs}")
    msgs = []
    for m in (lib, orig):
        try:
            quiet(m.flip_along_axes, ref, ["y", "k"], input_order="zyx")
            msgs.append(None)
        except ValueError as e:
            msgs.append(str(e))
    check(msgs[0] == msgs[1] and msgs[0] is not None, f"[cmp] flip message: {msgs}")

    # TiltStack.correct_order directly: dtype restoration and orientation, own data and new data
    for it in range(100):
        ref = make_stack()
        for io, oo in itertools.product(["xyz", "zyx"], repeat=2):
            arr = ref.transpose(2, 1, 0).copy() if io == "xyz" else ref.copy()
            t1 = tiltstack.TiltStack(arr, input_order=io, output_order=oo)
            t2 = orig.TiltStack(arr, input_order=io, output_order=oo)
            new = RNG.normal(size=(int(RNG.integers(1, 5)), int(RNG.integers(1, 6)), int(RNG.integers(1, 7)))) * 100
            for nd in (None, new, new.astype(np.float32), new.astype(np.int16)):
                r1, r2 = t1.correct_order(nd), t2.correct_order(nd)
                check(same(r1, r2) and r1.strides == r2.strides, f"[cmp] correct_order {io}->{oo} differs")
                check(r1.dtype == ref.dtype, "[cmp] correct_order dtype")
                src = ref if nd is None else nd.astype(ref.dtype)
                check(same(r1, src.transpose(2, 1, 0) if oo == "xyz" else src), "[cmp] correct_order vs independent")
            check(same(t1.data, ref) and same(t2.data, ref), "[cmp] correct_order changed the stored data")


if __name__ == "__main__":
    property_checks(lib_mod(), "lib", 12)
    property_checks(orig_mod(ORIG_TS), "orig-copy", 3)
    compare_with_original()
    import shutil

    shutil.rmtree(TMP, ignore_errors=True)
    if FAILS:
        print(f"FAIL: {len(FAILS)} of {N_CHECKS[0]} checks failed")
        sys.exit(1)
    print(f"PASS ({N_CHECKS[0]} checks)")
