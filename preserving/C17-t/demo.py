"""C17 / change a -- Mdoc._parse_images walks a section generator and peeks at the first section
(first = next(it); itertools.chain([first], it)) instead of building the list of sections first.

The demo
  1. generates mdoc texts from a grammar (ZValue / FrameSet sections, 1..80 images, int / float / negative / text
     values, header entries and titles, loose spacing and blank lines) together with the table they must parse to,
  2. checks the C17 statements against that independent expectation: read, re-read, write + re-read round trip,
     sort_by_tilt, remove_images (object and module level), written file omits exactly the removed images,
     ioutils.tlt_load / total_dose_load on the mdoc,
  3. compares Mdoc._parse_images of the tree with the ORIGINAL function text kept below on the same line lists
     (regular, irregular and malformed ones; list and one-shot iterator input) and checks that the caller's list of
     lines and the files on disk are left untouched.
Prints PASS and exits 0 when everything holds.
"""
import sys, os

sys.path.insert(0, os.getcwd())

import copy
import random
import re
import tempfile
import warnings

import numpy as np
import pandas as pd
from pandas.testing import assert_frame_equal

warnings.simplefilter("ignore")

from cryocat import mdoc as mdoc_mod
from cryocat import ioutils
from cryocat.mdoc import Mdoc

# --------------------------------------------------------------------------------------------------------------------
# original text of Mdoc._parse_images (HEAD d4d8304), kept for the output comparison
# --------------------------------------------------------------------------------------------------------------------
ORIG_SRC = '''
def orig_parse_images(data, section_id):
    # split the lines into sections, each starting with line starting with "[ZValue"
    sections = []
    section = []
    for line in data:
        if line.startswith("[" + section_id) and section:
            sections.append(section)
            section = []
        if line.strip():
            section.append(line)
    sections.append(section)

    # determine dataframe columns from the first section
    columns = [section_id]
    columns.extend([line.split("=")[0].strip() for line in sections[0][1:]])

    imgs = pd.DataFrame(columns=columns)
    for section in sections:
        # parse section
        img = {}
        for line in section:
            if line.startswith("["):
                img[section_id] = line.split("=")[1].strip().strip("]").strip()
            else:
                key, value = line.split("=")
                img[key.strip()] = Mdoc._format_value(value)
        imgs = pd.concat([imgs, pd.DataFrame(img, index=[0])], ignore_index=True)

    # prepare flag for removed images
    imgs["Removed"] = False

    # convert ZValues to int
    temp_column = imgs.astype({section_id: int})
    imgs[section_id] = temp_column[section_id]

    # convert TiltAngle to float
    imgs["TiltAngle"] = imgs["TiltAngle"].astype(float)

    return imgs
'''
_ns = {"pd": pd, "Mdoc": Mdoc}
exec(ORIG_SRC, _ns)
orig_parse_images = _ns["orig_parse_images"]

rng = random.Random(1717)
n_checks = 0


def ok(cond, msg):
    global n_checks
    n_checks += 1
    if not cond:
        print("FAIL:", msg)
        sys.exit(1)


# --------------------------------------------------------------------------------------------------------------------
# grammar
# --------------------------------------------------------------------------------------------------------------------
def typed(text):
    """Independent statement of the typing rule: digits -> int, digits with one dot -> float, anything else text."""
    t = text.strip()
    if re.fullmatch(r"[0-9]+", t):
        return int(t)
    if re.fullmatch(r"[0-9]*\.[0-9]*", t) and re.search(r"[0-9]", t):
        return float(t)
    return t


WORDS = ["SerialEM", "K3", "frames", "tilt", "X:\\data\\run_7", "12-Jan-21", "10:11:12", "a_b.tif", "(x)", "#4", "-", "+"]


def gen_int():
    s = str(rng.randint(0, 100000))
    if rng.random() < 0.1:
        s = "00" + s
    return s


def gen_float():
    return "{:.{k}f}".format(rng.uniform(0, 2000), k=rng.randint(1, 4))


def gen_text():
    return (" " * rng.randint(1, 2)).join(rng.choice(WORDS) for _ in range(rng.randint(1, 4)))


def gen_value(kind=None):
    kind = kind or rng.choice(["int", "float", "neg", "text", "pair"])
    if kind == "int":
        return gen_int()
    if kind == "float":
        return gen_float()
    if kind == "neg":
        return "-" + (gen_int() if rng.random() < 0.5 else gen_float())
    if kind == "pair":
        return "{} {}".format(gen_float(), "-" + gen_float())
    return gen_text()


def eq():
    return rng.choice([" = ", " = ", "=", "  =  ", " =", "= "])


IMG_KEYS = ["StagePosition", "StageZ", "Magnification", "Intensity", "SpotSize", "Defocus", "ImageShift", "RotationAngle",
            "ExposureTime", "Binning", "CameraIndex", "DividedBy2", "MinMaxMean", "TargetDefocus", "SubFramePath",
            "NumSubFrames", "DateTime", "PixelSpacing", "FilterSlitAndLoss", "UncroppedSize"]
HDR_KEYS = ["PixelSpacing", "Voltage", "ImageFile", "ImageSize", "DataMode", "Version", "Montage", "TiltAxis"]


def gen_tilts(n, ties):
    if ties and n > 1:
        base = [rng.choice([-3.0, 0.0, 3.0, 6.5]) for _ in range(n)]
        return ["{:.1f}".format(b) for b in base]
    start = rng.uniform(-70, -1)
    step = rng.choice([1.0, 1.5, 2.0, 3.0]) if n > 40 else rng.choice([1.0, 2.0, 3.0, 5.0])
    vals = [round(start + i * step + rng.uniform(0, 0.4), rng.randint(1, 3)) for i in range(n)]
    assert len(set(vals)) == n
    order = list(range(n))
    mode = rng.choice(["asc", "shuffle", "dose_sym"])
    if mode == "shuffle":
        rng.shuffle(order)
    elif mode == "dose_sym":
        order.sort(key=lambda i: (abs(i - n // 2), i))
    out = []
    for i in order:
        v = vals[i]
        out.append(str(int(v)) if (float(v).is_integer() and v >= 0 and rng.random() < 0.5) else repr(v))
    return out


def gen_mdoc(n, section_id="ZValue", ties=False, with_dose=False):
    """Returns (text, expectation)."""
    lines = []
    hdr = {}
    keys = rng.sample(HDR_KEYS, rng.randint(1, len(HDR_KEYS)))
    titles = [rng.choice(["T = ", "T=", "Note: "]) + gen_text() + rng.choice(["", " = 85.3, binning = 1  spot = 8"])
              for _ in range(rng.randint(0, 3))]
    # header entries and titles, interleaved, with blank lines in between
    items = [("k", k) for k in keys] + [("t", t) for t in titles]
    if rng.random() < 0.5:
        rng.shuffle(items)
    hdr_titles = []
    for kind, it in items:
        if kind == "k":
            v = gen_value()
            lines.append(it + eq() + v + rng.choice(["", " "]))
            hdr[it] = typed(v)
        else:
            lines.append("[" + it + "]")
            hdr_titles.append(it.strip())
        if rng.random() < 0.5:
            lines.append("")
    lines.append("")

    img_keys = rng.sample(IMG_KEYS, rng.randint(0, 8))
    kinds = {k: rng.choice(["int", "float", "neg", "text", "pair", "mixed"]) for k in img_keys}
    if with_dose:
        img_keys += ["ExposureDose", "PriorRecordDose"]
    img_keys.insert(rng.randint(0, len(img_keys)), "TiltAngle")
    tilts = gen_tilts(n, ties)
    zvals = list(range(n))
    if rng.random() < 0.3:
        zvals = rng.sample(range(0, 3 * n + 3), n)
    records = []
    for i in range(n):
        lines.append("[{}{}{}]".format(section_id, rng.choice([" = ", " = ", "=", " =  "]), zvals[i]))
        rec = {section_id: zvals[i]}
        for k in img_keys:
            if k == "TiltAngle":
                v = tilts[i]
                rec[k] = float(v)
            elif k in ("ExposureDose", "PriorRecordDose"):
                v = gen_value(rng.choice(["int", "float"]))
                rec[k] = typed(v)
            else:
                v = gen_value(None if kinds[k] == "mixed" else kinds[k])
                rec[k] = typed(v)
            lines.append(k + eq() + v)
        rec["Removed"] = False
        records.append(rec)
        for _ in range(rng.randint(1, 2)):
            lines.append(rng.choice(["", "", "  "]))
    text = "\n".join(lines) + rng.choice(["\n", ""])
    exp = {"titles": hdr_titles, "project_info": hdr, "columns": [section_id] + img_keys + ["Removed"],
           "records": records, "section_id": section_id}
    return text, exp


# --------------------------------------------------------------------------------------------------------------------
# independent helpers
# --------------------------------------------------------------------------------------------------------------------
def same_value(a, b):
    """Same kind (int / float / text / bool) and same value."""
    if isinstance(a, (bool, np.bool_)) or isinstance(b, (bool, np.bool_)):
        return isinstance(a, (bool, np.bool_)) and isinstance(b, (bool, np.bool_)) and bool(a) == bool(b)
    if isinstance(a, str) or isinstance(b, str):
        return isinstance(a, str) and isinstance(b, str) and a == b
    ia, ib = isinstance(a, (int, np.integer)), isinstance(b, (int, np.integer))
    return ia == ib and float(a) == float(b)


def table_matches(df, columns, records, msg):
    ok(list(df.columns) == columns, msg + ": columns {} != {}".format(list(df.columns), columns))
    ok(len(df) == len(records), msg + ": {} rows, expected {}".format(len(df), len(records)))
    for pos in range(len(records)):
        row = df.iloc[pos]
        for c in columns:
            ok(same_value(row[c], records[pos][c]), msg + ": row {} column {}: {!r} != {!r}".format(pos, c, row[c], records[pos][c]))


def plain_parse(text, section_id):
    """Small independent reader of a written mdoc: header dict, titles, list of (zvalue, {key: typed value})."""
    hdr, titles, imgs, cur = {}, [], [], None
    for raw in text.split("\n"):
        s = raw.strip()
        if not s:
            continue
        m = re.fullmatch(r"\[" + section_id + r"\s*=\s*(-?\d+)\]", s)
        if m:
            cur = (int(m.group(1)), {})
            imgs.append(cur)
        elif cur is None and s.startswith("["):
            titles.append(s[1:-1].strip())
        else:
            k, v = s.split("=", 1)
            (hdr if cur is None else cur[1])[k.strip()] = typed(v)
    return hdr, titles, imgs


def written_matches(path, exp, records, msg):
    """The written file holds the header and exactly `records`, in that order."""
    hdr, titles, imgs = plain_parse(open(path).read(), exp["section_id"])
    ok(titles == exp["titles"], msg + ": titles")
    ok(list(hdr) == list(exp["project_info"]) and all(same_value(hdr[k], exp["project_info"][k]) for k in hdr), msg + ": header")
    ok([z for z, _ in imgs] == [r[exp["section_id"]] for r in records], msg + ": written sections {} != {}".format(
        [z for z, _ in imgs], [r[exp["section_id"]] for r in records]))
    data_cols = [c for c in exp["columns"] if c not in (exp["section_id"], "Removed")]
    for (z, got), rec in zip(imgs, records):
        ok(list(got) == data_cols, msg + ": written keys")
        for c in data_cols:
            if c == "TiltAngle":
                ok(float(got[c]) == rec[c], msg + ": written tilt")
            else:
                ok(same_value(got[c], rec[c]), msg + ": written {} {!r} != {!r}".format(c, got[c], rec[c]))


def mdoc_equal(m1, m2, msg):
    ok(m1.titles == m2.titles, msg + ": titles")
    ok(list(m1.project_info.items()) == list(m2.project_info.items()), msg + ": project_info")
    ok(all(type(m1.project_info[k]) is type(m2.project_info[k]) for k in m1.project_info), msg + ": project_info types")
    ok(m1.section_id == m2.section_id, msg + ": section id")
    try:
        assert_frame_equal(m1.imgs, m2.imgs, check_exact=True)
    except AssertionError as e:
        ok(False, msg + ": imgs differ: " + str(e))
    ok(True, msg)


def read_bytes(p):
    with open(p, "rb") as f:
        return f.read()


# --------------------------------------------------------------------------------------------------------------------
# property checks on one generated file
# --------------------------------------------------------------------------------------------------------------------
def check_file(tmp, idx, n, section_id="ZValue", ties=False, with_dose=False):
    text, exp = gen_mdoc(n, section_id, ties, with_dose)
    src = os.path.join(tmp, "in_{}.mdoc".format(idx))
    with open(src, "w") as f:
        f.write(text)
    src_bytes = read_bytes(src)
    tag = "file {} (n={}, {})".format(idx, n, section_id)
    sid = section_id
    recs = exp["records"]

    # ---- read: header entries and per-image table are the ones in the text
    m = Mdoc(src)
    ok(m.section_id == sid, tag + ": section id")
    ok(m.titles == exp["titles"], tag + ": titles {} != {}".format(m.titles, exp["titles"]))
    ok(list(m.project_info) == list(exp["project_info"]), tag + ": header keys")
    ok(all(same_value(m.project_info[k], exp["project_info"][k]) for k in m.project_info), tag + ": header values")
    table_matches(m.imgs, exp["columns"], recs, tag + " read")
    ok(list(m.imgs.index) == list(range(n)), tag + ": index")
    ok(m.imgs[sid].dtype == np.int64 and m.imgs["TiltAngle"].dtype == np.float64 and m.imgs["Removed"].dtype == bool, tag + ": dtypes")

    # ---- repeated reads agree, the file is not touched
    m_again = Mdoc(src)
    mdoc_equal(m, m_again, tag + " second read")
    ok(read_bytes(src) == src_bytes, tag + ": input file changed by reading")

    # ---- patched / tree function against the original text on the same list of lines
    all_lines = text.splitlines(keepends=True)
    first = next(i for i, l in enumerate(all_lines) if l.startswith("[" + sid))
    data = all_lines[first:]
    data_before = list(data)
    ref = orig_parse_images(data, sid)
    got = Mdoc._parse_images(data, sid)
    ok(data == data_before, tag + ": list of lines modified")
    assert_frame_equal(got, ref, check_exact=True)
    assert_frame_equal(got, m.imgs, check_exact=True)
    got_it = Mdoc._parse_images(iter(data), sid)  # one-shot iterator works in both
    assert_frame_equal(got_it, orig_parse_images(iter(data), sid), check_exact=True)
    assert_frame_equal(got_it, ref, check_exact=True)
    ok(True, tag + " parse == original")

    # ---- write + re-read round trip; writing is idempotent and leaves the object alone
    out1 = os.path.join(tmp, "out1_{}.mdoc".format(idx))
    snapshot = copy.deepcopy(m)
    m.write(out1)
    mdoc_equal(m, snapshot, tag + " object changed by write")
    written_matches(out1, exp, recs, tag + " written")
    m2 = Mdoc(out1)
    mdoc_equal(m2, m, tag + " round trip")
    out2 = os.path.join(tmp, "out2_{}.mdoc".format(idx))
    m2.write(out2)
    ok(read_bytes(out1) == read_bytes(out2), tag + ": second generation differs")
    try:
        m.write(out1)
        ok(False, tag + ": overwrite without flag")
    except FileExistsError:
        ok(True, tag)
    m.write(out1, overwrite=True)
    ok(read_bytes(out1) == read_bytes(out2), tag + ": rewrite differs")

    # ---- sort by tilt: same rows, only the order changes
    order = sorted(range(n), key=lambda i: recs[i]["TiltAngle"])
    ms = Mdoc(src)
    ms.sort_by_tilt()
    ok(sorted(ms.imgs.index) == list(range(n)), tag + ": sort index not a permutation")
    ok(bool(np.all(np.diff(ms.imgs["TiltAngle"].values) >= 0)), tag + ": not ascending")
    if not ties:
        ok(list(ms.imgs.index) == order, tag + ": sort order")
        table_matches(ms.imgs, exp["columns"], [recs[i] for i in order], tag + " sorted")
    assert_frame_equal(ms.imgs.sort_index(), m.imgs, check_exact=True)
    ms.sort_by_tilt()  # second call is a no-op
    if not ties:
        ok(list(ms.imgs.index) == order, tag + ": sort twice")
    if sid == "ZValue":
        perm = list(ms.imgs.index)
        ms.sort_by_tilt(reset_z_value=True)
        ok(list(ms.imgs["ZValue"]) == list(range(n)), tag + ": reset z")
        ok(list(ms.imgs.index) == perm, tag + ": reset z reorders")
        assert_frame_equal(ms.imgs.drop(columns="ZValue").sort_index(), m.imgs.drop(columns="ZValue"), check_exact=True)
        # module level, with file output
        outs = os.path.join(tmp, "sorted_{}.mdoc".format(idx))
        mm = mdoc_mod.sort_mdoc_by_tilt_angles(src, reset_z_value=False, output_file=outs)
        if not ties:
            ok(list(mm.imgs.index) == order, tag + ": module sort")
            written_matches(outs, exp, [recs[i] for i in order], tag + " sorted written")
        ta = mdoc_mod.get_tilt_angles(src)
        ok(ta.dtype == np.float64 and list(ta) == [r["TiltAngle"] for r in recs], tag + ": get_tilt_angles")

    # ---- remove images: only the flag changes; the written file omits exactly the removed ones
    mr = Mdoc(src)
    k = rng.randint(0, n - 1) if n > 1 else 0
    subset = rng.sample(range(n), k)
    if rng.random() < 0.5:
        subset.sort()
    mr.remove_images(subset)
    flags = [i in set(subset) for i in range(n)]
    ok(list(mr.imgs["Removed"]) == flags, tag + ": removed flags")
    assert_frame_equal(mr.imgs.drop(columns="Removed"), m.imgs.drop(columns="Removed"), check_exact=True)
    ok(list(mr.removed_images().index) == sorted(subset), tag + ": removed_images")
    kept = [i for i in range(n) if not flags[i]]
    ok(list(mr.kept_images().index) == kept, tag + ": kept_images")
    outr = os.path.join(tmp, "rem_{}.mdoc".format(idx))
    mr.write(outr)
    written_matches(outr, exp, [recs[i] for i in kept], tag + " removed written")
    back = Mdoc(outr)
    assert_frame_equal(back.imgs, m.imgs.iloc[kept].reset_index(drop=True), check_exact=True)
    mr.write(outr, overwrite=True, removed=True)
    written_matches(outr, exp, recs, tag + " removed=True written")
    # a second removal counts among the kept images
    if len(kept) > 1:
        sub2 = rng.sample(range(len(kept)), rng.randint(1, len(kept) - 1))
        mr.remove_images(sub2)
        gone = set(subset) | {kept[j] for j in sub2}
        ok(list(mr.imgs["Removed"]) == [i in gone for i in range(n)], tag + ": second removal")
        mr.write(outr, overwrite=True)
        written_matches(outr, exp, [recs[i] for i in range(n) if i not in gone], tag + " second removal written")
        mr.reset_images()
        mr.remove_images(sub2, kept_only=False)
        ok(list(mr.imgs["Removed"]) == [i in set(sub2) for i in range(n)], tag + ": kept_only=False")
    # removal after sorting addresses the sorted order
    if not ties and n > 1:
        mq = Mdoc(src)
        mq.sort_by_tilt()
        sub3 = rng.sample(range(n), rng.randint(1, n - 1))
        mq.remove_images(sub3)
        gone = {order[j] for j in sub3}
        ok([bool(mq.imgs.loc[i, "Removed"]) for i in range(n)] == [i in gone for i in range(n)], tag + ": remove after sort")
        mq.write(outr, overwrite=True)
        written_matches(outr, exp, [recs[i] for i in order if i not in gone], tag + " sorted+removed written")
    # module level (indices numbered from 1 and from 0)
    if n > 1:
        sub4 = sorted(rng.sample(range(n), rng.randint(1, n - 1)))
        one = rng.random() < 0.5
        arg = [j + 1 for j in sub4] if one else list(sub4)
        arg_before = list(arg)
        outm = os.path.join(tmp, "modrem_{}.mdoc".format(idx))
        mm = mdoc_mod.remove_images(src, arg, numbered_from_1=one, output_file=outm)
        ok(arg == arg_before, tag + ": index list modified")
        ok(list(mm.imgs["Removed"]) == [i in set(sub4) for i in range(n)], tag + ": module remove flags")
        written_matches(outm, exp, [recs[i] for i in range(n) if i not in set(sub4)], tag + " module remove written")

    # ---- loaders that read the mdoc
    tl = ioutils.tlt_load(src)
    ok(tl.dtype == np.float64 and list(tl) == sorted(r["TiltAngle"] for r in recs), tag + ": tlt_load")
    tl2 = ioutils.tlt_load(src, sort_angles=False)
    ok(list(tl2) == [r["TiltAngle"] for r in recs], tag + ": tlt_load unsorted")
    if with_dose and sid == "ZValue":
        d = ioutils.total_dose_load(src, sort_mdoc=False)
        ok([float(x) for x in d] == [float(r["PriorRecordDose"] + r["ExposureDose"]) for r in recs], tag + ": dose")
        if not ties:
            d = ioutils.total_dose_load(src)
            ok([float(x) for x in d] == [float(recs[i]["PriorRecordDose"] + recs[i]["ExposureDose"]) for i in order], tag + ": dose sorted")

    ok(read_bytes(src) == src_bytes, tag + ": input file changed")


# --------------------------------------------------------------------------------------------------------------------
# function equivalence beyond the grammar: irregular and malformed line lists
# --------------------------------------------------------------------------------------------------------------------
def outcome(fn, data, sid):
    try:
        return ("ok", fn(data, sid))
    except Exception as e:  # noqa
        return ("err", type(e), str(e))


def check_irregular():
    cases = []
    base = ["[ZValue = 0]\n", "TiltAngle = 1.5\n", "A = 1\n", "\n", "[ZValue = 1]\n", "TiltAngle = -2\n", "A = x y\n", "\n"]
    cases.append(("regular", base, "ZValue"))
    cases.append(("no trailing blank", base[:-1], "ZValue"))
    cases.append(("missing key later", base[:6] + ["\n"], "ZValue"))
    cases.append(("extra key later", base + ["[ZValue = 2]\n", "TiltAngle = 3\n", "A = 2\n", "B = 7.5\n"], "ZValue"))
    cases.append(("keys in other order", base + ["[ZValue = 2]\n", "A = 2\n", "TiltAngle = 3\n"], "ZValue"))
    cases.append(("blank lines inside", ["\n", "  \n"] + base[:2] + ["\n", "\t\n"] + base[2:], "ZValue"))
    cases.append(("leading non-section lines", ["X = 1\n"] + base, "ZValue"))
    cases.append(("single image", base[:3], "ZValue"))
    cases.append(("duplicate section header", ["[ZValue = 0]\n", "[ZValue = 1]\n", "TiltAngle = 1\n"], "ZValue"))
    cases.append(("frameset", [l.replace("ZValue", "FrameSet") for l in base], "FrameSet"))
    cases.append(("section id mismatch", base, "FrameSet"))
    cases.append(("empty", [], "ZValue"))
    cases.append(("only blanks", ["\n", "   \n"], "ZValue"))
    cases.append(("two equal signs", base[:2] + ["A = b = c\n"], "ZValue"))
    cases.append(("no equal sign", base[:2] + ["novalue\n"], "ZValue"))
    cases.append(("no tilt angle", ["[ZValue = 0]\n", "A = 1\n"], "ZValue"))
    cases.append(("text zvalue", ["[ZValue = a]\n", "TiltAngle = 1\n"], "ZValue"))
    cases.append(("text tilt", ["[ZValue = 0]\n", "TiltAngle = abc\n"], "ZValue"))
    for name, data, sid in cases:
        for as_iter in (False, True):
            before = list(data)
            r = outcome(orig_parse_images, iter(data) if as_iter else data, sid)
            g = outcome(Mdoc._parse_images, iter(data) if as_iter else data, sid)
            ok(data == before, "irregular '{}': lines modified".format(name))
            ok(r[0] == g[0], "irregular '{}': {} vs {}".format(name, r, g))
            if r[0] == "ok":
                assert_frame_equal(g[1], r[1], check_exact=True)
            else:
                ok(r[1:] == g[1:], "irregular '{}': errors differ {} vs {}".format(name, r, g))
    # random irregular lists: sections with randomly dropped / added keys and blank lines
    for t in range(40):
        n = rng.randint(1, 12)
        keys = rng.sample(IMG_KEYS, rng.randint(0, 5))
        data = []
        for _ in range(rng.randint(0, 2)):
            data.append(rng.choice(["\n", "  \n"]))
        for i in range(n):
            data.append("[ZValue = {}]\n".format(i))
            ks = ["TiltAngle"] + [k for k in keys if rng.random() < 0.8]
            rng.shuffle(ks)
            for k in ks:
                v = repr(round(rng.uniform(-60, 60), 2)) if k == "TiltAngle" else gen_value()
                data.append("{} = {}\n".format(k, v))
            if rng.random() < 0.2:
                data.append("Extra{} = {}\n".format(rng.randint(0, 2), gen_value()))
            for _ in range(rng.randint(0, 2)):
                data.append("\n")
        before = list(data)
        r = outcome(orig_parse_images, data, "ZValue")
        g = outcome(Mdoc._parse_images, data, "ZValue")
        ok(data == before, "random irregular {}: lines modified".format(t))
        ok(r[0] == g[0] == "ok", "random irregular {}: {} / {}".format(t, r[0], g[0]))
        assert_frame_equal(g[1], r[1], check_exact=True)


def main():
    with tempfile.TemporaryDirectory() as tmp:
        sizes = [1, 1, 2, 2, 3, 80, 79, 41, 61] + [rng.randint(1, 12) for _ in range(24)] + [rng.randint(13, 80) for _ in range(7)]
        for idx, n in enumerate(sizes):
            check_file(tmp, idx, n, with_dose=(idx % 3 == 0))
        for j, n in enumerate([2, 5, 9, 30]):
            check_file(tmp, 100 + j, n, ties=True, with_dose=(j % 2 == 0))
        for j, n in enumerate([1, 4, 17]):
            check_file(tmp, 200 + j, n, section_id="FrameSet")
        check_irregular()
    print("PASS ({} checks)".format(n_checks))


if __name__ == "__main__":
    main()
