"""C11 -- map files round-trip voxels and axis order across MRC, REC and EM.

Run as:  cd /tmp/wt7/C11 && /venv/bin/python /tmp/seedsS/C11/<x>/demo.py

Part 1 checks the property itself against independent header / byte parsers (no mrcfile, no emfile).
Part 2 runs the functions of the worktree next to a verbatim copy of the original functions (ORIGINAL_SOURCE, executed in
        a copy of the module namespace) on the same inputs and compares files (bytes), return values and exceptions.
Part 3 holds the boundary inputs the idioms touched by the three changes are notorious for (file-name tables / regex /
        for-else dispatch; arrays taken out of a closed file; skipped no-op casts and aliasing).
Prints PASS and exits 0 when everything holds.
"""
import os
import sys

sys.path.insert(0, os.getcwd())

import itertools
import shutil
import struct
import tempfile
import warnings

import numpy as np

from cryocat import cryomap

warnings.simplefilter("ignore")  # mrcfile warns about NaN / Inf voxels; they are part of the test data

SEED = int(os.environ.get("VERIF_SEED", "20260928"))
rng = np.random.default_rng(SEED)

# --------------------------------------------------------------------------------------------------------------------
# verbatim copy of the original functions (docstrings dropped), run in a copy of the module namespace
# --------------------------------------------------------------------------------------------------------------------
ORIGINAL_SOURCE = r'''
def read(input_map, transpose=True, data_type=None):
    if isinstance(input_map, str):

        def valid_mrc(filename):
            pattern = r"\.(mrc|ali|rec|st)(\.\d+)?$"
            return bool(re.search(pattern, filename))

        if valid_mrc(input_map):
            data = mrcfile.open(input_map).data
        elif input_map.endswith(".em"):
            data = emfile.read(input_map)[1]
        else:
            raise ValueError("The input map file name", input_map, "is neither em or mrc file!")

        if transpose:
            data = data.transpose(2, 1, 0)
    elif isinstance(input_map, np.ndarray):
        data = np.array(input_map)
    else:
        raise ValueError(f"Input map must be path to valid file or nparray")

    data = np.array(data, copy=True)
    if data_type is not None:
        data = data.astype(data_type)

    return data


def write(data_to_write, file_name, transpose=True, data_type=None, overwrite=True):
    if data_type is not None:
        data_to_write = data_to_write.astype(data_type)

    if transpose and data_to_write.ndim == 3:
        data_to_write = data_to_write.transpose(2, 1, 0)

    if data_to_write.dtype == np.float64:
        data_to_write = data_to_write.astype(np.float32)

    if file_name.endswith(".mrc") or file_name.endswith(".rec"):
        mrcfile.write(name=file_name, data=data_to_write, overwrite=overwrite)
    elif file_name.endswith(".em"):
        emfile.write(file_name, data=data_to_write, overwrite=overwrite)
    else:
        raise ValueError("The output file name", file_name, "has to end with .mrc, .rec or .em!")


def invert_contrast(input_map, output_name=None):
    input_map = read(input_map)
    inverted_map = input_map * (-1)

    if output_name is not None:
        if inverted_map.dtype == np.float64:
            data_type = np.single
        else:
            data_type = inverted_map.dtype

        write(inverted_map, output_name, data_type=data_type)

    return inverted_map


def em2mrc(map_name, invert=False, overwrite=True, output_name=None):
    if not isinstance(map_name, str):
        raise ValueError(f"Input file must be a string, valid path")
    elif not map_name.endswith(".em"):
        raise ValueError(f"Provided path must be .em file")
    data_to_write = read(map_name)

    if invert:
        data_to_write = data_to_write * (-1)

    if output_name is None:
        output_name = map_name[:-2] + "mrc"
    elif not output_name.endswith(".mrc"):
        raise ValueError(f"Specified output file name must end with .mrc")
    write(data_to_write, output_name, overwrite=overwrite)


def mrc2em(map_name, invert=False, overwrite=True, output_name=None):
    if not isinstance(map_name, str):
        raise ValueError(f"Input is not a string")
    else:
        if not map_name.endswith(".mrc"):
            raise ValueError(f"Input file is not .mrc file")
    data_to_write = read(map_name)

    if invert:
        data_to_write = data_to_write * (-1)

    if output_name is None:
        output_name = map_name[:-3] + "em"
    elif not output_name.endswith(".em"):
        raise ValueError(f"Specified output_name is not .em file")

    write(data_to_write, output_name, overwrite=overwrite)
'''
_orig_ns = dict(vars(cryomap))
exec(compile(ORIGINAL_SOURCE, "<original cryomap functions>", "exec"), _orig_ns)


class _NS:
    def __init__(self, d):
        for k in ("read", "write", "invert_contrast", "em2mrc", "mrc2em"):
            setattr(self, k, d[k])


ORIG = _NS(_orig_ns)
NEW = _NS(vars(cryomap))

# --------------------------------------------------------------------------------------------------------------------
# independent parsers: bytes -> (dtype, (nx, ny, nz), flat voxel stream in file order)
# --------------------------------------------------------------------------------------------------------------------
MRC_MODES = {0: np.dtype("<i1"), 1: np.dtype("<i2"), 2: np.dtype("<f4")}
EM_CODES = {1: np.dtype("<i1"), 2: np.dtype("<i2"), 4: np.dtype("<i4"), 5: np.dtype("<f4"), 9: np.dtype("<f8")}


def parse_mrc(path):
    with open(path, "rb") as f:
        raw = f.read()
    nx, ny, nz, mode = struct.unpack("<4i", raw[0:16])
    mapc, mapr, maps = struct.unpack("<3i", raw[64:76])
    nsymbt = struct.unpack("<i", raw[92:96])[0]
    assert raw[208:212] == b"MAP ", "MRC map id missing"
    assert raw[212:214] == b"\x44\x44", "MRC machine stamp is not little endian"
    assert (mapc, mapr, maps) == (1, 2, 3), "MRC axis mapping is not x,y,z"
    dt = MRC_MODES[mode]
    body = raw[1024 + nsymbt :]
    assert len(body) == nx * ny * nz * dt.itemsize, "MRC data block length does not match nx*ny*nz"
    return dt, (nx, ny, nz), np.frombuffer(body, dtype=dt)


def parse_em(path):
    with open(path, "rb") as f:
        raw = f.read()
    machine, _, _, code = struct.unpack("<4b", raw[0:4])
    nx, ny, nz = struct.unpack("<3i", raw[4:16])
    assert machine == 6, "EM machine code is not 6 (PC, little endian)"
    dt = EM_CODES[code]
    body = raw[512:]
    assert len(body) == nx * ny * nz * dt.itemsize, "EM data block length does not match xdim*ydim*zdim"
    return dt, (nx, ny, nz), np.frombuffer(body, dtype=dt)


def parse(path):
    return parse_em(path) if path.endswith(".em") else parse_mrc(path)


def voxel_stream(arr_xyz):
    """x fastest, then y, then z -- written with plain loops over the index formula, not with transpose."""
    nx, ny, nz = arr_xyz.shape
    out = np.empty(nx * ny * nz, dtype=arr_xyz.dtype)
    for z in range(nz):
        for y in range(ny):
            base = (z * ny + y) * nx
            out[base : base + nx] = arr_xyz[:, y, z]
    return out


def same(a, b):
    a = np.asarray(a)
    b = np.asarray(b)
    if a.shape != b.shape or a.dtype != b.dtype:
        return False
    if a.dtype.kind == "f":
        return bool(np.array_equal(a, b, equal_nan=True))
    return bool(np.array_equal(a, b))


def file_fingerprint(path):
    """Bytes of a written file without the MRC label block (it holds a time stamp of the second of writing)."""
    with open(path, "rb") as f:
        raw = f.read()
    if path.endswith(".em"):
        return raw
    return raw[:224] + raw[1024:]


def narrowed(dtype):
    return np.dtype(np.float32) if np.dtype(dtype) == np.float64 else np.dtype(dtype)


# --------------------------------------------------------------------------------------------------------------------
# inputs
# --------------------------------------------------------------------------------------------------------------------
DTYPES = [np.float32, np.float64, np.int16, np.int8]
EXTS = [".mrc", ".rec", ".em"]


def make_array(shape, dtype, flavour=0):
    dtype = np.dtype(dtype)
    n = int(np.prod(shape))
    if dtype.kind == "f":
        a = rng.normal(0.0, 50.0, size=n)
        if flavour == 1:  # exact zeros, negative zero, huge / tiny, values that do not fit float32 exactly
            a[rng.integers(0, n, size=max(1, n // 5))] = 0.0
            a[0] = -0.0
            a[-1] = 1.0 / 3.0
            a[n // 2] = -3.0e38 if dtype == np.float32 else 1.0e-50
        if flavour == 2:  # NaN holes and infinities
            a[rng.integers(0, n, size=max(1, n // 7))] = np.nan
            a[0] = np.inf
            a[-1] = -np.inf
        if flavour == 3:
            a[:] = 0.0
        a = a.astype(dtype)
    else:
        info = np.iinfo(dtype)
        a = rng.integers(info.min, info.max + 1, size=n).astype(dtype)
        if flavour == 1:
            a[0] = info.min  # -128 / -32768: the value whose negation wraps
            a[-1] = info.max
            a[n // 2] = 0
        if flavour == 3:
            a[:] = 0
    return a.reshape(shape)


def shapes():
    fixed = [(1, 1, 1), (1, 2, 3), (3, 2, 1), (1, 1, 48), (48, 1, 1), (1, 48, 1), (2, 3, 5), (5, 3, 2), (7, 7, 7),
             (8, 8, 8), (48, 47, 46), (4, 9, 4), (9, 4, 4), (4, 4, 9), (17, 1, 16), (16, 31, 2)]
    rnd = [tuple(int(v) for v in rng.integers(1, 49, size=3)) for _ in range(14)]
    return fixed + rnd


failures = []


def check(cond, msg):
    if not cond:
        failures.append(msg)
        if len(failures) < 25:
            print("FAIL:", msg)


def outcome(fn, *args, **kwargs):
    """('ok', value) or ('raise', type, args) -- for the side-by-side comparison."""
    try:
        return ("ok", fn(*args, **kwargs))
    except Exception as err:  # noqa: BLE001 - the comparison is about which exception comes out
        return ("raise", type(err), err.args)


def same_outcome(o1, o2, compare_args=True):
    if o1[0] != o2[0]:
        return False
    if o1[0] == "raise":
        return o1[1] is o2[1] and (not compare_args or o1[2] == o2[2])
    if o1[1] is None or o2[1] is None:
        return o1[1] is None and o2[1] is None
    return same(o1[1], o2[1])


tmp = tempfile.mkdtemp(prefix="c11_demo_")
counter = itertools.count()


def fresh(ext, sub=None):
    d = tmp if sub is None else os.path.join(tmp, sub)
    os.makedirs(d, exist_ok=True)
    return os.path.join(d, f"vol_{next(counter):05d}{ext}")


try:
    # ================================================================================================================
    # Part 1 -- the property, against the independent parsers
    # ================================================================================================================
    n_cases = 0
    for si, shape in enumerate(shapes()):
        for di, dtype in enumerate(DTYPES):
            arr = make_array(shape, dtype, flavour=(si + di) % 4)
            keep = arr.copy()
            for ext in EXTS:
                # ---- default options
                p = fresh(ext)
                check(cryomap.write(arr, p) is None, f"write returns something {shape} {dtype} {ext}")
                check(same(arr, keep), f"write changed the caller's array {shape} {dtype} {ext}")
                fdt, fshape, stream = parse(p)
                want = arr.astype(narrowed(dtype))
                check(fshape == tuple(shape), f"header nx,ny,nz {fshape} != shape {shape} ({dtype.__name__}, {ext})")
                check(fdt == want.dtype, f"file dtype {fdt} != {want.dtype} ({shape}, {ext})")
                check(same(stream, voxel_stream(want)), f"x is not fastest on disk / voxels differ {shape} {dtype} {ext}")
                back = cryomap.read(p)
                check(same(back, want), f"round trip differs {shape} {dtype.__name__} {ext}")
                check(back.flags.writeable and back.flags.owndata, f"read() result is not an own writable array {ext}")
                # repeated reads of the same file give equal, independent arrays
                back2 = cryomap.read(p)
                check(same(back, back2) and not np.shares_memory(back, back2), f"second read differs / aliases {ext}")
                # ---- read options
                raw = cryomap.read(p, transpose=False)
                check(raw.shape == tuple(shape)[::-1] and same(raw.reshape(-1), stream),
                      f"read(transpose=False) is not the file order {shape} {ext}")
                for rdt in (np.float32, np.float64, np.int16, "float32", float):
                    if want.dtype.kind == "f" and np.dtype(rdt).kind != "f":
                        continue  # NaN -> int is not defined
                    r = cryomap.read(p, data_type=rdt)
                    check(same(r, want.astype(rdt)), f"read(data_type={rdt}) differs {shape} {dtype.__name__} {ext}")
                n_cases += 1

            # ---- write options (one extension per case, cycling)
            ext = EXTS[(si + di) % 3]
            for wdt in (None, np.float32, np.single, np.float64, np.int16, np.int8, "float32", "f4", float,
                        np.dtype("int16"), np.dtype(dtype), dtype):
                src = arr
                if wdt is not None and np.dtype(wdt).kind != "f" and arr.dtype.kind == "f":
                    src = np.nan_to_num(arr, nan=0.0, posinf=100.0, neginf=-100.0).clip(-120, 120)
                for tr in (True, False):
                    p = fresh(ext)
                    cryomap.write(src, p, transpose=tr, data_type=wdt)
                    cast = src if wdt is None else src.astype(wdt)
                    want = cast.astype(narrowed(cast.dtype))
                    fdt, fshape, stream = parse(p)
                    if tr:
                        check(fshape == tuple(shape) and fdt == want.dtype and same(stream, voxel_stream(want)),
                              f"write(data_type={wdt}) file differs {shape} {dtype.__name__} {ext}")
                    else:
                        # the array is taken as (z, y, x): last index fastest
                        check(fshape == tuple(shape)[::-1] and fdt == want.dtype
                              and same(stream, np.ascontiguousarray(want).reshape(-1)),
                              f"write(transpose=False, data_type={wdt}) file differs {shape} {dtype.__name__} {ext}")
                    check(same(cryomap.read(p, transpose=tr), want),
                          f"round trip transpose={tr} data_type={wdt} differs {shape} {dtype.__name__} {ext}")
                    n_cases += 1

    # ---- conversions
    n_conv = 0
    for si, shape in enumerate(shapes()[:22]):
        for di, dtype in enumerate(DTYPES):
            arr = make_array(shape, dtype, flavour=(si + di + 1) % 4)
            want = arr.astype(narrowed(dtype))
            for invert in (False, True):
                expect = want * (-1) if invert else want
                for explicit in (False, True):
                    # EM -> MRC
                    src = fresh(".em", sub=f"conv{n_conv}")
                    cryomap.write(arr, src)
                    before = file_fingerprint(src)
                    out = (src[:-3] + "_converted.mrc") if explicit else (src[:-3] + ".mrc")
                    kw = {"output_name": out} if explicit else {}
                    check(cryomap.em2mrc(src, invert=invert, **kw) is None, "em2mrc returns something")
                    check(os.path.exists(out), f"em2mrc did not create {os.path.basename(out)}")
                    fdt, fshape, stream = parse_mrc(out)
                    check(fshape == tuple(shape) and fdt == expect.dtype and same(stream, voxel_stream(expect)),
                          f"em2mrc voxels differ {shape} {dtype.__name__} invert={invert} explicit={explicit}")
                    check(same(cryomap.read(out), expect), f"em2mrc read back differs {shape} {dtype.__name__}")
                    check(file_fingerprint(src) == before, "em2mrc touched its input")
                    # refuse to overwrite
                    stamp = file_fingerprint(out)
                    o = outcome(cryomap.em2mrc, src, invert=not invert, overwrite=False, **kw)
                    check(o[0] == "raise" and o[1] is ValueError, f"em2mrc(overwrite=False) did not refuse: {o[:2]}")
                    check(file_fingerprint(out) == stamp, "em2mrc(overwrite=False) changed the existing file")
                    # overwrite allowed: new content arrives
                    cryomap.em2mrc(src, invert=not invert, overwrite=True, **kw)
                    check(same(cryomap.read(out), want if invert else want * (-1)), "em2mrc(overwrite=True) kept old data")

                    # MRC -> EM
                    src = fresh(".mrc", sub=f"conv{n_conv}")
                    cryomap.write(arr, src)
                    before = file_fingerprint(src)
                    out = (src[:-4] + "_converted.em") if explicit else (src[:-4] + ".em")
                    kw = {"output_name": out} if explicit else {}
                    check(cryomap.mrc2em(src, invert=invert, **kw) is None, "mrc2em returns something")
                    check(os.path.exists(out), f"mrc2em did not create {os.path.basename(out)}")
                    fdt, fshape, stream = parse_em(out)
                    check(fshape == tuple(shape) and fdt == expect.dtype and same(stream, voxel_stream(expect)),
                          f"mrc2em voxels differ {shape} {dtype.__name__} invert={invert} explicit={explicit}")
                    check(same(cryomap.read(out), expect), f"mrc2em read back differs {shape} {dtype.__name__}")
                    check(file_fingerprint(src) == before, "mrc2em touched its input")
                    stamp = file_fingerprint(out)
                    o = outcome(cryomap.mrc2em, src, invert=not invert, overwrite=False, **kw)
                    check(o[0] == "raise" and o[1] is ValueError, f"mrc2em(overwrite=False) did not refuse: {o[:2]}")
                    check(file_fingerprint(out) == stamp, "mrc2em(overwrite=False) changed the existing file")
                    cryomap.mrc2em(src, invert=not invert, overwrite=True, **kw)
                    check(same(cryomap.read(out), want if invert else want * (-1)), "mrc2em(overwrite=True) kept old data")
                    n_conv += 1

    # ---- write(overwrite=False) refuses for all three extensions, and writes when the file is not there
    for ext in EXTS:
        a1 = make_array((3, 4, 5), np.float32)
        a2 = make_array((3, 4, 5), np.float32)
        p = fresh(ext)
        cryomap.write(a1, p, overwrite=False)
        check(same(cryomap.read(p), a1), f"write(overwrite=False) to a new name did not write {ext}")
        stamp = file_fingerprint(p)
        o = outcome(cryomap.write, a2, p, overwrite=False)
        check(o[0] == "raise" and o[1] is ValueError, f"write(overwrite=False) did not refuse {ext}: {o[:2]}")
        check(file_fingerprint(p) == stamp, f"write(overwrite=False) changed the file {ext}")
        cryomap.write(a2, p)
        check(same(cryomap.read(p), a2), f"write() default does not overwrite {ext}")

    # ---- invert_contrast (uses read + write)
    for dtype in DTYPES:
        for ext in EXTS:
            arr = make_array((4, 6, 3), dtype, flavour=1)
            p = fresh(ext)
            got = cryomap.invert_contrast(arr, output_name=p)
            check(same(got, arr * (-1)), f"invert_contrast value differs {dtype.__name__}")
            check(same(cryomap.read(p), (arr * (-1)).astype(narrowed(dtype))), f"invert_contrast file differs {ext}")
            fdt, fshape, stream = parse(p)
            check(fshape == (4, 6, 3) and same(stream, voxel_stream((arr * (-1)).astype(narrowed(dtype)))),
                  f"invert_contrast bytes differ {dtype.__name__} {ext}")

    # ================================================================================================================
    # Part 2 -- worktree functions next to the original functions, same inputs
    # ================================================================================================================
    n_cmp = 0
    for si, shape in enumerate(shapes()):
        for di, dtype in enumerate(DTYPES):
            arr = make_array(shape, dtype, flavour=(si + 2 * di) % 4)
            for ext in EXTS:
                for tr in (True, False):
                    for wdt in (None, np.float32, np.float64, np.int16, np.int8, "float32", float, np.dtype(dtype)):
                        if wdt is not None and np.dtype(wdt).kind != "f" and arr.dtype.kind == "f":
                            continue
                        p_new, p_old = fresh(ext, "new"), fresh(ext, "old")
                        o_new = outcome(NEW.write, arr, p_new, transpose=tr, data_type=wdt)
                        o_old = outcome(ORIG.write, arr, p_old, transpose=tr, data_type=wdt)
                        check(same_outcome(o_new, o_old), f"write outcome differs {shape} {dtype.__name__} {ext} {wdt}")
                        check(file_fingerprint(p_new) == file_fingerprint(p_old),
                              f"written bytes differ from the original write {shape} {dtype.__name__} {ext} tr={tr} dt={wdt}")
                        for rtr in (True, False):
                            for rdt in (None, np.float32, np.float64):
                                check(same_outcome(outcome(NEW.read, p_old, transpose=rtr, data_type=rdt),
                                                   outcome(ORIG.read, p_old, transpose=rtr, data_type=rdt)),
                                      f"read differs from the original read {shape} {dtype.__name__} {ext}")
                        os.remove(p_new)
                        os.remove(p_old)
                        n_cmp += 1
            # array input of read(), any number of dimensions
            for a in (arr, arr[0], arr[0, 0], arr[::-1, :, ::-1], np.asfortranarray(arr)):
                for rdt in (None, np.float32, "int16" if arr.dtype.kind != "f" else "float64"):
                    o_new, o_old = outcome(NEW.read, a, data_type=rdt), outcome(ORIG.read, a, data_type=rdt)
                    check(same_outcome(o_new, o_old), "read(array) differs from the original")
                    check(o_new[0] == "ok" and not np.shares_memory(o_new[1], a), "read(array) aliases its input")

    # converters side by side
    for si, shape in enumerate(shapes()[:16]):
        for dtype in DTYPES:
            arr = make_array(shape, dtype, flavour=si % 4)
            for invert in (False, True, 0, 1):
                for explicit in (False, True):
                    for name, src_ext, dst_ext in (("em2mrc", ".em", ".mrc"), ("mrc2em", ".mrc", ".em")):
                        outs = []
                        for tag, impl in (("new", NEW), ("old", ORIG)):
                            src = fresh(src_ext, f"cv_{tag}")
                            ORIG.write(arr, src)
                            out = src[: -len(src_ext)] + ("_x" if explicit else "") + dst_ext
                            kw = {"output_name": out} if explicit else {}
                            o = outcome(getattr(impl, name), src, invert=invert, **kw)
                            o2 = outcome(getattr(impl, name), src, invert=invert, overwrite=False, **kw)
                            outs.append((o, o2[:2], file_fingerprint(out)))
                        check(same_outcome(outs[0][0], outs[1][0]) and outs[0][1] == outs[1][1]
                              and outs[0][2] == outs[1][2], f"{name} differs from the original {shape} {dtype.__name__}")
                        n_cmp += 1

    # invert_contrast side by side (file input and array input, with and without output)
    for dtype in DTYPES + [np.int32, np.uint8]:
        for ext in EXTS:
            arr = make_array((5, 2, 7), dtype, flavour=1) if np.dtype(dtype).kind != "u" else \
                rng.integers(0, 255, size=(5, 2, 7)).astype(dtype)
            p_new, p_old = fresh(ext, "new"), fresh(ext, "old")
            o_new, o_old = outcome(NEW.invert_contrast, arr, p_new), outcome(ORIG.invert_contrast, arr, p_old)
            check(same_outcome(o_new, o_old), f"invert_contrast outcome differs {dtype.__name__} {ext}")
            if os.path.exists(p_old) or os.path.exists(p_new):
                check(file_fingerprint(p_new) == file_fingerprint(p_old), f"invert_contrast file differs {dtype} {ext}")
                check(same_outcome(outcome(NEW.invert_contrast, p_old), outcome(ORIG.invert_contrast, p_old)),
                      "invert_contrast(file) differs")

    # ================================================================================================================
    # Part 3 -- boundary inputs of the idioms
    # ================================================================================================================
    vol = make_array((3, 5, 4), np.float32)
    vol16 = make_array((2, 3, 4), np.int16, flavour=1)

    # ---- 3a: file names (tables / compiled pattern / dispatch loop with else)
    weird_dir = os.path.join(tmp, "dir.mrc", "sub.em", "x.rec")
    os.makedirs(weird_dir, exist_ok=True)
    names = ["a.mrc", "a.rec", "a.em", "a.st", "a.ali", "a.mrc.1", "a.rec.23", "a.st.007", "a.ali.0", "a.em.1",
             "a.mrc.", "a.mrc.x", "a.MRC", "a.Em", "a.EM", "a.mrcs", "a.emx", "amrc", "aem", "mrc", "em", ".mrc", ".em",
             ".rec", "a.em.mrc", "a.mrc.em", "a.rec.em", "a.em.rec", "a.mrc.rec", "a.mrc.mrc", "a.em.em", "a.map",
             "a.mrc.gz", "a.hdf5", "a", "", "a.mrc\n", "a.em\n", "a.mrc ", " .em", "a.st.1.2", "a.rec.1a", "a..mrc",
             "a.mrc.١"]
    for base in names:
        for folder in (tmp + "/names", weird_dir):
            os.makedirs(folder, exist_ok=True)
            path = os.path.join(folder, base)
            res = []
            for impl in (NEW, ORIG):
                if os.path.isfile(path):
                    os.remove(path)
                ow = outcome(impl.write, vol, path)
                created = os.path.isfile(path)
                fp = file_fingerprint(path if path.endswith(".em") else path) if created else None
                if created and not path.endswith(".em"):
                    with open(path, "rb") as f:
                        raw = f.read()
                    fp = raw[:224] + raw[1024:]
                res.append((ow[:2] if ow[0] == "raise" else ow[0], ow[2] if ow[0] == "raise" else None, created, fp))
            check(res[0] == res[1], f"write to name {base!r} behaves differently: {res[0][:3]} vs {res[1][:3]}")
            # reading: put a real MRC and a real EM file under that name in turn
            for real_ext in (".mrc", ".em"):
                donor = fresh(real_ext, "donor")
                ORIG.write(vol, donor)
                try:
                    shutil.copyfile(donor, path)
                except (OSError, ValueError):
                    continue
                o_new, o_old = outcome(NEW.read, path), outcome(ORIG.read, path)
                # messages of library errors may carry addresses; compare kind of outcome, type, and args when ours
                check(same_outcome(o_new, o_old, compare_args=(o_old[0] == "raise" and o_old[1] is ValueError
                                                               and len(o_old[2]) == 3)),
                      f"read of name {base!r} ({real_ext} content) behaves differently: {o_new[:2]} vs {o_old[:2]}")
                if os.path.isfile(path):
                    os.remove(path)
    # converters: names that end with the extension only almost
    for bad in ("x.emx", "x.mrc", "x.EM", "em", ".em", "x.em.mrc", 5, None, b"x.em"):
        check(same_outcome(outcome(NEW.em2mrc, bad), outcome(ORIG.em2mrc, bad)), f"em2mrc({bad!r}) differs")
    for bad in ("x.mrcs", "x.em", "x.MRC", "mrc", ".mrc", "x.rec", "x.mrc.em", 5, None, b"x.mrc"):
        check(same_outcome(outcome(NEW.mrc2em, bad), outcome(ORIG.mrc2em, bad)), f"mrc2em({bad!r}) differs")
    src_em, src_mrc = fresh(".em", "cvn"), fresh(".mrc", "cvn")
    ORIG.write(vol, src_em)
    ORIG.write(vol, src_mrc)
    for out in ("o.rec", "o.em", "o.MRC", "o.mrc.1", "", "mrc", "o.mrc "):
        out_p = os.path.join(tmp, "cvn", out) if out else out
        check(same_outcome(outcome(NEW.em2mrc, src_em, output_name=out_p), outcome(ORIG.em2mrc, src_em, output_name=out_p)),
              f"em2mrc(output_name={out!r}) differs")
        check(not (out and os.path.isfile(out_p)), f"em2mrc wrote a file for the refused name {out!r}")
    for out in ("o.mrc", "o.rec", "o.EM", "o.em.1", "", "em", "o.em "):
        out_p = os.path.join(tmp, "cvn", out) if out else out
        check(same_outcome(outcome(NEW.mrc2em, src_mrc, output_name=out_p), outcome(ORIG.mrc2em, src_mrc, output_name=out_p)),
              f"mrc2em(output_name={out!r}) differs")
        check(not (out and os.path.isfile(out_p)), f"mrc2em wrote a file for the refused name {out!r}")
    # the only file in the directory of a default-name conversion besides the input is <stem>.mrc / <stem>.em
    for name, src in (("em2mrc", src_em), ("mrc2em", src_mrc)):
        d = os.path.join(tmp, "only_" + name)
        os.makedirs(d)
        s = os.path.join(d, "my.vol.v2" + os.path.splitext(src)[1])
        shutil.copyfile(src, s)
        getattr(NEW, name)(s)
        want_names = {"my.vol.v2.em", "my.vol.v2.mrc"}
        check(set(os.listdir(d)) == want_names, f"{name} default output name: {sorted(os.listdir(d))}")
    # bad inputs of read / write
    for bad in (None, 5, [1, 2, 3], b"a.mrc", ("a.mrc",), 1.5):
        check(same_outcome(outcome(NEW.read, bad), outcome(ORIG.read, bad)), f"read({bad!r}) differs")
    missing = os.path.join(tmp, "not_there")
    for ext in (".mrc", ".rec", ".em", ".st", ".txt"):
        o_new, o_old = outcome(NEW.read, missing + ext), outcome(ORIG.read, missing + ext)
        check(same_outcome(o_new, o_old, compare_args=False), f"read(missing{ext}) differs: {o_new[:2]} vs {o_old[:2]}")

    # ---- 3b: arrays taken out of a file that is closed afterwards
    for ext in EXTS:
        p = fresh(ext)
        first = make_array((6, 3, 2), np.float32)
        second = make_array((6, 3, 2), np.float32)
        NEW.write(first, p)
        got = NEW.read(p)
        raw = NEW.read(p, transpose=False)
        NEW.write(second, p)  # same name again: the arrays read before must not follow the file
        check(same(got, first) and same(raw, first.transpose(2, 1, 0)), f"array read before an overwrite changed {ext}")
        got[0, 0, 0] = 12345.0  # writable, and writing does not reach the file
        raw[...] = -1.0
        check(same(NEW.read(p), second), f"writing into a read() result reached the file {ext}")
        os.remove(p)  # the file may be removed: nothing is mapped
        check(got[0, 0, 0] == 12345.0 and same(got.reshape(-1)[1:], first.reshape(-1)[1:]), "array died with its file")
        # write -> read -> write -> read chains on the same name
        cur = first
        for k in range(4):
            NEW.write(cur, p)
            cur2 = NEW.read(p)
            check(same(cur2, cur), f"chain step {k} differs {ext}")
            cur = (cur2 * 2).astype(np.float32)
    # files that are not 3-D volumes / damaged files: same kind of failure as before (type; message may gain context)
    import mrcfile as _mrcfile

    p2d = fresh(".mrc")
    _mrcfile.write(p2d, np.arange(12, dtype=np.float32).reshape(3, 4), overwrite=True)
    o_new, o_old = outcome(NEW.read, p2d), outcome(ORIG.read, p2d)
    check(same_outcome(o_new, o_old, compare_args=False), f"read(2-D mrc) differs: {o_new[:2]} vs {o_old[:2]}")
    check(same_outcome(outcome(NEW.read, p2d, transpose=False), outcome(ORIG.read, p2d, transpose=False)),
          "read(2-D mrc, transpose=False) differs")
    p4d = fresh(".mrc")
    _mrcfile.write(p4d, np.arange(48, dtype=np.int16).reshape(2, 2, 3, 4), overwrite=True)
    o_new, o_old = outcome(NEW.read, p4d), outcome(ORIG.read, p4d)
    check(same_outcome(o_new, o_old, compare_args=False), f"read(4-D mrc) differs: {o_new[:2]} vs {o_old[:2]}")
    for ext in EXTS:
        p = fresh(ext)
        ORIG.write(vol, p)
        with open(p, "rb") as f:
            rawb = f.read()
        for cut in (0, 10, 600, len(rawb) - 4):
            with open(p, "wb") as f:
                f.write(rawb[:cut])
            o_new, o_old = outcome(NEW.read, p), outcome(ORIG.read, p)
            check(same_outcome(o_new, o_old, compare_args=False), f"read(truncated {ext} at {cut}) differs: "
                  f"{o_new[:2]} vs {o_old[:2]}")
        with open(p, "wb") as f:  # longer than the header says: mrcfile warns, the voxels are the first ones
            f.write(rawb + b"\0" * 16)
        check(same_outcome(outcome(NEW.read, p), outcome(ORIG.read, p), compare_args=False), f"read(padded {ext}) differs")
    # many reads in a row (file handles)
    p = fresh(".mrc")
    ORIG.write(vol16, p)
    for _ in range(300):
        if not same(NEW.read(p), vol16):
            check(False, "repeated read differs")
            break

    # ---- 3c: casts that are no casts, layouts, aliasing
    base = make_array((6, 5, 4), np.float32)
    layouts = {
        "C": base,
        "F": np.asfortranarray(base),
        "reversed": base[::-1, ::-1, ::-1],
        "strided": make_array((12, 10, 8), np.float32)[::2, ::2, ::2],
        "transposed view": make_array((4, 5, 6), np.float32).transpose(2, 1, 0),
        "read-only": base.copy(),
        "broadcast": np.broadcast_to(np.float32(2.5), (6, 5, 4)),
        "1x1xN": make_array((1, 1, 9), np.float32),
        "Nx1x1": make_array((9, 1, 1), np.float32),
    }
    layouts["read-only"].flags.writeable = False
    same_type_spellings = [np.float32, np.single, "float32", "f4", "<f4", "=f4", np.dtype("float32"), "single"]
    for lname, a in layouts.items():
        snapshot = np.array(a, copy=True)
        flags = (a.flags.writeable, a.flags.c_contiguous, a.flags.f_contiguous)
        for ext in EXTS:
            for tr in (True, False):
                for wdt in [None] + same_type_spellings + [np.float64, float, "f8", np.int16, ">f4"]:
                    p_new, p_old = fresh(ext, "new"), fresh(ext, "old")
                    o_new = outcome(NEW.write, a, p_new, transpose=tr, data_type=wdt)
                    o_old = outcome(ORIG.write, a, p_old, transpose=tr, data_type=wdt)
                    check(same_outcome(o_new, o_old), f"write({lname}, {wdt!r}) outcome differs {ext}")
                    if o_old[0] == "ok":
                        check(file_fingerprint(p_new) == file_fingerprint(p_old),
                              f"write({lname}, data_type={wdt!r}, transpose={tr}) bytes differ {ext}")
                        if wdt is None or np.dtype(wdt) == np.float32 and np.dtype(wdt).isnative:
                            fdt, fshape, stream = parse(p_new)
                            ref = snapshot if tr else snapshot.transpose(2, 1, 0)
                            check(fshape == ref.shape and same(stream, voxel_stream(ref)),
                                  f"write({lname}) bytes are not the array {ext} tr={tr} dt={wdt!r}")
                    check(same(a, snapshot) and flags == (a.flags.writeable, a.flags.c_contiguous, a.flags.f_contiguous),
                          f"write({lname}) changed the caller's array or its flags")
    for dtype in DTYPES:  # data_type equal to the dtype of the array, every dtype of the quantifier
        a = make_array((3, 4, 2), dtype, flavour=1)
        for ext in EXTS:
            for wdt in (dtype, np.dtype(dtype), np.dtype(dtype).name, np.dtype(dtype).str, np.dtype(dtype).char):
                p_new, p_old = fresh(ext, "new"), fresh(ext, "old")
                NEW.write(a, p_new, data_type=wdt)
                ORIG.write(a, p_old, data_type=wdt)
                check(file_fingerprint(p_new) == file_fingerprint(p_old), f"same-type cast {wdt!r} bytes differ {ext}")
                check(same(NEW.read(p_new), a.astype(narrowed(dtype))), f"same-type cast {wdt!r} round trip differs")
    # data_type values that are no types: same failure
    for wdt in ("garbage", 7, object(), [np.float32], "float33"):
        o_new = outcome(NEW.write, base, fresh(".mrc"), data_type=wdt)
        o_old = outcome(ORIG.write, base, fresh(".mrc"), data_type=wdt)
        check(o_new[0] == o_old[0] and (o_new[0] == "ok" or o_new[1] is o_old[1]),
              f"write(data_type={wdt!r}) differs: {o_new[:2]} vs {o_old[:2]}")
    # the integer minimum: negation wraps in the same way in file and return value
    for dtype in (np.int8, np.int16):
        a = np.full((2, 2, 2), np.iinfo(dtype).min, dtype=dtype)
        for ext in EXTS:
            p_new, p_old = fresh(ext, "new"), fresh(ext, "old")
            check(same_outcome(outcome(NEW.invert_contrast, a, p_new), outcome(ORIG.invert_contrast, a, p_old)),
                  "invert_contrast(int minimum) differs")
            check(file_fingerprint(p_new) == file_fingerprint(p_old), "invert_contrast(int minimum) file differs")

finally:
    shutil.rmtree(tmp, ignore_errors=True)

print(f"seed {SEED}: {n_cases} property cases, {n_conv} conversions, {n_cmp} side-by-side cases, "
      f"{len(failures)} failures")
if failures:
    print("FAIL")
    sys.exit(1)
print("PASS")
