import os, sys

sys.path.insert(0, os.getcwd())

import contextlib, io, itertools, tempfile, textwrap, warnings

warnings.filterwarnings("ignore")
import numpy as np
import mrcfile

from cryocat import tiltstack, ioutils

# ----------------------------------------------------------------------------------------------------------------
# Property C15: tilt-stack operations are lossless selections / permutations of tilt images, independent of
# the axis order of input / output and of array-vs-file input; the written file holds the result.
# The reference below never touches cryocat: canonical layout is A[n, y, x]; an "xyz" array is A.transpose(2,1,0);
# files are written / read with mrcfile directly.
# ----------------------------------------------------------------------------------------------------------------

FAILS = []
N_CHECKS = [0]
TMP = tempfile.mkdtemp(prefix="c15demo_")


def quiet(fn, *args, **kwargs):
    with contextlib.redirect_stdout(io.StringIO()):
        return fn(*args, **kwargs)


def check(cond, msg):
    N_CHECKS[0] += 1
    if not cond:
        FAILS.append(msg)
        if len(FAILS) <= 15:
            print("FAIL:", msg)


def same(a, b, exact=True):
    a = np.asarray(a)
    b = np.asarray(b)
    if a.shape != b.shape or a.dtype != b.dtype:
        return False
    if exact:
        return np.array_equal(a, b)
    return np.allclose(a, b, rtol=1e-5, atol=1e-5)


def make_stack(rng, n, h, w, dtype):
    if dtype == np.int16:
        a = rng.integers(-3000, 3000, size=(n, h, w)).astype(np.int16)
    else:
        a = rng.normal(0, 50, size=(n, h, w)).astype(np.float32)
    # special values: zeros, negative, first / last element marks
    a[0, 0, 0] = 0
    a[-1, -1, -1] = -7
    a[0, -1, 0] = 11
    return a


def as_input(a, order, kind, tag):
    """canonical A[n,y,x] -> what is handed to cryocat."""
    if kind == "file":
        fn = os.path.join(TMP, f"in_{tag}.mrc")
        mrcfile.write(fn, data=np.ascontiguousarray(a), overwrite=True)
        return fn
    if order == "xyz":
        return np.ascontiguousarray(a.transpose(2, 1, 0))
    return a.copy()


def canon(res, out_order):
    """returned array -> canonical [n,y,x]."""
    return res.transpose(2, 1, 0) if out_order == "xyz" else res


def read_file(fn):
    with mrcfile.open(fn, permissive=True) as m:
        return np.array(m.data)


def ref_bin(a, f):
    n, h, w = a.shape
    H = -(-h // f) * f
    W = -(-w // f) * f
    p = np.zeros((n, H, W), dtype=np.float64)
    p[:, :h, :w] = a
    out = np.zeros((n, H // f, W // f), dtype=np.float64)
    for i in range(H // f):
        for j in range(W // f):
            out[:, i, j] = p[:, i * f : (i + 1) * f, j * f : (j + 1) * f].sum(axis=(1, 2)) / (f * f)
    return out.astype(a.dtype)


def configs(rng, light=False):
    sizes = [(2, 4, 7), (3, 5, 4), (25, 40, 33), (2, 40, 4), (7, 6, 9), (10, 13, 8)]
    for _ in range(2 if light else 5):
        n = int(rng.integers(2, 26))
        h = int(rng.integers(4, 41))
        w = int(rng.integers(4, 41))
        if h == w:
            w = w + 1 if w < 40 else w - 1
        sizes.append((n, h, w))
    k = 0
    for n, h, w in sizes:
        for dtype in (np.float32, np.int16):
            for io_, oo in itertools.product(("xyz", "zyx"), repeat=2):
                for kind in ("array", "file"):
                    if kind == "file" and io_ == "zyx" and (k % 2):
                        # input_order is irrelevant for files; still exercise both but thin out
                        pass
                    for out_on in (False, True):
                        k += 1
                        yield n, h, w, dtype, io_, oo, kind, out_on, k


def run_property(rng, light=False):
    for n, h, w, dtype, io_, oo, kind, out_on, k in configs(rng, light):
        a = make_stack(rng, n, h, w, dtype)
        tag = f"n{n}h{h}w{w}{np.dtype(dtype).name}{io_}{oo}{kind}{int(out_on)}"
        inp = as_input(a, io_, kind, "x")
        inp_backup = inp.copy() if isinstance(inp, np.ndarray) else None
        out = os.path.join(TMP, "out.mrc") if out_on else None

        def finish(res, expected, what, exact=True, outfile=out):
            c = canon(res, oo)
            check(same(c, expected, exact), f"{what} returned array wrong [{tag}]")
            if outfile:
                f = read_file(outfile)
                check(same(f, expected, exact), f"{what} written file wrong [{tag}]")
                os.remove(outfile)
            if inp_backup is not None:
                check(np.array_equal(inp, inp_backup), f"{what} modified its input [{tag}]")

        # --- sorting by angle (no ties, any order) ---
        angles = rng.permutation(np.linspace(-60, 60, n) + rng.uniform(-0.4, 0.4, n)).astype(np.float64)
        perm = sorted(range(n), key=lambda i: angles[i])
        if k % 3 == 0:
            tl = angles.tolist()
        elif k % 3 == 1:
            tl = angles
        else:
            tl = os.path.join(TMP, "a.tlt")
            with open(tl, "w") as fh:
                for v in angles:
                    fh.write(f"{v:.3f}\n")
            perm = sorted(range(n), key=lambda i: float(np.float32(float(f"{angles[i]:.3f}"))))
        res = quiet(tiltstack.sort_tilts_by_angle, inp, tl, output_file=out, input_order=io_, output_order=oo)
        finish(res, a[perm], "sort_tilts_by_angle")

        # --- removing tilts ---
        for from1 in (True, False):
            m = int(rng.integers(1, n))  # at least one stays
            sub0 = sorted(rng.choice(n, size=m, replace=False).tolist())
            if k % 4 == 0:
                sub0 = [0] if from1 else [n - 1]  # first / last element
            if k % 4 == 1:
                sub0 = list(rng.permutation(sub0))  # unordered subset
            keep = [i for i in range(n) if i not in set(int(s) for s in sub0)]
            given = [int(s) + (1 if from1 else 0) for s in sub0]
            form = k % 3
            if form == 1:
                given = np.array(given)
            elif form == 2 and len(given) >= 2:  # (a one-line index file is read as a 0-d array; not used here)
                fn = os.path.join(TMP, "idx.txt")
                with open(fn, "w") as fh:
                    fh.write("".join(f"{g}\n" for g in given))
                given = fn
            res = quiet(
                tiltstack.remove_tilts, inp, given, numbered_from_1=from1, output_file=out, input_order=io_,
                output_order=oo,
            )
            finish(res, a[keep], f"remove_tilts(from1={from1})")

        # --- even / odd split ---
        prefix = os.path.join(TMP, "eo") if out_on else None
        ev, od = quiet(tiltstack.split_stack_even_odd, inp, output_file_prefix=prefix, input_order=io_, output_order=oo)
        ev_c, od_c = canon(ev, oo), canon(od, oo)
        check(same(ev_c, a[[i for i in range(n) if i % 2 == 0]]), f"even stack wrong [{tag}]")
        check(same(od_c, a[[i for i in range(n) if i % 2 == 1]]), f"odd stack wrong [{tag}]")
        inter = np.empty_like(a)
        ok_shapes = ev_c.shape[0] == (n + 1) // 2 and od_c.shape[0] == n // 2
        check(ok_shapes, f"even/odd counts wrong [{tag}]")
        if ok_shapes:
            for i in range(n):
                inter[i] = (ev_c if i % 2 == 0 else od_c)[i // 2]
            check(same(inter, a), f"even/odd do not interleave back [{tag}]")
        if prefix:
            check(same(read_file(prefix + "_even.mrc"), a[0::2]), f"even file wrong [{tag}]")
            check(same(read_file(prefix + "_odd.mrc"), a[1::2]), f"odd file wrong [{tag}]")
            os.remove(prefix + "_even.mrc")
            os.remove(prefix + "_odd.mrc")
        if inp_backup is not None:
            check(np.array_equal(inp, inp_backup), f"split modified its input [{tag}]")

        # --- flips: single flips reverse one axis, twice is the identity ---
        for ax, sl in (("x", (slice(None), slice(None, None, -1), slice(None))),
                       ("y", (slice(None), slice(None), slice(None, None, -1))),
                       ("z", (slice(None, None, -1), slice(None), slice(None)))):
            res = quiet(tiltstack.flip_along_axes, inp, ax if k % 2 else [ax], output_file=out, input_order=io_,
                        output_order=oo)
            finish(res, a[sl], f"flip {ax}")
            # second flip on what the first one returned (fed back in its own output order)
            res2 = quiet(tiltstack.flip_along_axes, np.ascontiguousarray(res), [ax], output_file=out, input_order=oo,
                         output_order=oo)
            finish(res2, a, f"flip {ax} twice")
            res3 = quiet(tiltstack.flip_along_axes, inp, [ax, ax], output_file=out, input_order=io_, output_order=oo)
            finish(res3, a, f"flip [{ax},{ax}]")

        # --- centred crop ---
        nw = int(rng.integers(1, w + 1))
        nh = int(rng.integers(1, h + 1))
        if k % 5 == 0:
            nw, nh = w, h
        if k % 5 == 1:
            nw, nh = None, nh
        ew = w if nw is None else nw
        sw = w // 2 - ew // 2
        sh = h // 2 - nh // 2
        res = quiet(tiltstack.crop, inp, new_width=nw, new_height=nh, output_file=out, input_order=io_, output_order=oo)
        finish(res, a[:, sh : sh + nh, sw : sw + ew], "crop")

        # --- binning ---
        f = int(rng.integers(1, 5))
        res = quiet(tiltstack.bin, inp, f, output_file=out, input_order=io_, output_order=oo)
        finish(res, ref_bin(a, f), "bin", exact=(dtype == np.int16))

        # --- repeated call on the same object gives the same answer ---
        r1 = quiet(tiltstack.remove_tilts, inp, [1], input_order=io_, output_order=oo)
        r2 = quiet(tiltstack.remove_tilts, inp, [1], input_order=io_, output_order=oo)
        check(same(r1, r2) and same(canon(r1, oo), a[1:]), f"repeated remove_tilts differs [{tag}]")


# ----------------------------------------------------------------------------------------------------------------
# Change-specific part: split_stack_even_odd -- original function text kept here and executed in the namespace of the
# module, its outputs compared (values, shapes, dtypes, memory layout, independence of the two halves) with the
# function that is currently in the worktree.
# ----------------------------------------------------------------------------------------------------------------

ORIGINAL = textwrap.dedent(
    '''
    def split_stack_even_odd_ORIG(tilt_stack, output_file_prefix=None, input_order="xyz", output_order="xyz"):
        ts = TiltStack(tilt_stack=tilt_stack, input_order=input_order, output_order=output_order)

        even_stack = []
        odd_stack = []

        if not ts.n_tilts == 1:
            # For each tilt image in the stack
            for i in range(ts.n_tilts):

                # Split to even and odd by using modulo 2
                if i % 2 == 0:
                    even_stack.append(ts.data[i, :, :])
                else:
                    odd_stack.append(ts.data[i, :, :])

            even_stack = np.stack(even_stack, axis=0)
            odd_stack = np.stack(odd_stack, axis=0)

            if output_file_prefix:
                ts.write_out(output_file_prefix + "_even.mrc", new_data=even_stack)
                ts.write_out(output_file_prefix + "_odd.mrc", new_data=odd_stack)

            return ts.correct_order(even_stack), ts.correct_order(odd_stack)
        else:
            raise ValueError(f"Stack contains only 1 tilt.")
    '''
)
ns = dict(vars(tiltstack))
exec(ORIGINAL, ns)
split_orig = ns["split_stack_even_odd_ORIG"]


def compare_with_original(rng):
    for n, h, w, dtype, io_, oo, kind, out_on, k in configs(rng, light=True):
        a = make_stack(rng, n, h, w, dtype)
        tag = f"n{n}h{h}w{w}{np.dtype(dtype).name}{io_}{oo}{kind}{int(out_on)}"
        inp = as_input(a, io_, kind, "y")
        p_new = os.path.join(TMP, "new") if out_on else None
        p_old = os.path.join(TMP, "old") if out_on else None
        e1, o1 = quiet(tiltstack.split_stack_even_odd, inp, p_new, io_, oo)  # positional call, as callers may do
        e0, o0 = quiet(split_orig, inp, p_old, io_, oo)
        for x1, x0, nm in ((e1, e0, "even"), (o1, o0, "odd")):
            check(same(x1, x0), f"{nm}: new != original [{tag}]")
            check(x1.flags["C_CONTIGUOUS"] == x0.flags["C_CONTIGUOUS"] and x1.flags["F_CONTIGUOUS"] == x0.flags["F_CONTIGUOUS"]
                  and x1.strides == x0.strides, f"{nm}: memory layout differs from original [{tag}]")
            check(x1.flags.writeable == x0.flags.writeable, f"{nm}: writeable flag differs [{tag}]")
        check(not np.shares_memory(e1, o1), f"even and odd share memory [{tag}]")
        if isinstance(inp, np.ndarray):
            check(not np.shares_memory(e1, inp) and not np.shares_memory(o1, inp), f"result aliases the input [{tag}]")
            # writing into a result must not leak into the other half nor into the input
            keep_o, keep_in = o1.copy(), inp.copy()
            e1[...] = 1
            check(np.array_equal(o1, keep_o) and np.array_equal(inp, keep_in), f"write-through after split [{tag}]")
        if out_on:
            for suf in ("_even.mrc", "_odd.mrc"):
                f1, f0 = read_file(p_new + suf), read_file(p_old + suf)
                check(same(f1, f0), f"file {suf}: new != original [{tag}]")
                os.remove(p_new + suf)
                os.remove(p_old + suf)

    # the one-tilt stack is still refused in the same way (outside the quantifier, kept anyway)
    one = np.zeros((5, 4, 1), dtype=np.float32)
    for fn in (tiltstack.split_stack_even_odd, split_orig):
        try:
            quiet(fn, one)
            check(False, "single tilt accepted")
        except ValueError as e:
            check("only 1 tilt" in str(e), "single tilt message changed")


if __name__ == "__main__":
    rng = np.random.default_rng(int(os.environ.get("DEMO_SEED", "15")))
    run_property(rng)
    compare_with_original(rng)
    import shutil

    shutil.rmtree(TMP, ignore_errors=True)
    if FAILS:
        print(f"{len(FAILS)} of {N_CHECKS[0]} checks failed")
        print("FAIL")
        sys.exit(1)
    print(f"{N_CHECKS[0]} checks")
    print("PASS")
