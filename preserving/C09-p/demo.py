"""C09 / c -- adapt_to_trimming: new optional argument tomo_id (trimming of one tomogram only); without it the old
route runs untouched.

Checks (1) the property clause "trimming adaptation re-expresses the extraction positions x, y, z relative to the
trimmed volume and keeps exactly those inside it; survivors are never altered apart from the documented coordinate
offset" against an independent per-particle computation, (2) that the method of the tree under test, called the old
way, gives the same table (values, dtypes, row labels) as the original function text kept below, and (3) - only when
the tree under test has the new argument - that tomo_id=t does to the rows of tomogram t what the old function does to
them and leaves every other row alone.

Run:  cd /tmp/wt7/C09 && /venv/bin/python /tmp/seedsT/C09/c/demo.py
"""
import sys, os

sys.path.insert(0, os.getcwd())

import inspect
import warnings

import numpy as np
import pandas as pd

from cryocat import cryomotl
from cryocat.cryomotl import Motl

assert os.path.abspath(cryomotl.__file__).startswith(os.getcwd()), cryomotl.__file__
warnings.simplefilter("ignore")

HAS_TOMO_ID = "tomo_id" in inspect.signature(Motl.adapt_to_trimming).parameters


# ----------------------------------------------------------------------------------------------------------------
# original function text (HEAD 917e6f2), as a free function
# ----------------------------------------------------------------------------------------------------------------
def orig_adapt_to_trimming(self, trim_coord_start, trim_coord_end):
    trimvol_coord = np.asarray(trim_coord_start) - 1
    tdim = np.asarray(trim_coord_end) - trimvol_coord
    self.df.loc[:, ["x", "y", "z"]] = self.df.loc[:, ["x", "y", "z"]] - np.tile(
        trimvol_coord, (self.df.shape[0], 1)
    )
    self.df = self.df.loc[~((self.df["x"] < 1.0) | (self.df["y"] < 1.0) | (self.df["z"] < 1.0)), :]
    self.df = self.df.loc[
        ~((self.df["x"] > tdim[0]) | (self.df["y"] > tdim[1]) | (self.df["z"] > tdim[2])),
        :,
    ]


# ----------------------------------------------------------------------------------------------------------------
# helpers
# ----------------------------------------------------------------------------------------------------------------
def attempt(fn, *args, **kwargs):
    try:
        return ("ok", fn(*args, **kwargs))
    except Exception as e:  # noqa: BLE001 - the kind of failure is part of the behaviour that is compared
        return ("err", type(e).__name__, str(e))


def make_motl(rng, n, tomo_ids, start, end, index="default", integer=False, step=0.25):
    """x, y, z spread inside, on the faces of and beyond the trim box; all values are multiples of `step` (dyadic),
    so the offset subtraction is exact and 'start <= x <= end' is the same statement as '1 <= x - (start-1) <= tdim'."""
    start = np.asarray(start, dtype=float)
    end = np.asarray(end, dtype=float)
    data = {c: np.zeros(n) for c in Motl.motl_columns}
    data["score"] = rng.random(n)
    data["subtomo_id"] = (rng.permutation(n) + 1).astype(float)
    data["tomo_id"] = rng.choice(np.asarray(tomo_ids, dtype=float), size=n) if n else np.zeros(0)
    data["object_id"] = rng.integers(1, 4, size=n).astype(float)
    pos = np.zeros((n, 3))
    for i in range(n):
        for k in range(3):
            a, b = start[k], end[k]
            kind = rng.integers(0, 10)
            if kind < 4 and b >= a:
                v = a + step * rng.integers(0, int((b - a) / step) + 1)  # inside, faces included
            elif kind == 4:
                v = float(rng.choice([a, b, a - step, b + step, a + step, b - step]))  # the faces and their neighbours
            elif kind == 5:
                v = float(rng.choice([0.0, -0.0, 1.0, -1.0, -37.0]))  # zero / negative
            elif kind == 6:
                v = b + step * rng.integers(1, 200)  # beyond the maximum
            elif kind == 7:
                v = a - step * rng.integers(1, 200)  # below the minimum
            else:
                v = step * rng.integers(-40, 400)
            pos[i, k] = np.floor(v) if integer else v
    for k, c in enumerate(["x", "y", "z"]):
        data[c] = pos[:, k]
        # non-zero shifts: trimming looks at the extraction positions x, y, z only, the shifts must not matter
        data["shift_" + c] = rng.choice([0.0, 0.5, -0.75, 3.0, -250.0], size=n)
    data["phi"] = rng.uniform(-180, 180, n)
    data["theta"] = rng.uniform(0, 180, n)
    data["psi"] = rng.uniform(-180, 180, n)
    data["class"] = rng.integers(1, 3, size=n).astype(float)
    df = pd.DataFrame(data, columns=Motl.motl_columns)
    if integer:
        df = df.astype({c: int for c in ["x", "y", "z", "subtomo_id", "tomo_id"]})
    if index == "shuffled":
        df.index = rng.permutation(n) + 100
    elif index == "offset":
        df.index = np.arange(n) * 3 + 7
    elif index == "repeated":
        df.index = np.arange(n) % 3
    return df


def model(df, start, end, tomo_id=None):
    """Independent computation, row by row: which rows stay and what they look like afterwards."""
    start = [float(v) for v in np.asarray(start).tolist()]
    end = [float(v) for v in np.asarray(end).tolist()]
    keep = []
    newpos = []
    for i in range(len(df)):
        p = [df["x"].iloc[i], df["y"].iloc[i], df["z"].iloc[i]]
        if tomo_id is not None and df["tomo_id"].iloc[i] != tomo_id:
            keep.append(True)
            newpos.append(p)
            continue
        inside = all(start[k] <= p[k] <= end[k] for k in range(3))  # in the coordinates of the untrimmed volume
        q = [p[k] - (start[k] - 1.0) for k in range(3)]
        inside_rel = all(1.0 <= q[k] <= end[k] - start[k] + 1.0 for k in range(3))  # in those of the trimmed volume
        assert inside == inside_rel  # exact arithmetic on dyadic values: both statements coincide
        keep.append(inside)
        newpos.append(q)
    keep = np.asarray(keep, dtype=bool)
    return keep, np.asarray(newpos, dtype=float).reshape(len(df), 3)


def check_against_model(result, before, keep, newpos, label):
    """Exactly the rows of `keep`, in order, under their old labels; x, y, z offset, everything else untouched."""
    assert list(result.index) == list(before.index[keep]), label
    assert list(result.columns) == list(before.columns), label
    other = [c for c in before.columns if c not in ("x", "y", "z")]
    pd.testing.assert_frame_equal(result[other], before.loc[keep, other], check_exact=True)
    got = result[["x", "y", "z"]].to_numpy(dtype=float)
    assert got.shape == newpos[keep].shape and np.array_equal(got, newpos[keep]), label


def check_default_route(df, start, end, label, exact_model=True, how="positional"):
    global n_cases, n_removed, n_kept
    before = df.copy(deep=True)
    m_new = Motl(df.copy(deep=True))
    m_old = Motl(df.copy(deep=True))
    if how == "positional":
        r_new = attempt(m_new.adapt_to_trimming, start, end)
    elif how == "keyword":
        r_new = attempt(m_new.adapt_to_trimming, trim_coord_start=start, trim_coord_end=end)
    else:  # the new argument spelled out with its default
        r_new = attempt(m_new.adapt_to_trimming, start, end, None) if HAS_TOMO_ID else attempt(m_new.adapt_to_trimming, start, end)
    r_old = attempt(orig_adapt_to_trimming, m_old, start, end)
    assert r_new[0] == r_old[0], (label, r_new, r_old)
    if r_new[0] == "err":
        assert r_new[1:] == r_old[1:], (label, r_new, r_old)
    else:
        assert r_new[1] is None
    # (2) same table as the original function: values, dtypes, row labels
    pd.testing.assert_frame_equal(m_new.df, m_old.df, check_exact=True)
    # (1) the property
    if exact_model and r_new[0] == "ok":
        keep, newpos = model(before, start, end)
        check_against_model(m_new.df, before, keep, newpos, label)
        n_removed += int((~keep).sum())
        n_kept += int(keep.sum())
        # repeated call on the same object: the survivors are offset once more and filtered again
        keep2, newpos2 = model(m_new.df, start, end)
        snapshot = m_new.df.copy(deep=True)
        m_new.adapt_to_trimming(start, end)
        orig_adapt_to_trimming(m_old, start, end)
        pd.testing.assert_frame_equal(m_new.df, m_old.df, check_exact=True)
        check_against_model(m_new.df, snapshot, keep2, newpos2, label + " (second call)")
    n_cases += 1


def check_tomo_route(df, trims, label):
    """trims: list of (tomo_id, start, end), applied one after the other to the same object."""
    global n_cases, n_tomo_cases
    if not HAS_TOMO_ID:
        return
    m = Motl(df.copy(deep=True))
    for j, (t, start, end) in enumerate(trims):
        snapshot = m.df.copy(deep=True)
        if j % 2:
            res = m.adapt_to_trimming(start, end, t)
        else:
            res = m.adapt_to_trimming(start, end, tomo_id=t)
        assert res is None
        # the property, restricted to the rows of tomogram t; all other rows unaltered
        keep, newpos = model(snapshot, start, end, tomo_id=t)
        check_against_model(m.df, snapshot, keep, newpos, f"{label} / tomogram {t}")
        # ... and the rows of t come out as the ORIGINAL function leaves them when it sees only these rows
        sub = Motl(snapshot.loc[snapshot["tomo_id"] == t].copy(deep=True))
        if len(sub.df):
            orig_adapt_to_trimming(sub, start, end)
            pd.testing.assert_frame_equal(m.df.loc[(m.df["tomo_id"] == t).to_numpy()], sub.df, check_exact=True)
        n_tomo_cases += 1
    n_cases += 1


n_cases = n_removed = n_kept = n_tomo_cases = 0
rng = np.random.default_rng(280926)

for trial in range(260):
    n_tomos = int(rng.integers(1, 5))
    tomo_ids = [float(t) for t in rng.choice(np.arange(1, 40), size=n_tomos, replace=False)]
    n = int(rng.choice([1, 2, 3, 15, 60, 150]))
    integer = trial % 5 == 2
    step = 1.0 if integer else float(rng.choice([1.0, 0.5, 0.25]))
    start = step * rng.integers(-8, 120, size=3)
    size = step * rng.integers(0, 160, size=3)  # size 0: a trimmed volume of one voxel layer (start == end)
    end = start + size
    if trial % 9 == 0:
        start = np.array([1.0, 1.0, 1.0])  # nothing cut off at the lower side: offset 0
    df = make_motl(rng, n, tomo_ids, start, end, index=["default", "shuffled", "offset", "repeated"][trial % 4], integer=integer, step=step)
    form = trial % 4
    if integer:
        s_arg, e_arg = start.astype(int), end.astype(int)
    else:
        s_arg, e_arg = start, end
    if form == 1:
        s_arg, e_arg = s_arg.tolist(), e_arg.tolist()
    elif form == 2:
        s_arg, e_arg = tuple(s_arg.tolist()), tuple(e_arg.tolist())
    check_default_route(df, s_arg, e_arg, f"random {trial}", how=["positional", "keyword", "explicit default"][trial % 3])

    # per-tomogram trimming with a different box for each tomogram, one of them absent from the list
    trims = []
    for t in tomo_ids + [91.0]:
        st = start + step * rng.integers(-4, 5, size=3)
        en = st + step * rng.integers(0, 160, size=3)
        if integer:
            st, en = st.astype(int), en.astype(int)
        trims.append((int(t) if trial % 2 else t, st, en))
    check_tomo_route(df, trims, f"random {trial}")

# ---- edge cases --------------------------------------------------------------------------------------------------
start, end = np.array([10.0, 20.0, 30.0]), np.array([50.0, 40.0, 35.0])
base = make_motl(rng, 40, [1.0, 2.0, 3.0], start, end, index="shuffled")
check_default_route(base.iloc[0:0], start, end, "empty list")
check_tomo_route(base.iloc[0:0], [(1.0, start, end)], "empty list")
for i in range(6):
    check_default_route(base.iloc[[i]], start, end, f"single row {i}")
    check_tomo_route(base.iloc[[i]], [(base["tomo_id"].iloc[i], start, end), (55.0, start, end)], f"single row {i}")
corner = base.iloc[:8].copy()
corner[["x", "y", "z"]] = [
    [10, 20, 30], [50, 40, 35], [10, 40, 30], [9, 20, 30], [10, 20, 36], [50, 41, 35], [50, 40, 35.25], [9.75, 20, 30],
]
check_default_route(corner, start, end, "corners of the box: first four in, last four out")
assert model(corner, start, end)[0].tolist() == [True, True, True, False, False, False, False, False]
check_tomo_route(corner, [(t, start, end) for t in (1.0, 2.0, 3.0)], "corners, tomogram by tomogram")
check_default_route(base, [1, 1, 1], [10**6, 10**6, 10**6], "integer trim values into float columns")
check_default_route(base, end, start, "end below start: nothing is inside")
# NaN hole in a column the trimming does not look at
nan_other = base.copy()
nan_other.iloc[2, nan_other.columns.get_loc("score")] = np.nan
nan_other.iloc[5, nan_other.columns.get_loc("shift_x")] = np.nan
check_default_route(nan_other, start, end, "NaN outside x, y, z")
check_tomo_route(nan_other, [(2.0, start, end)], "NaN outside x, y, z")
# NaN in x itself / non-dyadic values / float trim values into integer columns: only old against new
nan_x = base.copy()
nan_x.iloc[4, nan_x.columns.get_loc("x")] = np.nan
check_default_route(nan_x, start, end, "NaN in x", exact_model=False)
odd = base.copy()
odd[["x", "y", "z"]] = odd[["x", "y", "z"]] + rng.random((len(odd), 3))
check_default_route(odd, start + 0.3, end + 0.7, "arbitrary floats", exact_model=False)
ints = make_motl(rng, 30, [1.0, 2.0], start, end, index="offset", integer=True)
check_default_route(ints, start + 0.5, end + 0.5, "float trim values, integer columns", exact_model=False)
check_default_route(base, [1.0, 2.0], [3.0, 4.0], "two values instead of three (fails alike)", exact_model=False)

print(f"new argument present: {HAS_TOMO_ID}; cases: {n_cases} (per-tomogram calls: {n_tomo_cases}), "
      f"particles removed: {n_removed}, kept: {n_kept}")
assert n_removed > 2000 and n_kept > 300
print("PASS")
