#!/venv/bin/python
"""C03 / change b -- convert_shifts raises a clear ValueError for an unusable pixel size, valid pixel sizes pass untouched

Run as:  cd /tmp/wt11/C03 && /venv/bin/python /tmp/seedsU/C03/b/demo.py
Checks (1) the property C03 against an independent computation (hand-made rotation matrices, own STAR reader and
writer) over many random and edge-case particle lists x RELION version x pixel size x name formats x optics on/off,
and (2) that the functions of the tree give exactly the same tables as the ORIGINAL text of these functions
(kept below in ORIG_SRC, verbatim from the unmodified tree) on the same inputs.  Prints PASS and exits 0.
"""
import os
import sys

sys.path.insert(0, os.getcwd())

# ======================================================================================================
# Property harness for C03 (shared text of the three demos): RELION <-> cryoCAT conversion keeps each
# particle's pose and identity.  Everything below is an INDEPENDENT statement of the convention: rotation
# matrices are built by hand with numpy (no scipy), the STAR files are parsed by a 20-line reader of our own
# and the RELION tables for the import direction are produced by a writer of our own.
# ======================================================================================================
import io
import logging
import re
import tempfile
import warnings

import numpy as np
import pandas as pd

from cryocat import cryomotl
from cryocat.cryomotl import RelionMotl, Motl, EmMotl

warnings.simplefilter("ignore")

MOTL_COLS = Motl.motl_columns
VERSIONS = (3.0, 3.1, 4.0)
CHECKS = {"n": 0}


def ok(cond, msg):
    CHECKS["n"] += 1
    if not cond:
        raise AssertionError(msg)


# ---------- hand-made rotation matrices (degrees) ----------
def _c_s(a):
    a = np.deg2rad(np.asarray(a, dtype=float))
    return np.cos(a), np.sin(a)


def Rx(a):
    c, s = _c_s(a)
    m = np.zeros(c.shape + (3, 3))
    m[..., 0, 0] = 1
    m[..., 1, 1] = c
    m[..., 1, 2] = -s
    m[..., 2, 1] = s
    m[..., 2, 2] = c
    return m


def Ry(a):
    c, s = _c_s(a)
    m = np.zeros(c.shape + (3, 3))
    m[..., 1, 1] = 1
    m[..., 0, 0] = c
    m[..., 0, 2] = s
    m[..., 2, 0] = -s
    m[..., 2, 2] = c
    return m


def Rz(a):
    c, s = _c_s(a)
    m = np.zeros(c.shape + (3, 3))
    m[..., 2, 2] = 1
    m[..., 0, 0] = c
    m[..., 0, 1] = -s
    m[..., 1, 0] = s
    m[..., 1, 1] = c
    return m


def R_motl(phi, theta, psi):
    """cryoCAT: extrinsic zxz(phi, theta, psi) = first phi about z, then theta about x, then psi about z."""
    return Rz(psi) @ Rx(theta) @ Rz(phi)


def R_relion(rot_, tilt, psi):
    """RELION triplet read as intrinsic ZYZ(rot, tilt, psi) = Rz(rot) Ry(tilt) Rz(psi)."""
    return Rz(rot_) @ Ry(tilt) @ Rz(psi)


def is_inverse(Ra, Rb, tol=1e-9):
    prod = Ra @ Rb
    return np.allclose(prod, np.broadcast_to(np.eye(3), prod.shape), atol=tol)


# ---------- random particle lists ----------
SPECIAL = np.array([0.0, 180.0, -180.0, 360.0, -360.0, 90.0, -90.0, 540.0, 1e-9, 180 - 1e-9])


def random_motl_df(rng, n, int_types=False, index_kind="default"):
    df = pd.DataFrame(np.zeros((n, 20)), columns=MOTL_COLS)
    ang = rng.uniform(-720, 720, size=(n, 3))
    # poles of theta, zero / special phi and psi
    for col in range(3):
        pick = rng.random(n) < 0.35
        ang[pick, col] = rng.choice(SPECIAL, size=int(pick.sum()))
    if n >= 1:
        ang[0] = (0.0, 0.0, 0.0) if rng.random() < 0.3 else ang[0]
        ang[-1, 1] = rng.choice([0.0, 180.0, -180.0])
    df[["phi", "theta", "psi"]] = ang
    if int_types:
        df[["x", "y", "z"]] = rng.integers(-500, 500, size=(n, 3)).astype(float)
        df[["shift_x", "shift_y", "shift_z"]] = rng.integers(-5, 6, size=(n, 3)).astype(float)
    else:
        df[["x", "y", "z"]] = rng.uniform(-600, 600, size=(n, 3))
        df[["shift_x", "shift_y", "shift_z"]] = rng.uniform(-4, 4, size=(n, 3))
    zero = rng.random(n) < 0.2
    df.loc[zero, ["shift_x", "shift_y", "shift_z"]] = 0.0
    df["tomo_id"] = rng.integers(0, 999, size=n).astype(float)
    df["subtomo_id"] = rng.permutation(np.arange(1, 5 * n + 1))[:n].astype(float)
    if rng.random() < 0.2:  # all in one half set
        df["subtomo_id"] = df["subtomo_id"] * 2 + int(rng.integers(0, 2))
    df["class"] = rng.integers(0, 6, size=n).astype(float)
    df["object_id"] = rng.integers(1, 9, size=n).astype(float)
    df["geom2"] = rng.integers(1, 4, size=n).astype(float)
    df["score"] = rng.random(n)
    return df


def set_index(m, rng, kind):
    """Give the table of a loaded object a non-default row index (as after a selection / sort)."""
    n = m.df.shape[0]
    if kind == "shuffled":
        m.df.index = rng.permutation(n)
    elif kind == "offset":
        m.df.index = np.arange(n) * 3 + 7
    elif kind == "dupl":
        m.df.index = np.zeros(n, dtype=int)
    return m


def fmt_name(fmt, letter, number):
    """Independent statement of the $xxx / $yyy padding rule: the longest run is replaced (all occurrences)."""
    runs = sorted(re.findall(r"\$" + letter + "+", fmt), key=len)
    if not runs:
        return None
    longest = runs[-1]
    return fmt.replace(longest, str(int(number)).zfill(len(longest) - 1))


TOMO_FORMATS = ["", "/data/tomo/$xxx.rec", "/d/$xxxx/TS_$xxxx_$xx.mrc"]
SUBTOMO_FORMATS = {
    3.0: ["", "/sub/$xxx/$xxx_$yyyyyy_2.6A.mrc", "/sub/tomo$xxxx_p$yyy.mrc"],
    3.1: ["", "/sub/$xxx/$xxx_$yyyyyy_2.6A.mrc", "/sub/tomo$xxxx_p$yyy.mrc"],
    4.0: ["", "TS_$xxx/$yyyy", "run/TS_$xx/$y"],
}


# ---------- tiny independent STAR reader ----------
def read_star(path):
    blocks, name, cols, rows = {}, None, [], []
    for line in io.open(path).read().split("\n"):
        s = line.split("#")[0].strip()
        if not s:
            continue
        if s.startswith("data_"):
            if name is not None:
                blocks[name] = (cols, rows)
            name, cols, rows = s, [], []
        elif s == "loop_":
            continue
        elif s.startswith("_"):
            cols.append(s.split()[0][1:])
        else:
            rows.append(s.split())
    if name is not None:
        blocks[name] = (cols, rows)
    return {k: pd.DataFrame(r, columns=c) for k, (c, r) in blocks.items()}


# ---------- export ----------
def check_export(m, rdf, version, pixel_size, tomo_format, subtomo_format, tol=0.0, from_file=False):
    d = m.df
    n = d.shape[0]
    tn, sn, sh, _ = {
        3.0: ("rlnMicrographName", "rlnImageName", ["rlnOriginX", "rlnOriginY", "rlnOriginZ"], 0),
        3.1: ("rlnMicrographName", "rlnImageName", ["rlnOriginXAngst", "rlnOriginYAngst", "rlnOriginZAngst"], 0),
        4.0: ("rlnTomoName", "rlnTomoParticleName", ["rlnOriginXAngst", "rlnOriginYAngst", "rlnOriginZAngst"], 0),
    }[version]
    ok(rdf.shape[0] == n, "export: number of rows")
    if not from_file:
        ok(list(rdf.index) == list(range(n)), "export: fresh 0..n-1 index")
    full = d[["x", "y", "z"]].to_numpy() + d[["shift_x", "shift_y", "shift_z"]].to_numpy()
    got = rdf[["rlnCoordinateX", "rlnCoordinateY", "rlnCoordinateZ"]].to_numpy(dtype=float)
    if tol == 0.0:
        ok(np.array_equal(got, full), "export: rlnCoordinate != x+shift")
    else:
        ok(np.allclose(got, full, atol=tol, rtol=0), "export(file): rlnCoordinate != x+shift")
    ok(np.all(rdf[sh].to_numpy(dtype=float) == 0.0), "export: origins not zero")
    ra = rdf[["rlnAngleRot", "rlnAngleTilt", "rlnAnglePsi"]].to_numpy(dtype=float)
    ok(np.all(np.isfinite(ra)), "export: angles not finite")
    ok(
        is_inverse(R_relion(ra[:, 0], ra[:, 1], ra[:, 2]), R_motl(d["phi"].to_numpy(), d["theta"].to_numpy(), d["psi"].to_numpy()),
                   tol=1e-9 if tol == 0 else 1e-6),
        "export: ZYZ rotation is not the inverse of the zxz rotation",
    )
    ok(np.all((ra[:, 1] >= -1e-9) & (ra[:, 1] <= 180 + 1e-9)), "export: tilt outside [0,180]")
    # identity
    tid = d["tomo_id"].to_numpy()
    sid = d["subtomo_id"].to_numpy()
    for i in range(n):
        exp_t = str(int(tid[i])) if tomo_format == "" else fmt_name(tomo_format, "x", tid[i])
        ok(str(rdf[tn].iloc[i]) == exp_t, f"export: tomo name row {i}: {rdf[tn].iloc[i]!r} != {exp_t!r}")
        if subtomo_format == "":
            exp_s = str(int(sid[i]))
        else:
            exp_s = fmt_name(subtomo_format, "y", sid[i])
            alt = fmt_name(exp_s, "x", tid[i])
            exp_s = exp_s if alt is None else alt
        ok(str(rdf[sn].iloc[i]) == exp_s, f"export: subtomo name row {i}: {rdf[sn].iloc[i]!r} != {exp_s!r}")
    ok(np.array_equal(rdf["rlnClassNumber"].to_numpy(dtype=float), d["class"].to_numpy()), "export: class")
    half = rdf["rlnRandomSubset"].to_numpy(dtype=float)
    ok(np.array_equal(half, np.where(sid % 2 == 1, 1.0, 2.0)), "export: half-set 1/2 <-> odd/even subtomo number")
    if version < 4.0:
        ok(np.allclose(rdf["rlnPixelSize"].to_numpy(dtype=float), pixel_size, rtol=0, atol=tol), "export: rlnPixelSize")


# ---------- import (independent writer) ----------
def independent_relion_table(rng, n, version, pixel_size, names="str", halfsets="both", unique=True, extra=True):
    ang = np.column_stack([rng.uniform(-400, 400, n), rng.uniform(-200, 380, n), rng.uniform(-400, 400, n)])
    pick = rng.random(n) < 0.3
    ang[pick, 1] = rng.choice([0.0, 180.0, -180.0, 360.0], size=int(pick.sum()))
    pick = rng.random(n) < 0.2
    ang[pick, 0] = rng.choice(SPECIAL, size=int(pick.sum()))
    coord = rng.uniform(-900, 900, size=(n, 3))
    if rng.random() < 0.3:
        coord = np.round(coord)
    origin = rng.uniform(-12, 12, size=(n, 3))
    origin[rng.random(n) < 0.2] = 0.0
    tomo = rng.integers(0, 500, size=n)
    sub = rng.permutation(np.arange(1, 4 * n + 1))[:n] if unique else rng.integers(1, max(2, n // 2 + 1), size=n)
    cls = rng.integers(1, 7, size=n)
    if halfsets == "both" and n >= 2:
        hs = rng.integers(1, 3, size=n)
        hs[0], hs[-1] = (1, 2) if rng.random() < 0.5 else (2, 1)
    elif halfsets == "one":
        hs = np.full(n, int(rng.integers(1, 3)))
    else:
        hs = None
    t = pd.DataFrame()
    t["rlnCoordinateX"], t["rlnCoordinateY"], t["rlnCoordinateZ"] = coord[:, 0], coord[:, 1], coord[:, 2]
    t["rlnAngleRot"], t["rlnAngleTilt"], t["rlnAnglePsi"] = ang[:, 0], ang[:, 1], ang[:, 2]
    if version <= 3.1:
        if names == "str":
            t["rlnMicrographName"] = [f"/data/tomos/TS_{k:03d}_bin4.rec" for k in tomo]
            t["rlnImageName"] = [f"/data/sub/{k:04d}/{k:04d}_{s:06d}_{pixel_size:.2f}A.mrc" for k, s in zip(tomo, sub)]
        else:
            t["rlnMicrographName"] = tomo
            t["rlnImageName"] = sub
        shn = ["rlnOriginX", "rlnOriginY", "rlnOriginZ"] if version == 3.0 else ["rlnOriginXAngst", "rlnOriginYAngst", "rlnOriginZAngst"]
    else:
        if names == "str":
            t["rlnTomoName"] = [f"TS_{k:03d}" for k in tomo]
            t["rlnTomoParticleName"] = [f"TS_{k:03d}/{s}" for k, s in zip(tomo, sub)]
        else:
            t["rlnTomoName"] = tomo
            t["rlnTomoParticleName"] = sub
        shn = ["rlnOriginXAngst", "rlnOriginYAngst", "rlnOriginZAngst"]
    for k, c in enumerate(shn):
        t[c] = origin[:, k]
    t["rlnClassNumber"] = cls
    if hs is not None:
        t["rlnRandomSubset"] = hs
    if extra:
        t["rlnCtfImage"] = [f"ctf_{i}.mrc" for i in range(n)]
        t["rlnMaxValueProbDistribution"] = rng.random(n)
    truth = dict(ang=ang, coord=coord, origin=origin, tomo=tomo, sub=sub, cls=cls, hs=hs)
    return t, truth


def check_import(m, truth, version, pixel_size, index=None, tol=0.0):
    d = m.df
    n = len(truth["tomo"])
    ok(d.shape[0] == n, "import: number of rows")
    ok(sorted(d.columns) == sorted(MOTL_COLS), "import: motl columns")
    if index is not None:
        ok(list(d.index) == list(index), "import: the table keeps the row labels of the RELION table")
    cmpf = (lambda a, b: np.array_equal(a, b)) if tol == 0 else (lambda a, b: np.allclose(a, b, atol=tol, rtol=0))
    ok(cmpf(d[["x", "y", "z"]].to_numpy(), truth["coord"]), "import: x,y,z != rlnCoordinate")
    exp_shift = -truth["origin"]
    if version >= 3.1:
        exp_shift = exp_shift / pixel_size
    ok(np.allclose(d[["shift_x", "shift_y", "shift_z"]].to_numpy(), exp_shift, rtol=1e-12, atol=max(tol, 1e-12)),
       "import: shift != -rlnOrigin (/ pixel size)")
    a = truth["ang"]
    ok(is_inverse(R_motl(d["phi"].to_numpy(), d["theta"].to_numpy(), d["psi"].to_numpy()), R_relion(a[:, 0], a[:, 1], a[:, 2]),
                  tol=1e-9 if tol == 0 else 1e-6), "import: zxz rotation is not the inverse of the ZYZ rotation")
    ok(np.array_equal(d["tomo_id"].to_numpy(dtype=float), truth["tomo"].astype(float)), "import: tomo_id")
    ok(np.array_equal(d["class"].to_numpy(dtype=float), truth["cls"].astype(float)), "import: class")
    ok(np.array_equal(d["geom3"].to_numpy(dtype=float), truth["sub"].astype(float)), "import: geom3 keeps the subtomo number")
    sid = d["subtomo_id"].to_numpy(dtype=float)
    hs = truth["hs"]
    if hs is not None and len(set(hs.tolist())) == 2:
        ok(np.array_equal(sid % 2, hs % 2), "import: half-set 1/2 <-> odd/even subtomo_id")
        ok(np.all(np.diff(sid) > 0) and sid[0] in (1, 2), "import: renumbered ids increase from 1 or 2")
        ok(len(set(sid.tolist())) == n, "import: renumbered ids unique")
    elif len(set(truth["sub"].tolist())) == n:
        ok(np.array_equal(sid, truth["sub"].astype(float)), "import: subtomo_id survives")
    else:
        ok(np.array_equal(sid, np.arange(1, n + 1)), "import: non-unique numbers are renumbered 1..n")
    ok(np.array_equal(m.relion_df["ccSubtomoID"].to_numpy(dtype=float), sid), "import: ccSubtomoID by row position")
    ok(list(m.relion_df.index) == list(range(n)), "import: relion_df has a fresh index")


# ---------- round trips ----------
def check_same_pose(m0, m1, tol):
    c0 = m0.df[["x", "y", "z"]].to_numpy() + m0.df[["shift_x", "shift_y", "shift_z"]].to_numpy()
    c1 = m1.df[["x", "y", "z"]].to_numpy() + m1.df[["shift_x", "shift_y", "shift_z"]].to_numpy()
    ok(np.allclose(c0, c1, atol=tol, rtol=0), "round trip: position")
    R0 = R_motl(m0.df["phi"].to_numpy(), m0.df["theta"].to_numpy(), m0.df["psi"].to_numpy())
    R1 = R_motl(m1.df["phi"].to_numpy(), m1.df["theta"].to_numpy(), m1.df["psi"].to_numpy())
    ok(np.allclose(R0, R1, atol=max(tol, 1e-9) * 10), "round trip: orientation")
    ok(np.array_equal(m0.df["tomo_id"].to_numpy(), m1.df["tomo_id"].to_numpy(dtype=float)), "round trip: tomo_id")
    ok(np.array_equal(m0.df["class"].to_numpy(), m1.df["class"].to_numpy(dtype=float)), "round trip: class")
    ok(np.array_equal(m0.df["subtomo_id"].to_numpy(), m1.df["geom3"].to_numpy(dtype=float)), "round trip: subtomo number in geom3")
    s0 = m0.df["subtomo_id"].to_numpy()
    s1 = m1.df["subtomo_id"].to_numpy(dtype=float)
    ok(np.array_equal(s0 % 2, s1 % 2), "round trip: half-set parity")


def property_run(seed, cls=RelionMotl, sizes=(1, 2, 3, 16, 17, 300), light=False):
    """Runs the whole property over random inputs with class `cls` (RelionMotl or a subclass carrying the
    ORIGINAL text of the changed functions).  Returns a list of the produced tables for old/new comparison."""
    rng = np.random.default_rng(seed)
    produced = []
    tmpdir = tempfile.mkdtemp(prefix="c03demo")
    case = 0
    for n in sizes:
        for version in VERSIONS:
            for int_types in (False, True):
                case += 1
                ps = float(rng.choice([1.0, 0.5, 2.62, 13.48, 7]))
                if int_types and rng.random() < 0.5:
                    ps = int(rng.integers(1, 5))  # integer pixel size
                df0 = random_motl_df(rng, n, int_types=int_types)
                m = cls(df0.copy(), version=version, pixel_size=ps, binning=1.0)
                ok(m.df.shape[0] == n, "constructor keeps rows")
                kind = ["default", "shuffled", "offset", "dupl"][case % 4]
                set_index(m, rng, kind)
                before = m.df.copy()
                tf = TOMO_FORMATS[case % 3]
                sf = SUBTOMO_FORMATS[version][(case // 3) % 3]
                # --- export, in memory, twice on the same object
                rdf = m.create_relion_df(tomo_format=tf, subtomo_format=sf, version=version, pixel_size=ps, binning=1.0)
                rdf2 = m.create_relion_df(tomo_format=tf, subtomo_format=sf)
                pd.testing.assert_frame_equal(rdf, rdf2, check_exact=True)
                pd.testing.assert_frame_equal(m.df, before, check_exact=True)
                ok(m.relion_df.empty, "export leaves relion_df alone")
                check_export(m, rdf, version, ps, tf, sf)
                produced.append(rdf)
                # --- import of the exported table (in-memory round trip); names must be parseable
                back = cls(rdf.copy(), version=version, pixel_size=ps)
                check_same_pose(m, back, tol=1e-9)
                produced.append(back.df)
                # --- through a STAR file, optics block on/off
                if light and n > 20:
                    continue
                for optics in (False, True):
                    if optics and version == 3.0:
                        continue
                    path = f"{tmpdir}/p_{case}_{int(optics)}.star"
                    m.write_out(path, write_optics=optics, tomo_format=tf, subtomo_format=sf, version=version,
                                pixel_size=ps, binning=1.0)
                    blocks = read_star(path)
                    spec = "data_" if version == 3.0 else "data_particles"
                    ok(spec in blocks, f"file: block {spec}")
                    ok(("data_optics" in blocks) == optics, "file: optics block on/off")
                    check_export(m, blocks[spec], version, ps, tf, sf, tol=1e-6, from_file=True)
                    if optics:
                        ok(np.isclose(float(blocks["data_optics"]["rlnImagePixelSize"].iloc[0]), ps, atol=1e-6), "optics pixel size")
                    back = cls(path, pixel_size=ps)
                    ok(back.version == version, "file: version recognised")
                    check_same_pose(m, back, tol=2e-6)
                    back2 = cls(path)  # pixel size taken from the file (rlnPixelSize / optics) or 1.0
                    check_same_pose(m, back2, tol=2e-6)
                    produced.append(back.df)
                pd.testing.assert_frame_equal(m.df, before, check_exact=True)

    # --- import of tables by the independent writer
    for n in sizes:
        for version in VERSIONS:
            for names in ("str", "num"):
                for halfsets in ("both", "one", None):
                    case += 1
                    ps = float(rng.choice([1.0, 0.73, 2.62, 10.0]))
                    unique = (case % 5) != 0
                    t, truth = independent_relion_table(rng, n, version, ps, names=names, halfsets=halfsets, unique=unique)
                    index = None
                    if case % 3 == 1:
                        t.index = rng.permutation(n) + 5
                        index = list(t.index)
                    t_before = t.copy()
                    m = cls(t, version=version, pixel_size=ps)
                    pd.testing.assert_frame_equal(t, t_before, check_exact=True)
                    check_import(m, truth, version, ps, index=index)
                    produced.append(m.df)
                    produced.append(m.relion_df)
                    # version guessed from the columns
                    m2 = cls(t, pixel_size=ps)
                    ok(m2.version == version, "import: version from columns")
                    pd.testing.assert_frame_equal(m2.df, m.df, check_exact=True)
                    # and export again: coordinates = complete position, rotation back to the RELION one
                    if names == "str" and (truth["hs"] is None or len(set(truth["hs"].tolist())) != 2) and unique:
                        rdf = m.create_relion_df(version=version, pixel_size=ps, binning=1.0)
                        a = truth["ang"]
                        ra = rdf[["rlnAngleRot", "rlnAngleTilt", "rlnAnglePsi"]].to_numpy()
                        ok(np.allclose(R_relion(ra[:, 0], ra[:, 1], ra[:, 2]), R_relion(a[:, 0], a[:, 1], a[:, 2]), atol=1e-9),
                           "import->export: same RELION rotation")
                        shift = -truth["origin"] / (ps if version >= 3.1 else 1.0)
                        ok(np.allclose(rdf[["rlnCoordinateX", "rlnCoordinateY", "rlnCoordinateZ"]].to_numpy(), truth["coord"] + shift,
                                       atol=1e-9), "import->export: coordinate = rlnCoordinate - origin")
                        produced.append(rdf)
                    if light and n > 20:
                        continue
                    # through a file written by our own writer
                    path = f"{tmpdir}/i_{case}.star"
                    with open(path, "w") as f:
                        if version >= 3.1 and case % 2 == 0:
                            f.write("\n# version 30001\n\ndata_optics\n\nloop_\n_rlnOpticsGroup #1\n_rlnOpticsGroupName #2\n_rlnImagePixelSize #3\n")
                            f.write(f"1\topticsGroup1\t{ps!r}\n\n")
                        f.write("\n" + ("data_" if version == 3.0 else "data_particles") + "\n\nloop_\n")
                        for k, c in enumerate(t.columns, 1):
                            f.write(f"_{c} #{k}\n")
                        for row in t.itertuples(index=False):
                            f.write(" ".join(repr(float(v)) if isinstance(v, float) else str(v) for v in row) + "\n")
                        f.write("\n")
                    mf = cls(path, pixel_size=ps)
                    ok(mf.version == version, "import(file): version")
                    check_import(mf, truth, version, ps, index=list(range(n)), tol=1e-9)
                    produced.append(mf.df)

    # --- module level converters
    for version in VERSIONS:
        for n in (1, 5, 40):
            ps = float(rng.choice([1.0, 1.7, 3.42]))
            df0 = random_motl_df(rng, n)
            path = f"{tmpdir}/e_{version}_{n}.star"
            tf, sf = TOMO_FORMATS[1], SUBTOMO_FORMATS[version][1]
            r = cryomotl.emmotl2relion(df0.copy(), path, tomo_format=tf, subtomo_format=sf, relion_version=version,
                                       pixel_size=ps, binning=1.0)
            if True:  # the converters always use the tree's own RelionMotl
                ref = Motl(df0.copy())
                blocks = read_star(path)
                got = blocks["data_" if version == 3.0 else "data_particles"]
                check_export(r, got, version, ps, tf, sf, tol=1e-6, from_file=True)
                full = df0[["x", "y", "z"]].to_numpy() + df0[["shift_x", "shift_y", "shift_z"]].to_numpy()
                ok(np.allclose(got[["rlnCoordinateX", "rlnCoordinateY", "rlnCoordinateZ"]].to_numpy(dtype=float), full, atol=2e-6),
                   "emmotl2relion: complete position")
                em = cryomotl.relion2emmotl(path, relion_version=version, pixel_size=ps)
                check_same_pose(ref, em, tol=3e-6)
                sg = cryomotl.relion2stopgap(path)
                check_same_pose(ref, sg, tol=3e-6)
    return produced


# ======================================================================================================
# ORIGINAL text of the functions touched by the change (verbatim from the unmodified tree), as methods of a
# subclass -- objects of OrigRelionMotl run the old code, objects of RelionMotl the code of the tree.
# ======================================================================================================
from scipy.spatial.transform import Rotation as rot
from cryocat import starfileio
from cryocat.exceptions import UserInputError

ORIG_SRC = r'''
class OrigRelionMotl(RelionMotl):
    def convert_shifts(self, relion_df):
        """Converts shifts from Relion format to emmotl format and stores them in self.df.

        Parameters
        ----------
        relion_df : pandas.DataFrame
            DataFrame containing shifts in Relion format.

        Warnings
        --------
        Shifts in Relion 3.1 and higher are stored in Angstroms, not pixels/voxels. Correct pixel size is thus
        necessary for correct conversion. The pixel size should be set as the class attribute before calling this
        function.

        Notes
        -----
        Relion stores the shifts of the particle while in cryoCAT the shifts represent shifts of a reference.

        Returns
        -------
        None

        """

        for motl_column, rln_column in zip(("shift_x", "shift_y", "shift_z"), self.shifts_id_names):
            self.assign_column(relion_df, {motl_column: rln_column})

            # conversions of shifts - emmotl stores shifts for the reference, relion for the subtomo
            self.df[motl_column] = -self.df[motl_column].values

            if self.version >= 3.1:
                self.df[motl_column] = self.df[motl_column].values / self.pixel_size

            self.df[motl_column].fillna(0, inplace=True)
'''
exec(compile(ORIG_SRC, "<original functions>", "exec"), globals())


def outcome(fn):
    """("ok", result) or ("exc", exception type name) -- to compare old and new also where they raise."""
    try:
        with warnings.catch_warnings():
            warnings.simplefilter("ignore")
            return ("ok", fn())
    except Exception as e:  # noqa
        return ("exc", type(e).__name__)


def same(a, b, what):
    ok(a[0] == b[0], f"old/new differ in outcome for {what}: {a[0]} {a[1] if a[0] == 'exc' else ''} vs {b[0]} {b[1] if b[0] == 'exc' else ''}")
    if a[0] == "exc":
        ok(a[1] == b[1], f"old/new raise different exceptions for {what}: {a[1]} vs {b[1]}")
        return
    ra, rb = a[1], b[1]
    if not isinstance(ra, (list, tuple)):
        ra, rb = [ra], [rb]
    ok(len(ra) == len(rb), f"old/new: number of results for {what}")
    for x, y in zip(ra, rb):
        if isinstance(x, pd.DataFrame):
            pd.testing.assert_frame_equal(x, y, check_exact=True, obj=what)
            ok(list(x.dtypes) == list(y.dtypes), f"dtypes for {what}")
        elif isinstance(x, np.ndarray):
            ok(x.dtype == y.dtype and np.array_equal(x, y, equal_nan=True), f"arrays for {what}")
        else:
            ok(x == y or (x != x and y != y), f"values for {what}: {x!r} vs {y!r}")
    CHECKS["n"] += 1


def compare_property_runs(seeds, **kw):
    for seed in seeds:
        old = property_run(seed, cls=OrigRelionMotl, **kw)
        new = property_run(seed, cls=RelionMotl, **kw)
        ok(len(old) == len(new), "old/new: same number of tables")
        for k, (x, y) in enumerate(zip(old, new)):
            pd.testing.assert_frame_equal(x, y, check_exact=True, obj=f"table {k} of seed {seed}")
            ok(list(x.dtypes) == list(y.dtypes), "old/new dtypes")


def extra_old_new(seed, n_list=(1, 2, 7, 60)):
    """Inputs at and beyond the edge of the quantifier -- only old == new is demanded here (tables, dtypes,
    exception types), not the property."""
    rng = np.random.default_rng(seed)
    for n in n_list:
        for version in VERSIONS:
            ps = float(rng.choice([1.0, 2.5, 0.81]))
            df0 = random_motl_df(rng, n)
            state = rng.bit_generator.state
            res = []
            for cls in (OrigRelionMotl, RelionMotl):
                rng.bit_generator.state = state
                out = []
                m = cls(df0.copy(), version=version, pixel_size=ps, binning=2.0)
                set_index(m, rng, "shuffled")
                out.append(outcome(lambda: m.create_relion_df(add_object_id=True, add_subunit_id=True)))
                out.append(outcome(lambda: m.create_relion_df(version=4.0, binning=4)))
                out.append(outcome(lambda: m.prepare_particles_data(tomo_format="no_sequence")))
                out.append(outcome(lambda: m.prepare_particles_data(subtomo_format="$xx_only")))
                out.append(outcome(lambda: m.create_relion_df(use_original_entries=True)))
                # odd subtomo numbers: non-integer, negative, zero, NaN
                m.df["subtomo_id"] = m.df["subtomo_id"].to_numpy() - 3.0
                out.append(outcome(lambda: m.create_relion_df()))
                m.df.loc[m.df.index[0], "subtomo_id"] = 2.5
                out.append(outcome(lambda: m.create_relion_df(subtomo_format="/s/$xx_$yyy.mrc")))
                m.df.loc[m.df.index[-1], "subtomo_id"] = np.nan
                out.append(outcome(lambda: m.create_relion_df(subtomo_format="/s/$xx_$yyy.mrc")))
                out.append(outcome(lambda: m.create_relion_df()))
                out.append(("ok", m.df.copy()))
                # import side: NaN holes, missing columns, original entries
                t, truth = independent_relion_table(rng, n, version, ps, halfsets=["both", "one", None][n % 3])
                t.index = rng.permutation(n) * 2
                shn = [c for c in t.columns if c.startswith("rlnOrigin")]
                t_nan = t.copy()
                t_nan.iloc[0, t_nan.columns.get_loc(shn[0])] = np.nan
                out.append(outcome(lambda: cls(t_nan, version=version, pixel_size=ps).df))
                out.append(outcome(lambda: cls(t.drop(columns=shn), version=version, pixel_size=ps).df))
                out.append(outcome(lambda: cls(t.drop(columns=["rlnAngleRot"]), version=version, pixel_size=ps).df))
                out.append(outcome(lambda: cls(t.drop(columns=["rlnCoordinateZ", "rlnClassNumber"]), version=version, pixel_size=ps).df))
                out.append(outcome(lambda: cls(t, version=version).df))  # pixel size from the data / default
                t_ps = t.copy()
                t_ps["rlnPixelSize"] = rng.choice([1.0, 2.0], size=n)
                out.append(outcome(lambda: cls(t_ps, version=version).df))  # per-row pixel size
                mi = cls(t, version=version, pixel_size=ps, binning=1.0)
                out.append(("ok", mi.relion_df.copy()))
                out.append(outcome(lambda: mi.create_relion_df(use_original_entries=True)))
                out.append(outcome(lambda: mi.create_relion_df(use_original_entries=True, keep_all_entries=True)))
                if n > 2:
                    mi.df = mi.df.iloc[rng.permutation(n)[: n - 1]]
                    out.append(outcome(lambda: mi.create_relion_df(use_original_entries=True)))
                    out.append(outcome(lambda: mi.create_relion_df(use_original_entries=True, adapt_object_attr=True)))
                    out.append(("ok", mi.relion_df.copy()))
                    out.append(outcome(lambda: mi.create_relion_df(tomo_format="/t/$xxx.rec", subtomo_format="/s/$xxx_$yyyy.mrc")))
                out.append(outcome(lambda: cls(mi).df))  # copy constructor
                res.append(out)
            ok(len(res[0]) == len(res[1]), "extra: same number of outcomes")
            for k, (a, b) in enumerate(zip(*res)):
                same(a, b, f"extra case {k} (n={n}, version={version})")



def valid_pixel_size_forms(seed):
    """Every admissible way of giving a pixel size > 0: the shifts are identical with the old and the new text and
    equal to -origin / pixel size; the attribute is left as the very same object."""
    rng = np.random.default_rng(seed)
    for n in (1, 2, 5, 50):
        for version in VERSIONS:
            per_row = rng.choice([0.5, 1.0, 2.62], size=n)
            forms = [1, 3, 1.0, 2.62, np.float32(1.5), np.float64(13.48), np.int64(2), np.array(2.5), np.array([2.5]),
                     [4.0], per_row, per_row.astype(np.float32), 1e-3, 1e6, 5e-324, np.nextafter(0.0, 1.0)]
            for ps in forms:
                t, truth = independent_relion_table(rng, n, version, 1.0)
                if n > 1:
                    t.index = rng.permutation(n) + 3
                res = []
                for cls in (OrigRelionMotl, RelionMotl):
                    m = cls(t, version=version, pixel_size=ps)
                    ok(m.pixel_size is ps, "the pixel size attribute is left alone")
                    res.append(("ok", [m.df.copy(), m.relion_df.copy()]))
                    exp = -truth["origin"] / (np.asarray(ps, dtype=float).reshape(-1, 1) if version >= 3.1 else 1.0)
                    with np.errstate(all="ignore"):
                        ok(np.allclose(m.df[["shift_x", "shift_y", "shift_z"]].to_numpy(), exp, rtol=1e-6, atol=0, equal_nan=True),
                           f"shift = -origin / pixel size for pixel size {ps!r}")
                    # repeated call on the same object gives the same shifts again
                    before = m.df.copy()
                    m.convert_shifts(t)
                    pd.testing.assert_frame_equal(m.df, before, check_exact=True)
                same(res[0], res[1], f"pixel size form {ps!r}, version {version}, n={n}")
            # pixel size taken from the table itself / from an optics table (set_pixel_size)
            t, truth = independent_relion_table(rng, n, version, 1.0)
            t2 = t.copy()
            t2["rlnPixelSize"] = per_row
            optics = pd.DataFrame({"rlnOpticsGroup": [1], "rlnImagePixelSize": [3.42]})
            res = []
            for cls in (OrigRelionMotl, RelionMotl):
                a = cls(t2, version=version)
                b = cls(t, version=version, optics_data=optics)
                c = cls(t, version=version)
                res.append(("ok", [a.df.copy(), b.df.copy(), c.df.copy()]))
                if version >= 3.1:
                    ok(np.allclose(a.df[["shift_x", "shift_y", "shift_z"]].to_numpy(), -truth["origin"] / per_row.reshape(-1, 1), rtol=1e-12),
                       "per-row pixel size from rlnPixelSize")
                    ok(np.allclose(b.df[["shift_x", "shift_y", "shift_z"]].to_numpy(), -truth["origin"] / 3.42, rtol=1e-12),
                       "pixel size from the optics group")
            same(res[0], res[1], "pixel size from data")


def unusable_pixel_sizes(seed):
    """Outside the quantifier (pixel size > 0).  Old text: TypeError from numpy, or inf / NaN / sign-flipped shifts
    without a message.  Patched tree: ValueError, and nothing of that for version 3.0 where the pixel size is not
    used.  On the unpatched tree only the old behaviour is recorded."""
    rng = np.random.default_rng(seed)
    patched = hasattr(RelionMotl, "_check_pixel_size")
    bad = [0, 0.0, -1.0, -2.62, np.nan, np.inf, -np.inf, "2.5A", np.array([1.0, 0.0, 2.0]), np.array([1.0, -1.0, 2.0]),
           np.array([1.0, np.nan, 2.0]), [1.0, None, 2.0]]
    silent_old = 0
    wrong_old = 0  # ... of which with infinite / NaN / sign-flipped shifts
    for ps in bad:
        for version in VERSIONS:
            t, truth = independent_relion_table(rng, 3, version, 1.0)
            old = outcome(lambda: OrigRelionMotl(t, version=version, pixel_size=ps).df)
            new = outcome(lambda: RelionMotl(t, version=version, pixel_size=ps).df)
            if version < 3.1:
                same(old, new, f"version 3.0 does not look at the pixel size {ps!r}")
                ok(new[0] == "ok", "version 3.0 converts with any pixel size")
                continue
            if old[0] == "ok":
                silent_old += 1
                sh = old[1][["shift_x", "shift_y", "shift_z"]].to_numpy()
                nz = truth["origin"] != 0
                wrong_old += int(np.any(~np.isfinite(sh)) or np.any(np.sign(sh[nz]) == np.sign(truth["origin"][nz])))
            if patched:
                ok(new == ("exc", "ValueError"), f"patched tree must raise ValueError for pixel size {ps!r}, got {new[0]} {new[1] if new[0]=='exc' else ''}")
            else:
                same(old, new, f"unpatched tree = old text for pixel size {ps!r}")
    ok(silent_old > 0 and wrong_old > 0, "the old text accepts some unusable pixel sizes silently and gives inf / NaN / flipped shifts")
    if patched:
        # the check itself: returns None, raises only for the unusable ones, never alters its argument
        arr = np.array([1.0, 2.0])
        ok(RelionMotl._check_pixel_size(arr) is None and np.array_equal(arr, [1.0, 2.0]), "check is read-only")
        for good in (1, 2.5, np.float32(0.1), np.array(3.0), [1.0, 2.0], (1, 2), np.array([]), True):
            ok(RelionMotl._check_pixel_size(good) is None, f"check accepts {good!r}")
        for ps in bad + [None, "abc", {}, [[1.0], [0.0]], complex(1, 1)]:
            ok(outcome(lambda: RelionMotl._check_pixel_size(ps)) == ("exc", "ValueError"), f"check rejects {ps!r}")


if __name__ == "__main__":
    # (1) the property on the tree as it is (patched or not)
    property_run(11)
    property_run(13, sizes=(1, 4, 33), light=True)
    # (2) old text vs tree: identical tables (values, dtypes, index) on the same inputs
    compare_property_runs([23, 24], sizes=(1, 2, 9, 64), light=True)
    extra_old_new(33)
    valid_pixel_size_forms(41)
    unusable_pixel_sizes(42)
    print(f"PASS ({CHECKS['n']} checks)")
