"""C09 / b -- clean_by_tomo_mask: API migration (.loc[...].values -> positional .to_numpy()[...], np.where(...)[0] ->
np.flatnonzero, reset_index(inplace=True) -> assignment, plain f-string fields).

Checks (1) the property clause "cleaning by a tomogram mask removes exactly the particles inside the mask volume that
sit on zero voxels and keeps all others; survivors are never altered" against an independent per-particle computation,
and (2) that the method of the tree under test gives the same table as the original function text (kept below).

Run:  cd /tmp/wt7/C09 && /venv/bin/python /tmp/seedsT/C09/b/demo.py
"""
import sys, os

sys.path.insert(0, os.getcwd())

import contextlib
import io
import math
import tempfile
import warnings

import numpy as np
import pandas as pd

from cryocat import cryomap, cryomotl, ioutils
from cryocat.cryomotl import Motl

assert os.path.abspath(cryomotl.__file__).startswith(os.getcwd()), cryomotl.__file__
warnings.simplefilter("ignore")


# ----------------------------------------------------------------------------------------------------------------
# original function text (HEAD 917e6f2), as a free function
# ----------------------------------------------------------------------------------------------------------------
def orig_clean_by_tomo_mask(self, tomo_list, tomo_masks, inplace=True, output_file=None):
    tomos = ioutils.tlt_load(tomo_list)

    requries_loading = True

    if isinstance(tomo_masks, list):
        if len(tomos) != len(tomo_masks):
            raise ValueError(f"The list of tomograms has different length than lists of tomogram masks")
    else:
        tomo_mask = cryomap.binarize(tomo_masks)
        requries_loading = False

    cleaned_motl = Motl.load(self)

    for i, t in enumerate(tomos):
        tm = self.get_motl_subset(t, reset_index=True)
        coords = np.floor(tm.get_coordinates()).astype(int)  # voxel holding the position (astype alone puts -0.3 into voxel 0)
        if requries_loading:
            tomo_mask = cryomap.binarize(tomo_masks[i])

        # Ensure coordinates are within the bounds of the mask array
        within_bounds = (
            (coords[:, 0] >= 0)
            & (coords[:, 1] >= 0)
            & (coords[:, 2] >= 0)
            & (coords[:, 0] < tomo_mask.shape[0])
            & (coords[:, 1] < tomo_mask.shape[1])
            & (coords[:, 2] < tomo_mask.shape[2])
        )
        within_idx = np.where(within_bounds)[0]
        coords = coords[within_bounds]

        # Filter out coordinates where the mask value is 0
        mask_values = tomo_mask[coords[:, 0], coords[:, 1], coords[:, 2]]

        # Get the indices (within the tomogram subset) of the particles that sit on zero voxels
        idx_to_remove = within_idx[mask_values == 0]
        subtomo_idx = tm.df.loc[idx_to_remove, "subtomo_id"].values

        # only rows of this tomogram: subtomogram numbers may repeat in other tomograms
        hits = (cleaned_motl.df["tomo_id"] == t) & cleaned_motl.df["subtomo_id"].isin(subtomo_idx)
        cleaned_motl.df = cleaned_motl.df[~hits]

        print(f"Removed {str(idx_to_remove.shape[0])} particles from tomogram #{str(t)}")

    cleaned_motl.df.reset_index(inplace=True, drop=True)

    if output_file is not None:
        cleaned_motl.write_out(output_file)

    if inplace:
        self.df = cleaned_motl.df
    else:
        return cleaned_motl


# ----------------------------------------------------------------------------------------------------------------
# helpers
# ----------------------------------------------------------------------------------------------------------------
def quiet(fn, *args, **kwargs):
    buf = io.StringIO()
    try:
        with contextlib.redirect_stdout(buf):
            return ("ok", fn(*args, **kwargs), buf.getvalue())
    except Exception as e:  # noqa: BLE001 - the kind of failure is part of the behaviour that is compared
        return ("err", type(e).__name__, str(e))


def make_motl(rng, n, tomo_ids, shapes, index="default", integer=False):
    """Positions spread inside, on the faces of and beyond the volume of the particle's own tomogram."""
    data = {c: np.zeros(n) for c in Motl.motl_columns}
    data["score"] = rng.random(n)
    data["subtomo_id"] = (rng.permutation(n) + 1).astype(float)  # unique, not in row order
    tid = rng.choice(np.asarray(tomo_ids, dtype=float), size=n) if n else np.zeros(0)
    data["tomo_id"] = tid
    data["object_id"] = rng.integers(1, 4, size=n).astype(float)
    pos = np.zeros((n, 3))
    sh = np.zeros((n, 3))
    for i in range(n):
        shape = shapes.get(tid[i], (8, 8, 8))
        for k in range(3):
            d = shape[k]
            kind = rng.integers(0, 10)
            if kind < 4:
                target = rng.uniform(0, d)  # inside
            elif kind == 4:
                target = float(rng.choice([0.0, -0.0, d - 1.0, float(d), d - 0.5, np.nextafter(float(d), 0.0)]))  # faces
            elif kind == 5:
                target = float(rng.choice([-1e-9, -0.3, -1.0, -0.999, -7.5]))  # just / far below
            elif kind == 6:
                target = d + float(rng.choice([1e-9, 0.3, 1.0, 12.5]))  # just / far above
            else:
                target = float(rng.integers(0, d))  # voxel corner inside
            if integer:
                target = float(math.floor(target))
                s = float(rng.integers(-2, 3))
            else:
                s = float(rng.choice([0.0, 0.25, -0.25, 0.5, -1.5, 2.0]))
            pos[i, k] = target - s  # x + shift_x == target (all values are dyadic or the sum is re-derived below)
            sh[i, k] = s
    for k, c in enumerate(["x", "y", "z"]):
        data[c] = pos[:, k]
        data["shift_" + c] = sh[:, k]
    data["phi"] = rng.uniform(-180, 180, n)
    data["theta"] = rng.uniform(0, 180, n)
    data["psi"] = rng.uniform(-180, 180, n)
    data["class"] = rng.integers(1, 3, size=n).astype(float)
    df = pd.DataFrame(data, columns=Motl.motl_columns)
    if integer:
        df = df.astype({c: int for c in ["x", "y", "z", "subtomo_id", "tomo_id"]})  # integer element types
    if index == "shuffled":
        df.index = rng.permutation(n) + 100
    elif index == "offset":
        df.index = np.arange(n) * 3 + 7
    return df


def make_mask(rng, shape, kind):
    if kind == "binary_int":
        return rng.integers(0, 2, size=shape)
    if kind == "bool":
        return rng.random(shape) < 0.5
    if kind == "float":  # thresholds: > 0.5 counts as mask, 0.5 itself does not
        return rng.choice(np.array([0.0, 0.49, 0.5, np.nextafter(0.5, 1.0), 0.51, 1.0, -2.0, 7.0]), size=shape)
    if kind == "zeros":
        return np.zeros(shape)
    if kind == "ones":
        return np.ones(shape, dtype=np.float32)
    raise AssertionError(kind)


def expected_keep(df, tomo_list, masks_by_tomo):
    """Independent per-particle decision, plain Python."""
    keep = []
    for _, row in df.iterrows():
        t = row["tomo_id"]
        if t not in masks_by_tomo:
            keep.append(True)
            continue
        m = masks_by_tomo[t]
        p = [row["x"] + row["shift_x"], row["y"] + row["shift_y"], row["z"] + row["shift_z"]]
        if any(math.isnan(v) for v in p):
            keep.append(True)  # not a position inside the volume
            continue
        v = [math.floor(c) for c in p]
        inside = all(0 <= v[k] < m.shape[k] for k in range(3))
        if not inside:
            keep.append(True)
        else:
            keep.append(bool(m[v[0], v[1], v[2]] > 0.5))
    return np.asarray(keep, dtype=bool)


def check_case(df, tomo_list, tomo_masks, masks_by_tomo=None, label="", check_property=True):
    global n_cases, n_removed, n_kept
    before = df.copy(deep=True)
    m_new = Motl(df.copy(deep=True))
    m_old = Motl(df.copy(deep=True))
    r_new = quiet(m_new.clean_by_tomo_mask, tomo_list, tomo_masks)
    r_old = quiet(orig_clean_by_tomo_mask, m_old, tomo_list, tomo_masks)
    assert r_new[0] == r_old[0], (label, r_new, r_old)
    if r_new[0] == "err":
        assert r_new[1:] == r_old[1:], (label, r_new, r_old)
        pd.testing.assert_frame_equal(m_new.df, before, check_exact=True)
        n_cases += 1
        return
    # (2) same table and same messages as the original function
    pd.testing.assert_frame_equal(m_new.df, m_old.df, check_exact=True)
    assert r_new[2] == r_old[2], (label, r_new[2], r_old[2])

    # (1) the property
    if check_property:
        keep = expected_keep(before, tomo_list, masks_by_tomo)
        want = before.loc[keep].reset_index(drop=True)
        pd.testing.assert_frame_equal(m_new.df, want, check_exact=True)  # exactly these rows, unaltered, in order
        n_removed += int((~keep).sum())
        n_kept += int(keep.sum())

    # inplace=False returns the same table and leaves the list alone; cleaning the result again removes nothing
    m3 = Motl(df.copy(deep=True))
    r3 = quiet(m3.clean_by_tomo_mask, tomo_list, tomo_masks, inplace=False)
    assert r3[0] == "ok", (label, r3)
    pd.testing.assert_frame_equal(m3.df, before, check_exact=True)
    pd.testing.assert_frame_equal(r3[1].df, m_new.df, check_exact=True)
    r4 = quiet(r3[1].clean_by_tomo_mask, tomo_list, tomo_masks, inplace=False)
    assert r4[0] == "ok", (label, r4)
    pd.testing.assert_frame_equal(r4[1].df, m_new.df, check_exact=True)
    n_cases += 1


n_cases = n_removed = n_kept = 0
rng = np.random.default_rng(9092026)
tmpdir = tempfile.mkdtemp(prefix="c09b_")

# ---- random cases: 1..4 tomograms with different (odd / even, non-cubic) mask shapes -----------------------------------
for trial in range(220):
    n_tomos = int(rng.integers(1, 5))
    tomo_ids = [float(t) for t in rng.choice(np.arange(1, 40), size=n_tomos, replace=False)]
    shapes = {t: tuple(int(v) for v in rng.integers(1, 12, size=3)) for t in tomo_ids}
    n = int(rng.choice([1, 2, 3, 12, 45, 120]))
    integer = trial % 7 == 3
    df = make_motl(rng, n, tomo_ids, shapes, index=["default", "shuffled", "offset"][trial % 3], integer=integer)

    # masks are given for a subset of the tomograms, plus sometimes for one that has no particles at all
    listed = [t for t in tomo_ids if rng.random() < 0.75] or [tomo_ids[0]]
    if trial % 6 == 0:
        listed = listed + [77.0]
        shapes[77.0] = (5, 4, 3)
    order = rng.permutation(len(listed))
    listed = [listed[j] for j in order]
    kind = ["binary_int", "float", "bool", "binary_int", "zeros", "ones"][trial % 6]
    masks = {t: make_mask(rng, shapes[t], kind) for t in listed}

    mode = trial % 4
    if mode == 3:  # one mask for every listed tomogram
        single = make_mask(rng, tuple(int(v) for v in rng.integers(1, 12, size=3)), kind)
        masks = {t: single for t in listed}
        tomo_masks = single
    elif mode == 2 and kind != "bool":  # masks read from files (written and read with the library's own transposition)
        tomo_masks = []
        for j, t in enumerate(listed):
            path = os.path.join(tmpdir, f"mask_{trial}_{j}.em" if j % 2 else f"mask_{trial}_{j}.mrc")
            cryomap.write(masks[t].astype(np.float32), path, data_type=np.float32)
            masks[t] = masks[t].astype(np.float32)
            tomo_masks.append(path)
    else:
        tomo_masks = [masks[t] for t in listed]
    tomo_list = listed if trial % 2 else np.asarray(listed)
    if integer and trial % 2:
        tomo_list = [int(t) for t in listed]
    check_case(df, tomo_list, tomo_masks, masks, label=f"random {trial}")

# ---- edge cases --------------------------------------------------------------------------------------------------
shapes = {1.0: (4, 5, 6), 2.0: (3, 3, 3)}
base = make_motl(rng, 30, [1.0, 2.0], shapes, index="shuffled")
m1, m2 = make_mask(rng, shapes[1.0], "binary_int"), make_mask(rng, shapes[2.0], "float")
check_case(base, [1.0, 2.0], [m1, m2], {1.0: m1, 2.0: m2}, label="two tomograms")
check_case(base, [2.0, 1.0], [m2, m1], {1.0: m1, 2.0: m2}, label="masks in another order than the particles")
check_case(base, [1.0], [m1], {1.0: m1}, label="second tomogram not listed: all of its particles stay")
check_case(base, [5.0], [m1], {5.0: m1}, label="listed tomogram without particles")
check_case(base, [1.0, 2.0], [m1], {}, label="lengths differ -> ValueError in both")
check_case(base, [], [], {}, label="empty tomogram list -> ValueError in both")
check_case(base.iloc[0:0], [1.0], [m1], {1.0: m1}, label="empty particle list")
check_case(base.iloc[[4]], [1.0, 2.0], [m1, m2], {1.0: m1, 2.0: m2}, label="single row, label 104-ish")
check_case(base, [1.0, 2.0], np.zeros((1, 1, 1)), {1.0: np.zeros((1, 1, 1)), 2.0: np.zeros((1, 1, 1))}, label="1-voxel mask")
# every particle of a tomogram outside the mask volume
far = base.copy()
far[["x", "y", "z"]] = far[["x", "y", "z"]] + 100.0
check_case(far, [1.0, 2.0], [m1 * 0, m2 * 0], {1.0: m1 * 0, 2.0: m2 * 0}, label="all beyond the maximum")
neg = base.copy()
neg[["x", "y", "z"]] = -neg[["x", "y", "z"]].abs() - 3.0
check_case(neg, [1.0, 2.0], [m1 * 0, m2 * 0], {1.0: m1 * 0, 2.0: m2 * 0}, label="all negative")
# NaN hole in a position: not inside any volume -> kept
nan = base.copy()
nan.iloc[3, nan.columns.get_loc("x")] = np.nan
nan.iloc[9, nan.columns.get_loc("shift_z")] = np.nan
check_case(nan, [1.0, 2.0], [m1 * 0, m2 * 0], {1.0: m1 * 0, 2.0: m2 * 0}, label="NaN holes")
# the same subtomo_id in two tomograms (outside the property: removal is by id) - only old against new
dup = base.copy()
dup["subtomo_id"] = (np.arange(len(dup)) % 7 + 1).astype(float)
check_case(dup, [1.0, 2.0], [m1, m2], {1.0: m1, 2.0: m2}, label="repeated ids", check_property=False)

print(f"cases: {n_cases}, particles removed: {n_removed}, kept: {n_kept}")
assert n_removed > 1000 and n_kept > 2000
print("PASS")
