"""C10 -- cyclic symmetry expansion places the subunits on the symmetry orbit.

Change b (kind 5, numerically equivalent rewrite): the distance of the offset from the symmetry axis is np.hypot(sx, sy)
instead of sqrt(sx**2 + sy**2) and the phase of the first subunit is added by broadcasting. Results may differ in the
last bit, so tree and original are compared within 1e-9 (complete position, rotation matrix), all other fields exactly;
for offsets with an exact radius (axes, symmetry axis, 3-4-5) they are compared bit for bit.

Run as:  cd /tmp/wt7/C10 && /venv/bin/python /tmp/seedsT/C10/b/demo.py
Prints PASS and exits 0 when (1) the property holds against an independent computation (own rotation matrices,
nothing of scipy / cryocat.geom) and (2) the functions of the tree give the same results as the copies of the
ORIGINAL function texts kept below.
"""
import sys, os, warnings

sys.path.insert(0, os.getcwd())
warnings.simplefilter("ignore")
import numpy as np
import pandas as pd
from cryocat import cryomotl
from cryocat.cryomotl import Motl

EXACT = False  # True: tree and original must agree bit for bit; False: within round-off (1e-9)
SEED = int(os.environ.get("VERIF_SEED", "20260928"))
rng = np.random.default_rng(SEED)

# --------------------------------------------------------------------------------------------------------------
# the ORIGINAL function texts (HEAD 6462733), executed in a copy of the module namespace
# --------------------------------------------------------------------------------------------------------------
ORIG_UPDATE = '''
def update_coordinates(self):
    def round_and_recenter(row):
        new_row = row.copy()
        shifted_x = row["x"] + row["shift_x"]
        shifted_y = row["y"] + row["shift_y"]
        shifted_z = row["z"] + row["shift_z"]
        new_row["x"] = float(decimal.Decimal(shifted_x).to_integral_value(rounding=decimal.ROUND_HALF_UP))
        new_row["y"] = float(decimal.Decimal(shifted_y).to_integral_value(rounding=decimal.ROUND_HALF_UP))
        new_row["z"] = float(decimal.Decimal(shifted_z).to_integral_value(rounding=decimal.ROUND_HALF_UP))
        new_row["shift_x"] = shifted_x - new_row["x"]
        new_row["shift_y"] = shifted_y - new_row["y"]
        new_row["shift_z"] = shifted_z - new_row["z"]
        return new_row

    self.df = self.df.apply(round_and_recenter, axis=1)
    warnings.warn("The coordinates for subtomogram extraction were changed, new extraction is necessary!")
'''

ORIG_SPLIT = '''
def split_in_asymmetric_subunits(self, symmetry, xyz_shift):
    if isinstance(symmetry, str):
        nfold = int(re.findall(r"\\d+", symmetry)[-1])
        if symmetry.lower().startswith("c"):
            s_type = 1  # c symmetry
        elif symmetry.lower().startswith("d"):
            s_type = 2  # d symmetry
        else:
            ValueError("Unknown symmetry - currently only c and are supported!")
    elif isinstance(symmetry, (int, float)):
        s_type = 1  # c symmetry
        nfold = symmetry
    else:
        ValueError(
            "The symmetry has to be specified as a string (starting with c or d) or as a number (float, int)!"
        )

    inplane_step = 360 / nfold

    if s_type == 1:
        n_subunits = nfold
        phi_angles = np.arange(n_subunits) * inplane_step
        new_angles = np.zeros((n_subunits, 3))
        new_angles[:, 0] = phi_angles
    elif s_type == 2:
        n_subunits = nfold * 2
        in_plane_offset = int(inplane_step / 2)
        new_angles = np.zeros((n_subunits, 3))
        new_angles[0::2, 0] = np.arange(0, 360, int(inplane_step))
        new_angles[1::2, 0] = np.arange(0 + in_plane_offset, 360 + in_plane_offset, int(inplane_step))
        new_angles[1::2, 1] = 180

        phi_angles = new_angles[:, 0].copy()

    phi_angles = phi_angles.reshape(
        n_subunits,
    )

    # make up vectors
    starting_vector = np.array(xyz_shift)
    rho = np.sqrt(starting_vector[0] ** 2 + starting_vector[1] ** 2)
    the = np.arctan2(starting_vector[1], starting_vector[0])

    rot_rho = np.full((n_subunits,), rho)
    rep_the = np.full((n_subunits,), the) + np.deg2rad(phi_angles)
    rep_z = np.full((n_subunits,), starting_vector[2])

    if s_type == 2:
        rep_z[1::2] *= -1

    center_shift = np.zeros([rot_rho.shape[0], 3])
    center_shift[:, 0] = rot_rho * np.cos(rep_the)
    center_shift[:, 1] = rot_rho * np.sin(rep_the)
    center_shift[:, 2] = rep_z

    new_motl_df = pd.concat([self.df] * n_subunits)

    new_motl_df["geom5"] = new_motl_df["subtomo_id"]
    new_motl_df = new_motl_df.sort_values(by="subtomo_id")
    new_motl_df["geom2"] = np.tile(np.arange(1, n_subunits + 1).reshape(n_subunits, 1), (len(self.df), 1))

    euler_angles = new_motl_df[["phi", "theta", "psi"]]
    rotations = rot.from_euler(seq="zxz", angles=euler_angles, degrees=True)
    center_shift = np.tile(center_shift, (len(self.df), 1))
    new_angles = np.tile(new_angles, (len(self.df), 1))
    new_motl_df.loc[:, ["shift_x", "shift_y", "shift_z"]] = new_motl_df.loc[
        :, ["shift_x", "shift_y", "shift_z"]
    ] + rotations.apply(center_shift)

    new_rotations = rotations * rot.from_euler(seq="zxz", angles=new_angles, degrees=True)
    new_motl_df.loc[:, ["phi", "theta", "psi"]] = new_rotations.as_euler(seq="zxz", degrees=True)

    new_motl_df["subtomo_id"] = np.arange(1, len(new_motl_df) + 1)
    new_motl = Motl(new_motl_df)
    new_motl.update_coordinates()
    new_motl.df.reset_index(inplace=True, drop=True)
    return new_motl
'''

_ns = dict(vars(cryomotl))
exec(ORIG_UPDATE, _ns)
exec(ORIG_SPLIT, _ns)


class OrigMotl(Motl):
    update_coordinates = _ns["update_coordinates"]
    split_in_asymmetric_subunits = _ns["split_in_asymmetric_subunits"]


_ns["Motl"] = OrigMotl  # the original split builds its result with the original update_coordinates

# --------------------------------------------------------------------------------------------------------------
# independent computation
# --------------------------------------------------------------------------------------------------------------
COLS = Motl.motl_columns
OTHER = ["score", "geom1", "tomo_id", "object_id", "subtomo_mean", "geom3", "geom4", "class"]
fails = []


def check(cond, msg):
    if not cond:
        fails.append(msg)
        if len(fails) <= 20:
            print("FAIL:", msg)


def Rz(a):
    c, s = np.cos(np.deg2rad(a)), np.sin(np.deg2rad(a))
    return np.array([[c, -s, 0.0], [s, c, 0.0], [0.0, 0.0, 1.0]])


def Rx(a):
    c, s = np.cos(np.deg2rad(a)), np.sin(np.deg2rad(a))
    return np.array([[1.0, 0.0, 0.0], [0.0, c, -s], [0.0, s, c]])


def mat(phi, theta, psi):
    # cryoCAT: extrinsic zxz(phi, theta, psi) = Rz(psi) Rx(theta) Rz(phi)
    return Rz(psi) @ Rx(theta) @ Rz(phi)


def random_frame(n, poles=False, holes=False, index=None, ids=None, big=False):
    df = pd.DataFrame(np.zeros((n, 20)), columns=COLS)
    df["score"] = rng.uniform(-1, 1, n)
    df["geom1"] = rng.integers(-5, 5, n).astype(float)
    df["geom2"] = rng.integers(0, 9, n).astype(float)
    df["geom3"] = rng.uniform(-3, 3, n)
    df["geom4"] = rng.integers(0, 3, n).astype(float)
    df["geom5"] = rng.integers(0, 3, n).astype(float)
    df["tomo_id"] = rng.integers(1, 5, n).astype(float)
    df["object_id"] = rng.integers(1, 9, n).astype(float)
    df["subtomo_mean"] = rng.uniform(0, 2, n)
    df["class"] = rng.integers(1, 4, n).astype(float)
    scale = 4000.0 if big else 300.0
    df[["x", "y", "z"]] = np.round(rng.uniform(-scale if not big else 0, scale, (n, 3)))
    df[["shift_x", "shift_y", "shift_z"]] = rng.uniform(-30, 30, (n, 3))
    df["phi"] = rng.uniform(-180, 180, n)
    df["theta"] = rng.uniform(0, 180, n)
    df["psi"] = rng.uniform(-180, 180, n)
    if poles:
        df["theta"] = rng.choice([0.0, 180.0, 90.0, 1e-9, 180 - 1e-9], n)
        df.loc[df.index[::3], "phi"] = 0.0
        df.loc[df.index[1::3], "psi"] = 180.0
    if holes:
        for c in ["score", "geom1", "geom3", "subtomo_mean"]:
            df.loc[rng.random(n) < 0.3, c] = np.nan
    df["subtomo_id"] = (np.arange(1, n + 1) if ids is None else ids).astype(float)
    if index is not None:
        df.index = index
    return df


def frames_equal(a, b, what):
    check(list(a.columns) == list(b.columns), f"{what}: columns differ")
    check(a.index.equals(b.index), f"{what}: index differs")
    check(list(a.dtypes) == list(b.dtypes), f"{what}: dtypes differ {list(a.dtypes)} vs {list(b.dtypes)}")
    if a.shape != b.shape:
        check(False, f"{what}: shapes differ {a.shape} vs {b.shape}")
        return
    if EXACT:
        for c in a.columns:
            x, y = a[c].to_numpy(), b[c].to_numpy()
            try:
                same = np.array_equal(x, y, equal_nan=True)
                if same and x.dtype.kind == "f":  # -0.0 against 0.0 counts as a difference (sign of NaN does not)
                    ok = ~np.isnan(x)
                    same = np.array_equal(np.signbit(x[ok]), np.signbit(y[ok]))
            except TypeError:
                same = all((p == q) or (p != p and q != q) for p, q in zip(x, y))
            check(same, f"{what}: column {c} differs")
    else:
        rest = [c for c in a.columns if c not in ("x", "y", "z", "shift_x", "shift_y", "shift_z", "phi", "theta", "psi")]
        check(np.array_equal(a[rest].to_numpy(float), b[rest].to_numpy(float), equal_nan=True), f"{what}: fields differ")
        pa = a[["x", "y", "z"]].to_numpy(float) + a[["shift_x", "shift_y", "shift_z"]].to_numpy(float)
        pb = b[["x", "y", "z"]].to_numpy(float) + b[["shift_x", "shift_y", "shift_z"]].to_numpy(float)
        check(np.allclose(pa, pb, rtol=0, atol=1e-9, equal_nan=True), f"{what}: complete positions differ")
        for (_, r), (_, q) in zip(a.iterrows(), b.iterrows()):
            check(np.allclose(mat(r.phi, r.theta, r.psi), mat(q.phi, q.theta, q.psi), atol=1e-9), f"{what}: orientation")


def run(cls, df, sym, s):
    """-> ('ok', result frame, input frame afterwards) or ('exc', type name)"""
    m = cls(df.copy())
    try:
        r = m.split_in_asymmetric_subunits(sym, s)
    except Exception as e:  # noqa
        return ("exc", type(e).__name__, None)
    return ("ok", r, m)


def compare_with_original(df, sym, s, what):
    t = run(Motl, df, sym, s)
    o = run(OrigMotl, df, sym, s)
    check(t[0] == o[0], f"{what}: tree {t[:2]} vs original {o[:2]}")
    if t[0] != o[0]:
        return None
    if t[0] == "exc":
        check(t[1] == o[1], f"{what}: exception {t[1]} vs {o[1]}")
        return None
    check(type(t[1]) is Motl, f"{what}: result class {type(t[1])}")
    frames_equal(t[1].df, o[1].df, what)
    # the list that was split is left as it was
    frames_equal_exact(t[2].df, df, what + " (input afterwards)")
    return t[1]


def frames_equal_exact(a, b, what):
    check(a.index.equals(b.index) and list(a.columns) == list(b.columns), f"{what}: labels")
    check(np.array_equal(a.to_numpy(float), b.to_numpy(float), equal_nan=True), f"{what}: values")


def check_property(df, n, s, res, what):
    s = np.asarray(s, dtype=float)
    par = df.sort_values("subtomo_id", kind="stable")  # ids are unique here
    out = res.df
    check(len(out) == n * len(df), f"{what}: {len(out)} rows for {len(df)} x {n}")
    if len(out) != n * len(df):
        return
    check(list(out.index) == list(range(len(out))), f"{what}: index")
    check(np.array_equal(out["subtomo_id"].to_numpy(), np.arange(1, len(out) + 1)), f"{what}: subtomo numbers")
    check(np.array_equal(out["geom5"].to_numpy(), np.repeat(par["subtomo_id"].to_numpy(), n)), f"{what}: geom5")
    check(np.array_equal(out["geom2"].to_numpy(), np.tile(np.arange(1, n + 1), len(df))), f"{what}: geom2")
    check(
        np.array_equal(out[OTHER].to_numpy(), np.repeat(par[OTHER].to_numpy(), n, axis=0), equal_nan=True),
        f"{what}: other fields",
    )
    xyz = out[["x", "y", "z"]].to_numpy()
    sh = out[["shift_x", "shift_y", "shift_z"]].to_numpy()
    check(np.array_equal(xyz, np.round(xyz)), f"{what}: x, y, z not integer")
    check(np.all(np.abs(sh) <= 0.5), f"{what}: |shift| > 0.5")
    ang = out[["phi", "theta", "psi"]].to_numpy()
    pc = par[["x", "y", "z"]].to_numpy() + par[["shift_x", "shift_y", "shift_z"]].to_numpy()
    pa = par[["phi", "theta", "psi"]].to_numpy()
    for i in range(len(par)):
        R = mat(*pa[i])
        for k in range(n):
            j = i * n + k
            Rk = R @ Rz(360.0 * k / n)
            got = mat(*ang[j])
            check(np.allclose(got, Rk, atol=1e-8), f"{what}: orientation of subunit {k} of parent {i}")
            check(np.allclose(xyz[j] + sh[j], pc[i] + Rk @ s, rtol=0, atol=1e-8), f"{what}: position {k} of {i}")
            # maps back to the parent's centre; related to subunit 0 by a rotation about the parent's z
            check(np.allclose(xyz[j] + sh[j] - got @ s, pc[i], rtol=0, atol=1e-7), f"{what}: back to centre")
            check(np.allclose(got @ np.array([0, 0, 1.0]), R @ np.array([0, 0, 1.0]), atol=1e-8), f"{what}: z-axis")


# --------------------------------------------------------------------------------------------------------------
# 1. the split: every n in 1..64, all spellings, many lists
# --------------------------------------------------------------------------------------------------------------
offsets = [
    [10, 0, 0],
    np.array([10, 0, 0]),
    (0.0, 0.0, 7.5),  # on the axis
    [0, 0, 0],
    [-3.5, 4.25, -2.0],
    [0, -6, 1],
    np.array([3, 4, 0]),
    [1e-3, -2e-3, 5.0],
    rng.uniform(-40, 40, 3),
]
ncases = 0
for n in range(1, 65):
    df = random_frame(int(rng.integers(1, 5)), poles=(n % 3 == 0), holes=(n % 4 == 0))
    for sym in (f"C{n}", f"c{n}", n):
        s = offsets[int(rng.integers(len(offsets)))]
        res = compare_with_original(df, sym, s, f"n={n} sym={sym!r}")
        if res is not None:
            check_property(df, n, s, res, f"n={n} sym={sym!r} s={list(np.asarray(s))}")
            ncases += 1
for s in offsets:  # every offset with a divisor and a non-divisor of 360
    for n in (1, 2, 7, 12, 13):
        df = random_frame(3, poles=True)
        res = compare_with_original(df, n, s, f"offsets n={n}")
        if res is not None:
            check_property(df, n, s, res, f"offsets n={n} s={list(np.asarray(s))}")
            ncases += 1

# list shapes: single row, 100 rows, shuffled / repeated / non-default row labels, unsorted ids, big coordinates
shapes = [
    dict(n=1),
    dict(n=1, index=[42]),
    dict(n=100, holes=True),
    dict(n=17, index=np.arange(17)[::-1] * 3 + 5),
    dict(n=9, index=[4] * 9),
    dict(n=12, ids=rng.permutation(np.arange(100, 112))),
    dict(n=8, ids=np.array([5, 3, 900, 1, 77, 2, 64, 13]), index=list("abcdefgh")),
    dict(n=20, poles=True, big=True),
]
for kw in shapes:
    df = random_frame(**kw)
    for n, sym in ((1, "C1"), (5, 5), (7, "c7"), (16, "C16"), (64, 64)):
        s = offsets[int(rng.integers(len(offsets)))]
        res = compare_with_original(df, sym, s, f"shape {list(kw)} n={n}")
        if res is not None:
            check_property(df, n, s, res, f"shape {kw.get('n')} {list(kw)} n={n}")
            ncases += 1

# positions that land exactly on a half: the rounding is half away from zero
df = random_frame(6)
df[["phi", "theta", "psi"]] = 0.0
df[["x", "y", "z"]] = np.array([[0, 0, 0], [1, -1, 2], [-3, 2, -2], [10, 10, 10], [-1, -1, -1], [0, 0, 0]], float)
df[["shift_x", "shift_y", "shift_z"]] = np.array(
    [[0.5, -0.5, 1.5], [0.5, 0.5, 0.5], [0, 0.5, -0.5], [-0.5, 2.5, -2.5], [0.25, 0.75, -0.25], [0, 0, 0]]
)
res = compare_with_original(df, 1, [0, 0, 0], "ties")
if res is not None:
    check_property(df, 1, [0, 0, 0], res, "ties")
    exp = np.array([[1, -1, 2], [2, -1, 3], [-3, 3, -3], [10, 13, 8], [-1, 0, -1], [0, 0, 0]], float)
    check(np.array_equal(res.df[["x", "y", "z"]].to_numpy(), exp), "ties: half away from zero")
res = compare_with_original(df, 4, [0.5, 0, 0], "ties C4")
if res is not None:
    check_property(df, 4, [0.5, 0, 0], res, "ties C4")

# offsets whose distance from the axis is an exact number (on an axis, on the symmetry axis, 3-4-5, integer and
# float element types): tree and original agree bit for bit, whatever EXACT says
_keep, EXACT = EXACT, True
for s in ([10, 0, 0], [0, -6, 1], (0.0, 0.0, 7.5), [0, 0, 0], np.array([3, 4, 0]), np.array([-3.0, 4.0, 2.5]),
          [0.5, 0, 0], np.array([0, 2], dtype=np.int32).tolist() + [1], np.array([8.0, -6.0, 0.0], dtype=np.float32),
          [-0.0, 0.0, 1.0], [-5, 0, 0]):
    for n in (1, 2, 3, 4, 7, 12, 64):
        compare_with_original(random_frame(3, poles=True), n, s, f"exact radius s={list(np.asarray(s))} n={n}")
EXACT = _keep

# repeated calls on the same object give the same result and leave the object alone
df = random_frame(11, holes=True, index=rng.permutation(11))
m = Motl(df.copy())
r1 = m.split_in_asymmetric_subunits("C11", [4, -2, 1])
r2 = m.split_in_asymmetric_subunits("C11", [4, -2, 1])
frames_equal_exact(r1.df, r2.df, "second call")
frames_equal_exact(m.df, df, "object after two calls")
check_property(df, 11, [4, -2, 1], r2, "second call")
r3 = r2.split_in_asymmetric_subunits(3, [1, 1, 1])  # a split of a split
check_property(r2.df, 3, [1, 1, 1], r3, "split of a split")
ncases += 3

# outside the quantifier, tree and original still have to do the same thing (result or exception type)
odd = random_frame(4)
for sym in ("D2", "d3", "D4", 3.0, 2.5, np.int64(3), "x3", "C", True, 0, "C0", None):
    compare_with_original(odd, sym, [10, 0, 2], f"outside sym={sym!r}")
compare_with_original(Motl.create_empty_motl_df(), 3, [1, 2, 3], "empty list")
dup = random_frame(6, ids=np.array([2, 1, 2, 3, 1, 2]))
compare_with_original(dup, 5, [1, 2, 3], "repeated ids")
ints = random_frame(5)
ints[["x", "y", "z", "class", "tomo_id"]] = ints[["x", "y", "z", "class", "tomo_id"]].astype(int)
compare_with_original(ints, 7, [1, 2, 3], "integer columns")
ints["shift_x"] = ints["shift_x"].astype(int)
compare_with_original(ints, 7, [1, 2, 3], "integer shift column")
f32 = random_frame(5)
f32["score"] = f32["score"].astype(np.float32)
compare_with_original(f32, 7, [1, 2, 3], "float32 column")
for col in ("shift_y", "phi", "x"):
    f32 = random_frame(5)
    f32[col] = f32[col].astype(np.float32)
    compare_with_original(f32, 7, [1, 2, 3], f"float32 {col}")
    f32[col] = np.round(f32[col]).astype(int)
    compare_with_original(f32, 7, [1, 2, 3], f"integer {col}")
lab = random_frame(6, index=pd.MultiIndex.from_tuples([(1, "a"), (1, "b"), (2, "a"), (2, "a"), (3, "c"), (0, "z")]))
res = compare_with_original(lab, 9, [1, 2, 3], "two-level row labels")
if res is not None:
    check_property(lab, 9, [1, 2, 3], res, "two-level row labels")
nanpos = random_frame(5)
nanpos.loc[1, "shift_y"] = np.nan
nanpos.loc[3, "x"] = np.inf
compare_with_original(nanpos, 3, [1, 2, 3], "NaN / inf position")

# --------------------------------------------------------------------------------------------------------------
# 2. update_coordinates on its own (the last step of the split): tree against original and against the rule
# --------------------------------------------------------------------------------------------------------------
def upd(cls, df):
    m = cls(df.copy())
    before = m.df
    snapshot = before.copy()
    try:
        ret = m.update_coordinates()
    except Exception as e:  # noqa
        return ("exc", type(e).__name__, None)
    check(ret is None, "update_coordinates returns something")
    # the frame the list held before is not written to
    frames_equal_exact(before, snapshot, f"{cls.__name__}: previous frame written to") if all(
        d.kind in "fiu" for d in before.dtypes
    ) else None
    return ("ok", m.df, None)


def compare_update(df, what):
    t, o = upd(Motl, df), upd(OrigMotl, df)
    check(t[:1] == o[:1] and (t[0] == "ok" or t[1] == o[1]), f"{what}: tree {t[:2]} vs original {o[:2]}")
    if t[0] == "ok" and o[0] == "ok":
        keep = EXACT
        globals()["EXACT"] = True  # update_coordinates is compared bit for bit in every demo
        frames_equal(t[1], o[1], what)
        globals()["EXACT"] = keep
        return t[1]
    return None


special = np.array(
    [0.5, -0.5, 1.5, 2.5, -2.5, 0.49999999999999994, -0.49999999999999994, 0.0, -0.0, 1e-320, -0.3, 0.3, 2.0**52 + 1,
     -(2.0**53), 4503599627370495.5, 1e300, -1e300, np.nan, np.inf, -np.inf, 7.500000000000001, 7.499999999999999,
     -1234.5, 1234.5, 3.0, -3.0]
)
for trial in range(6):
    k = len(special)
    df = random_frame(k, holes=(trial % 2 == 0), index=(None if trial < 3 else rng.permutation(k) // 2))
    df["x"] = rng.permutation(special) if trial % 2 else 0.0
    df["shift_x"] = special
    df["y"] = np.round(rng.uniform(-50, 50, k))
    df["shift_y"] = rng.choice([0.5, -0.5, 1.5, -1.5, 0.25, 100.5], k)
    out = compare_update(df, f"update special {trial}")
    if out is not None and trial % 2 == 0:
        v = special
        r = np.trunc(v)
        exp = np.where(np.abs(v - r) >= 0.5, r + np.sign(v), r)
        check(np.array_equal(out["x"].to_numpy(), exp, equal_nan=True), "update: half away from zero")
gx, gs = np.meshgrid(special, special)  # every special value as position against every one as shift
df = random_frame(gx.size)
df["z"], df["shift_z"] = gx.ravel(), gs.ravel()
compare_update(df, "update special grid")
for trial in range(20):
    df = random_frame(int(rng.integers(1, 60)), holes=True, big=bool(trial % 2))
    out = compare_update(df, f"update random {trial}")
    if out is not None:
        tot = df[["x", "y", "z"]].to_numpy() + df[["shift_x", "shift_y", "shift_z"]].to_numpy()
        check(np.array_equal(out[["x", "y", "z"]].to_numpy(), np.floor(tot + 0.5)), "update: nearest integer")
        check(np.all(np.abs(out[["shift_x", "shift_y", "shift_z"]].to_numpy()) <= 0.5), "update: |shift| <= 0.5")
        check(
            np.allclose(out[["x", "y", "z"]].to_numpy() + out[["shift_x", "shift_y", "shift_z"]].to_numpy(), tot,
                        rtol=0, atol=1e-9),
            "update: complete position kept",
        )
compare_update(Motl.create_empty_motl_df(), "update empty")
compare_update(random_frame(1), "update single")
mixed = random_frame(7)
mixed[["x", "tomo_id", "class"]] = mixed[["x", "tomo_id", "class"]].astype(int)
compare_update(mixed, "update integer columns")
mixed["shift_x"] = mixed["shift_x"].astype(int)
compare_update(mixed, "update integer shift")
obj = random_frame(7)
obj["class"] = obj["class"].astype(object)
obj["tomo_id"] = obj["tomo_id"].astype(int)
compare_update(obj, "update object column")
obj["class"] = list("abcdefg")
compare_update(obj, "update string column")
f32 = random_frame(7)
f32["shift_z"] = f32["shift_z"].astype(np.float32)
compare_update(f32, "update float32 shift")
f32 = random_frame(7)
f32["geom1"] = f32["geom1"].astype(np.float32)
compare_update(f32, "update float32 other")
bl = random_frame(7)
bl["geom4"] = bl["geom4"] > 0
compare_update(bl, "update bool column")
reo = random_frame(7)[COLS[::-1]]
compare_update(reo, "update reversed column order")

if fails:
    print(f"{len(fails)} check(s) failed")
    sys.exit(1)
print(f"PASS  ({ncases} split cases checked against the independent computation, seed {SEED})")
