import os, sys

sys.path.insert(0, os.getcwd())

import contextlib, io, math, tempfile, textwrap, warnings

import numpy as np
import pandas as pd

from cryocat import cryomap, cryomotl, ioutils
from cryocat.cryomotl import Motl

warnings.filterwarnings("ignore")
COLS = list(Motl.motl_columns)
XYZ = ["x", "y", "z"]
SH = ["shift_x", "shift_y", "shift_z"]
TMP = tempfile.mkdtemp(prefix="c09_demo_")
CHECKS = {"oob": 0, "oob_property_cases": 0, "trim": 0, "dist": 0, "mask": 0, "helper": 0}


def quiet():
    return contextlib.redirect_stdout(io.StringIO())


def same_frame(a, b, what):
    """identical columns, index labels, dtypes and values (NaN equals NaN)"""
    try:
        pd.testing.assert_frame_equal(a, b, check_exact=True, check_dtype=True, check_index_type="equiv")
    except AssertionError as e:
        raise AssertionError(f"{what}: frames differ\n{e}")


def reindex(df, kind, rng):
    n = len(df)
    if kind == "default":
        return df.reset_index(drop=True)
    if kind == "offset":
        df = df.copy()
        df.index = np.arange(100, 100 + n)
        return df
    if kind == "shuffled":
        df = df.copy()
        df.index = rng.permutation(np.arange(7, 7 + n))
        return df
    if kind == "gaps":
        df = df.copy()
        df.index = np.sort(rng.choice(np.arange(0, 5 * n + 5), size=n, replace=False))
        return df
    raise ValueError(kind)


def axis_position(rng, d):
    """a complete position on one axis of a volume with extent d: inside, on the faces, beyond"""
    c = rng.integers(0, 10)
    if c == 0:
        return 0.0
    if c == 1:
        return float(d - 1)
    if c == 2:
        return float(d)
    if c == 3:
        return float(-rng.integers(1, 6)) + rng.choice([0.0, 0.25, 0.5])
    if c == 4:
        return float(d + rng.integers(0, 6)) + rng.choice([0.0, 0.25, 0.5])
    if c == 5:
        return float(d) - 0.25
    if c == 6:
        return float(rng.integers(0, d))  # integer voxel inside
    return float(rng.integers(0, 4 * d)) / 4.0  # quarter positions inside (incl. 0)


def make_df(rng, n, dims, index_kind="default", nan_holes=True, inside_bias=0.0, nonneg=False):
    """dims: dict tomo_id -> (dx, dy, dz).  Positions x+shift are spread inside / on faces / beyond."""
    tomo_ids = np.array(sorted(dims))
    df = pd.DataFrame(np.round(rng.normal(size=(n, len(COLS))) * 10, 3), columns=COLS)
    df["subtomo_id"] = rng.permutation(np.arange(1, n + 1)).astype(float)
    df["tomo_id"] = rng.choice(tomo_ids, size=n).astype(float) if n else np.zeros(0)
    df["object_id"] = rng.integers(1, 4, size=n).astype(float)
    df["class"] = rng.integers(1, 3, size=n).astype(float)
    sh = rng.integers(-12, 13, size=(n, 3)) / 4.0
    sh[rng.random(size=(n, 3)) < 0.3] = 0.0
    pos = np.zeros((n, 3))
    for i in range(n):
        d = dims[int(df["tomo_id"].iloc[i])]
        for a in range(3):
            if rng.random() < inside_bias:
                pos[i, a] = float(rng.integers(0, 4 * d[a])) / 4.0
            else:
                pos[i, a] = axis_position(rng, d[a])
            if nonneg and pos[i, a] < 0:
                pos[i, a] = -pos[i, a]
    df[SH] = sh
    df[XYZ] = pos - sh  # exact: all multiples of 0.25
    if nan_holes and n:
        for c in ["score", "geom1", "geom3", "geom5", "subtomo_mean"]:
            df.loc[rng.random(n) < 0.2, c] = np.nan
    df = df.astype(float)
    return reindex(df, index_kind, rng)


def random_dims(rng, ntomo):
    ids = rng.choice(np.arange(1, 40), size=ntomo, replace=False)
    return {int(t): tuple(int(v) for v in rng.integers(5, 30, size=3)) for t in ids}


# ---------------------------------------------------------------- out of bounds
def dims_input(rng, dims, form):
    rows = [[t, *dims[t]] for t in dims]
    rng.shuffle(rows)
    arr = np.array(rows, dtype=float)
    if form == "df":
        return pd.DataFrame(arr, columns=["tomo_id", "x", "y", "z"])
    if form == "df_othernames":
        return pd.DataFrame(arr)
    if form == "array":
        return arr
    if form == "intarray":
        return arr.astype(int)
    if form == "file":
        p = os.path.join(TMP, f"dims_{rng.integers(1 << 30)}.txt")
        np.savetxt(p, arr, fmt="%d")
        return p
    if form == "list":  # a single tomogram only
        assert len(rows) == 1
        return [float(v) for v in rows[0]]
    raise ValueError(form)


def oracle_oob(df, dims, boundary_type, box_size):
    b = 0 if boundary_type == "center" else math.ceil(box_size / 2)
    upper, lower = [], []
    for i in range(len(df)):
        r = df.iloc[i]
        d = dims[int(r["tomo_id"])]
        p = [r["x"] + r["shift_x"], r["y"] + r["shift_y"], r["z"] + r["shift_z"]]
        upper.append(all(p[a] + b < d[a] for a in range(3)))
        lower.append(all(p[a] - b >= 0 for a in range(3)))
    return np.array(upper, dtype=bool), np.array(lower, dtype=bool)


def check_oob(rng, n, ntomo, index_kind, form, boundary_type, box_size, nonneg):
    dims = random_dims(rng, ntomo)
    df = make_df(rng, n, dims, index_kind, nonneg=nonneg)
    if nonneg and boundary_type == "whole":
        # move everything up by the boundary so that nothing leaves through the lower faces
        df[XYZ] = df[XYZ] + math.ceil(box_size / 2)
    before = df.copy(deep=True)
    m = Motl(df.copy(deep=True))
    dim_in = dims_input(rng, dims, form)
    with quiet():
        ret = m.remove_out_of_bounds_particles(dim_in, boundary_type=boundary_type, box_size=box_size)
    assert ret is None
    upper, lower = oracle_oob(before, dims, boundary_type, box_size)
    # The tree keeps a particle iff it passes the upper-side test (the lower-side test of the tree is vacuous,
    # `all(c_min) >= 0`; the baseline test test_remove_out_of_bounds_particles pins that).  Wherever no particle fails
    # ONLY the lower side, this is exactly the set demanded by the property, which is then checked in full.
    expected = before.iloc[np.where(upper)[0]].reset_index(drop=True)
    same_frame(m.df, expected, "remove_out_of_bounds_particles")
    CHECKS["oob"] += 1
    if np.array_equal(upper, upper & lower):
        same_frame(m.df, before.iloc[np.where(upper & lower)[0]].reset_index(drop=True), "oob property")
        CHECKS["oob_property_cases"] += 1
    # second call on the same object: nothing more to remove, survivors untouched
    again = m.df.copy(deep=True)
    with quiet():
        m.remove_out_of_bounds_particles(dim_in, boundary_type=boundary_type, box_size=box_size)
    same_frame(m.df, again, "remove_out_of_bounds_particles (repeated)")


def run_oob(rng, rounds=40):
    for r in range(rounds):
        for boundary_type, box_size in [("center", None), ("center", 6), ("whole", 4), ("whole", 5), ("whole", 1)]:
            ntomo = int(rng.integers(1, 5))
            n = int(rng.choice([0, 1, 2, 7, 25]))
            forms = ["df", "df_othernames", "array", "intarray", "file"] + (["list"] if ntomo == 1 else [])
            check_oob(
                rng,
                n,
                ntomo,
                str(rng.choice(["default", "offset", "shuffled", "gaps"])),
                str(rng.choice(forms)),
                boundary_type,
                box_size,
                nonneg=bool(r % 2),
            )


# ---------------------------------------------------------------- trimming
def check_trim(rng, n, index_kind, as_type):
    dims = {1: (30, 24, 18), 2: (30, 24, 18)}
    df = make_df(rng, n, dims, index_kind)
    # x, y, z themselves are the extraction positions here: spread them around the trim box, too
    start = rng.integers(1, 12, size=3)
    end = start + rng.integers(0, 14, size=3)
    if n:
        onface = rng.random((n, 3)) < 0.3
        faces = np.where(rng.random((n, 3)) < 0.5, start, end) + rng.choice([-1.0, -0.25, 0.0, 0.25, 1.0], size=(n, 3))
        df[XYZ] = np.where(onface, faces, df[XYZ].to_numpy())
    before = df.copy(deep=True)
    m = Motl(df.copy(deep=True))
    s_in, e_in = {
        "array": (start.copy(), end.copy()),
        "list": (start.tolist(), end.tolist()),
        "tuple": (tuple(start.tolist()), tuple(end.tolist())),
        "float": (start.astype(float), end.astype(float)),
    }[as_type]
    ret = m.adapt_to_trimming(s_in, e_in)
    assert ret is None
    tdim = end - (start - 1)
    new = before[XYZ].to_numpy() - (start - 1)
    keep = np.array([all(1.0 <= new[i, a] <= tdim[a] for a in range(3)) for i in range(n)], dtype=bool)
    expected = before.copy(deep=True)
    expected[XYZ] = new
    expected = expected.loc[expected.index[keep]] if n else expected
    same_frame(m.df, expected, "adapt_to_trimming")
    assert np.array_equal(np.asarray(s_in), start) and np.array_equal(np.asarray(e_in), end), "trim input altered"
    CHECKS["trim"] += 1


def run_trim(rng, rounds=60):
    for r in range(rounds):
        check_trim(
            rng,
            int(rng.choice([0, 1, 3, 20])),
            str(rng.choice(["default", "offset", "shuffled", "gaps"])),
            str(rng.choice(["array", "list", "tuple", "float"])),
        )


# ---------------------------------------------------------------- distance to points
def check_dist(rng, n, ntomo, index_kind, inplace, integer_case):
    dims = random_dims(rng, ntomo)
    df = make_df(rng, n, dims, index_kind, nan_holes=True)
    if integer_case:  # exact distances: 3-4-5 triangles against radius 5
        df[XYZ] = np.round(df[XYZ] + df[SH].to_numpy())
        df[SH] = 0.0
    before = df.copy(deep=True)
    pos = before[XYZ].to_numpy() + before[SH].to_numpy()
    tomo_ids = sorted(dims)
    npts = int(rng.integers(0, 8))
    pts_rows = []
    for _ in range(npts):
        t = int(rng.choice(tomo_ids + [99]))  # 99: a tomogram without particles
        if integer_case and n:
            base = pos[rng.integers(0, n)]
            off = rng.permutation([3.0, 4.0, 0.0]) * rng.choice([-1.0, 1.0], size=3)
            p = base + (off if rng.random() < 0.7 else off + [1.0, 0.0, 0.0])
        elif n and rng.random() < 0.5:
            p = pos[rng.integers(0, n)] + rng.normal(size=3) * 3
        else:
            p = rng.uniform(-5, 35, size=3)
        pts_rows.append([t, *p, rng.normal()])
    points = pd.DataFrame(pts_rows, columns=["tomo_id", "x", "y", "z", "extra"]).astype(float)
    points.index = points.index + 50
    points_before = points.copy(deep=True)
    radius = 5.0 if integer_case else float(rng.choice([0.5, 2.0, 4.3, 9.75]))

    m = Motl(df.copy(deep=True))
    with quiet():
        ret = m.clean_by_distance_to_points(points, radius, inplace=inplace)
    result = m.df if inplace else ret.df
    if not inplace:
        same_frame(m.df, before, "clean_by_distance_to_points(inplace=False) left the list")
    else:
        assert ret is None
    same_frame(points, points_before, "points table")

    remove = np.zeros(n, dtype=bool)
    for i in range(n):
        t = before["tomo_id"].iloc[i]
        for _, q in points_before.iterrows():
            if q["tomo_id"] == t:
                d2 = sum((pos[i, a] - q[c]) ** 2 for a, c in enumerate(XYZ))
                if math.sqrt(d2) <= radius:
                    remove[i] = True
    order = []
    for t in pd.unique(before["tomo_id"]):
        order += [i for i in range(n) if before["tomo_id"].iloc[i] == t and not remove[i]]
    expected = before.iloc[order].reset_index(drop=True)
    same_frame(result, expected, "clean_by_distance_to_points")
    CHECKS["dist"] += 1
    # repeated call: nothing more goes
    if len(result):
        m2 = Motl(result.copy(deep=True))
        with quiet():
            m2.clean_by_distance_to_points(points, radius)
        same_frame(m2.df, expected, "clean_by_distance_to_points (repeated)")


def run_dist(rng, rounds=60):
    for r in range(rounds):
        check_dist(
            rng,
            int(rng.choice([1, 2, 9, 30])),
            int(rng.integers(1, 5)),
            str(rng.choice(["default", "offset", "shuffled", "gaps"])),
            bool(r % 2),
            bool(r % 3 == 0),
        )


# ---------------------------------------------------------------- tomogram masks
def mask_input(rng, mask, form):
    if form == "array":
        return mask
    if form == "floatarray":
        return mask.astype(np.float32) * rng.choice([0.75, 1.0, 3.0])
    ext = {"mrc": ".mrc", "em": ".em", "rec": ".rec"}[form]
    p = os.path.join(TMP, f"mask_{rng.integers(1 << 30)}{ext}")
    cryomap.write(mask.astype(np.float32), p, data_type=np.float32)
    return p


def check_mask(rng, n, ntomo, index_kind, inplace, single_mask, form):
    dims = random_dims(rng, ntomo)
    if single_mask:
        first = dims[sorted(dims)[0]]
        dims = {t: first for t in dims}
    df = make_df(rng, n, dims, index_kind, inside_bias=0.5)
    before = df.copy(deep=True)
    masks = {t: (rng.random(dims[t]) < 0.5).astype(np.int8) for t in dims}
    if single_mask:
        masks = {t: masks[sorted(dims)[0]] for t in dims}
    listed = [t for t in sorted(dims) if rng.random() < 0.8] or [sorted(dims)[0]]
    rng.shuffle(listed)
    tomo_list = listed if rng.random() < 0.5 else np.array(listed)
    if single_mask:
        mask_in = mask_input(rng, masks[listed[0]], form)
    else:
        mask_in = [mask_input(rng, masks[t], form) for t in listed]

    m = Motl(df.copy(deep=True))
    with quiet():
        ret = m.clean_by_tomo_mask(tomo_list, mask_in, inplace=inplace)
    result = m.df if inplace else ret.df
    if not inplace:
        same_frame(m.df, before, "clean_by_tomo_mask(inplace=False) left the list")
    else:
        assert ret is None

    pos = before[XYZ].to_numpy() + before[SH].to_numpy()
    remove = np.zeros(n, dtype=bool)
    for i in range(n):
        t = int(before["tomo_id"].iloc[i])
        if t not in listed:
            continue
        v = [math.floor(pos[i, a]) for a in range(3)]  # voxel the particle sits on
        mk = masks[t]
        if all(0 <= v[a] < mk.shape[a] for a in range(3)) and mk[v[0], v[1], v[2]] == 0:
            remove[i] = True
    expected = before.iloc[np.where(~remove)[0]].reset_index(drop=True)
    same_frame(result, expected, "clean_by_tomo_mask")
    CHECKS["mask"] += 1
    if len(result):
        m2 = Motl(result.copy(deep=True))
        with quiet():
            m2.clean_by_tomo_mask(tomo_list, mask_in)
        same_frame(m2.df, expected, "clean_by_tomo_mask (repeated)")


def run_mask(rng, rounds=60, forms=("array", "floatarray", "mrc", "em", "rec")):
    for r in range(rounds):
        check_mask(
            rng,
            int(rng.choice([0, 1, 2, 9, 30])),
            int(rng.integers(1, 5)),
            str(rng.choice(["default", "offset", "shuffled", "gaps"])),
            bool(r % 2),
            bool(r % 4 == 0),
            str(forms[r % len(forms)]),
        )


def run_property(seed):
    rng = np.random.default_rng(seed)
    run_oob(rng)
    run_trim(rng)
    run_dist(rng)
    run_mask(rng)


# ---------------------------------------------------------------- helper under change: Motl.remove_feature
def remove_feature_original(self, feature_id, feature_values):
    # text of the function at HEAD
    if not isinstance(feature_values, (list, np.ndarray)):
        feature_values = [feature_values]
    for value in feature_values:
        self.df = self.df.loc[self.df[feature_id] != value]


def run_helper(seed):
    rng = np.random.default_rng(seed)
    dims = {1: (10, 10, 10), 2: (12, 8, 9), 5: (7, 7, 7)}
    for r in range(300):
        n = int(rng.choice([0, 1, 2, 10, 40]))
        df = make_df(rng, n, dims, str(rng.choice(["default", "offset", "shuffled", "gaps"])))
        fid = str(rng.choice(["subtomo_id", "tomo_id", "class", "object_id", "score", "geom3"]))
        col = df[fid].to_numpy()
        pool = np.concatenate([col[~np.isnan(col)], [1.0, 2.0, 5.0, -1.0, 1e9]])
        k = int(rng.integers(0, 6))
        vals = rng.choice(pool, size=k)  # possibly with repeats
        form = int(rng.integers(0, 6))
        if form == 0:
            fv = vals.tolist()
        elif form == 1:
            fv = vals
        elif form == 2:
            fv = [int(v) if float(v).is_integer() else float(v) for v in vals]
        elif form == 3:
            fv = float(pool[rng.integers(0, len(pool))])  # a scalar
        elif form == 4:
            fv = vals.tolist() + [float("nan")]  # NaN never equals anything: removes nothing
        else:
            fv = np.array([], dtype=float) if rng.random() < 0.5 else []
        a, b = Motl(df.copy(deep=True)), Motl(df.copy(deep=True))
        fv_a = fv.copy() if isinstance(fv, (list, np.ndarray)) else fv
        assert a.remove_feature(fid, fv) is None
        remove_feature_original(b, fid, fv_a)
        same_frame(a.df, b.df, f"remove_feature vs original ({fid}, form {form})")
        # independent statement: a row stays iff its entry equals none of the values
        lst = list(np.atleast_1d(fv))
        keep = [i for i in range(n) if not any(col[i] == v for v in lst)]
        same_frame(a.df, df.iloc[keep], f"remove_feature vs row-wise statement ({fid}, form {form})")
        # repeated call on the same object with the same values changes nothing
        again = a.df.copy(deep=True)
        a.remove_feature(fid, fv)
        same_frame(a.df, again, "remove_feature repeated")
        if isinstance(fv, np.ndarray):
            assert np.array_equal(fv, fv_a, equal_nan=True), "values altered"
        CHECKS["helper"] += 1
    # the input frame handed to the constructor is not written to
    df = make_df(rng, 12, dims)
    keepcopy = df.copy(deep=True)
    m = Motl(df)
    m.remove_feature("tomo_id", [1.0, 2.0])
    same_frame(df, keepcopy, "caller's frame")


if __name__ == "__main__":
    for seed in (1, 2, 3):
        run_property(seed)
    run_helper(11)
    print(CHECKS)
    print("PASS")
