import sys, os

sys.path.insert(0, os.getcwd())
import math, re, tempfile, shutil, warnings, inspect, textwrap, pathlib

warnings.simplefilter("ignore")
import numpy as np
import pandas as pd
from cryocat import cryomotl, starfileio

# ---------------------------------------------------------------------------------------------------------------
# Independent statement of the conventions (plain numpy, no scipy, no cryocat)
# ---------------------------------------------------------------------------------------------------------------
FAILS = []


def check(cond, msg):
    if not cond:
        FAILS.append(msg)
        if len(FAILS) <= 15:
            print("FAIL:", msg)


def Rx(a):
    c, s = math.cos(math.radians(a)), math.sin(math.radians(a))
    return np.array([[1, 0, 0], [0, c, -s], [0, s, c]])


def Ry(a):
    c, s = math.cos(math.radians(a)), math.sin(math.radians(a))
    return np.array([[c, 0, s], [0, 1, 0], [-s, 0, c]])


def Rz(a):
    c, s = math.cos(math.radians(a)), math.sin(math.radians(a))
    return np.array([[c, -s, 0], [s, c, 0], [0, 0, 1]])


def R_cryocat(phi, theta, psi):  # extrinsic zxz: first phi about z, then theta about x, then psi about z
    return Rz(psi) @ Rx(theta) @ Rz(phi)


def R_relion(rot, tilt, psi):  # ZYZ, intrinsic
    return Rz(rot) @ Ry(tilt) @ Rz(psi)


def inverse_pair_ok(cc_angles, rln_angles, tol=1e-6):
    worst = 0.0
    for (phi, theta, psi), (r, t, p) in zip(cc_angles, rln_angles):
        worst = max(worst, np.abs(R_relion(r, t, p) @ R_cryocat(phi, theta, psi) - np.eye(3)).max())
    return worst < tol, worst


def same_rotation(a1, a2, tol=1e-6):
    worst = 0.0
    for (p1, t1, s1), (p2, t2, s2) in zip(a1, a2):
        worst = max(worst, np.abs(R_cryocat(p1, t1, s1) - R_cryocat(p2, t2, s2)).max())
    return worst < tol, worst


def expand_format(fmt, letter, number):
    """longest run of $<letter>... replaced (every occurrence of that longest run) by the zero padded number"""
    runs = []
    i = 0
    while i < len(fmt):
        if fmt[i] == "$":
            j = i + 1
            while j < len(fmt) and fmt[j] == letter:
                j += 1
            if j > i + 1:
                runs.append(fmt[i:j])
            i = j if j > i + 1 else i + 1
        else:
            i += 1
    if not runs:
        return None
    longest = max(len(r) for r in runs)
    # the library takes the last of the longest ones after a stable sort by length: all longest runs are the same text
    seq = "$" + letter * (longest - 1)
    return fmt.replace(seq, str(int(number)).zfill(longest - 1))


def parse_star(text):
    """independent minimal STAR reader -> {specifier: (labels, rows of strings)}"""
    blocks = {}
    spec, labels, rows, in_loop = None, None, None, False
    for raw in text.split("\n"):
        line = raw.split("#")[0].strip() if not raw.strip().startswith("_") else raw.strip()
        if raw.strip().startswith("#") or line == "":
            continue
        if line.startswith("data_"):
            spec = line
            labels, rows = [], []
            blocks[spec] = (labels, rows)
            in_loop = False
        elif line == "loop_":
            in_loop = True
        elif line.startswith("_"):
            labels.append(line.split()[0][1:])
        else:
            rows.append(line.split())
    return blocks


# ---------------------------------------------------------------------------------------------------------------
# Input generators
# ---------------------------------------------------------------------------------------------------------------
COLS = [
    "score", "geom1", "geom2", "subtomo_id", "tomo_id", "object_id", "subtomo_mean", "x", "y", "z",
    "shift_x", "shift_y", "shift_z", "geom3", "geom4", "geom5", "phi", "psi", "theta", "class",
]


def random_motl(rng, n, index_kind="default", int_positions=False, nan_holes=False, one_halfset=None):
    d = pd.DataFrame(np.zeros((n, 20)), columns=COLS)
    pos = rng.uniform(-800, 800, (n, 3))
    if int_positions:
        pos = np.round(pos)
    d[["x", "y", "z"]] = pos
    sh = rng.uniform(-6, 6, (n, 3))
    sh[rng.random((n, 3)) < 0.2] = 0.0
    sh[rng.random((n, 3)) < 0.1] = 0.5
    sh[rng.random((n, 3)) < 0.1] = -0.5
    sh[rng.random((n, 3)) < 0.05] = -1.5
    d[["shift_x", "shift_y", "shift_z"]] = sh
    ang = rng.uniform(-720, 720, (n, 3))
    poles = rng.random(n)
    ang[poles < 0.15, 1] = 0.0
    ang[(poles >= 0.15) & (poles < 0.3), 1] = 180.0
    ang[(poles >= 0.3) & (poles < 0.35), 1] = -180.0
    ang[(poles >= 0.35) & (poles < 0.4), 1] = 360.0
    ang[rng.random(n) < 0.1, 0] = 0.0
    ang[rng.random(n) < 0.1, 2] = 0.0
    d[["phi", "theta", "psi"]] = ang
    d["tomo_id"] = np.sort(rng.integers(1, 999, n)).astype(float) if rng.random() < 0.5 else rng.integers(1, 40, n).astype(float)
    step = rng.integers(1, 4, n)
    if one_halfset == "odd":
        sub = 2 * np.cumsum(step) - 1
    elif one_halfset == "even":
        sub = 2 * np.cumsum(step)
    else:
        sub = np.cumsum(step)
    d["subtomo_id"] = sub.astype(float)
    d["class"] = rng.integers(1, 6, n).astype(float)
    d["object_id"] = rng.integers(1, 9, n).astype(float)
    d["score"] = rng.uniform(0, 1, n)
    d["geom2"] = rng.integers(1, 5, n).astype(float)
    if nan_holes:
        for c in ("score", "geom1", "geom4", "geom5", "subtomo_mean"):
            d.loc[rng.random(n) < 0.3, c] = np.nan
    if index_kind == "shuffled":
        d.index = rng.permutation(n)
    elif index_kind == "offset":
        d.index = np.arange(n) * 3 + 17
    elif index_kind == "negative":
        d.index = -np.arange(n) - 1
    return d


def random_relion(rng, n, version, ps, halfsets=True, with_pixel_column=False):
    """independent RELION table: dict of columns"""
    tomo = np.sort(rng.integers(1, 500, n))
    sub = np.cumsum(rng.integers(1, 4, n))
    rot = rng.uniform(-180, 180, n)
    tilt = rng.uniform(0, 180, n)
    psi = rng.uniform(-180, 180, n)
    poles = rng.random(n)
    tilt[poles < 0.15] = 0.0
    tilt[(poles >= 0.15) & (poles < 0.3)] = 180.0
    rot[rng.random(n) < 0.1] = 0.0
    coords = np.round(rng.uniform(-900, 900, (n, 3)), 3)
    orig = np.round(rng.uniform(-12, 12, (n, 3)), 4)
    orig[rng.random((n, 3)) < 0.15] = 0.0
    cls = rng.integers(1, 7, n)
    half = rng.integers(1, 3, n)
    t = {}
    if version >= 4.0:
        t["rlnTomoName"] = ["TS_%03d" % i for i in tomo]
        t["rlnTomoParticleName"] = ["TS_%03d/%d" % (i, s) for i, s in zip(tomo, sub)]
        on = ["rlnOriginXAngst", "rlnOriginYAngst", "rlnOriginZAngst"]
    else:
        t["rlnMicrographName"] = ["/data2/run3/tomo%04d_%.2fA.rec" % (i, ps) for i in tomo]
        t["rlnImageName"] = ["/data2/run3/sub7/%04d_%06d_%.2fA.mrc" % (i, s, ps) for i, s in zip(tomo, sub)]
        on = ["rlnOriginX", "rlnOriginY", "rlnOriginZ"] if version < 3.1 else ["rlnOriginXAngst", "rlnOriginYAngst", "rlnOriginZAngst"]
    for k, c in enumerate("XYZ"):
        t["rlnCoordinate" + c] = coords[:, k]
    t["rlnAngleRot"], t["rlnAngleTilt"], t["rlnAnglePsi"] = np.round(rot, 5), np.round(tilt, 5), np.round(psi, 5)
    for k in range(3):
        t[on[k]] = orig[:, k]
    t["rlnClassNumber"] = cls
    if halfsets:
        t["rlnRandomSubset"] = half
    if with_pixel_column and version < 4.0:
        t["rlnPixelSize"] = np.full(n, ps)
    if version >= 3.1:
        t["rlnOpticsGroup"] = np.ones(n, dtype=int)
    return t, dict(tomo=tomo, sub=sub, coords=coords, orig=orig, ang=np.c_[t["rlnAngleRot"], t["rlnAngleTilt"], t["rlnAnglePsi"]], cls=cls, half=half if halfsets else None)


def write_relion_star(path, table, version, ps, optics=True):
    """independent STAR writer in the usual RELION layout"""
    out = []
    if version >= 3.1:
        out += ["", "# version 30001", ""]
        if optics:
            out += ["data_optics", "", "loop_ ", "_rlnOpticsGroup #1 ", "_rlnOpticsGroupName #2 ", "_rlnImagePixelSize #3 ",
                    "_rlnVoltage #4 ", "           1 opticsGroup1 %12.6f   300.000000 " % ps, "", "", "# version 30001", ""]
        out += ["data_particles", "", "loop_ "]
    else:
        out += ["", "data_", "", "loop_ "]
    keys = list(table.keys())
    for i, k in enumerate(keys, 1):
        out.append("_%s #%d " % (k, i))
    n = len(table[keys[0]])
    for r in range(n):
        cells = []
        for k in keys:
            v = table[k][r]
            if isinstance(v, str):
                cells.append(v)
            elif isinstance(v, (int, np.integer)):
                cells.append("%12d" % v)
            else:
                cells.append("%12.6f" % v)
        out.append(" ".join(cells) + " ")
    out += ["", ""]
    with open(path, "w") as f:
        f.write("\n".join(out))


# ---------------------------------------------------------------------------------------------------------------
# Property checks
# ---------------------------------------------------------------------------------------------------------------
def names(version):
    if version >= 4.0:
        return "rlnTomoName", "rlnTomoParticleName", ["rlnOriginXAngst", "rlnOriginYAngst", "rlnOriginZAngst"]
    if version >= 3.1:
        return "rlnMicrographName", "rlnImageName", ["rlnOriginXAngst", "rlnOriginYAngst", "rlnOriginZAngst"]
    return "rlnMicrographName", "rlnImageName", ["rlnOriginX", "rlnOriginY", "rlnOriginZ"]


FORMATS = {
    3.0: [("", ""), ("/d1/tomo$xxx_bin4.rec", "/d1/sub/$xxx/$xxx_$yyyyy_bin4.mrc"), ("/p/$xxxx/$xxxx_$xx.rec", "/p/s$xx_$xxxx_$yy_$yyyyyy_A.mrc")],
    3.1: [("", ""), ("/d1/tomo$xxx_bin4.rec", "/d1/sub/$xxx/$xxx_$yyyyy_bin4.mrc"), ("$xxxxx.mrc", "$xx_$yyy.mrc")],
    4.0: [("", ""), ("TS_$xxx", "TS_$xxx/$yyyyy"), ("run5/TS_$xxxx", "run5/TS_$xxxx/$yyy")],
}


def check_export(tag, d, rln, version, ps, tf, sf, tol=1e-9):
    """d: particle list with 0..n-1 index after fillna; rln: exported table (DataFrame-like of columns)"""
    tname, sname, onames = names(version)
    n = len(d)
    check(len(rln["rlnCoordinateX"]) == n, f"{tag}: row count")
    full = d[["x", "y", "z"]].to_numpy() + d[["shift_x", "shift_y", "shift_z"]].to_numpy()
    got = np.c_[[np.asarray(rln["rlnCoordinate" + c], dtype=float) for c in "XYZ"]].T
    check(np.allclose(got, full, rtol=0, atol=max(tol, 1e-9)), f"{tag}: rlnCoordinate != x+shift")
    for o in onames:
        check(np.all(np.asarray(rln[o], dtype=float) == 0.0), f"{tag}: {o} not zero")
    ra = np.c_[np.asarray(rln["rlnAngleRot"], float), np.asarray(rln["rlnAngleTilt"], float), np.asarray(rln["rlnAnglePsi"], float)]
    ok, worst = inverse_pair_ok(d[["phi", "theta", "psi"]].to_numpy(), ra, tol=max(tol * 10, 1e-8))
    check(ok, f"{tag}: exported ZYZ rotation is not the inverse ({worst})")
    check(np.all(np.asarray(rln["rlnClassNumber"], float) == d["class"].to_numpy()), f"{tag}: class")
    exp_half = np.where(d["subtomo_id"].to_numpy() % 2 == 1, 1, 2)
    check(np.all(np.asarray(rln["rlnRandomSubset"], float) == exp_half), f"{tag}: half-set vs odd/even")
    tn = list(rln[tname])
    sn = list(rln[sname])
    for i in range(n):
        t_id, s_id = d["tomo_id"].iloc[i], d["subtomo_id"].iloc[i]
        if tf == "":
            e = int(t_id)
            g = tn[i]
            check(float(g) == float(e), f"{tag}: tomo number {g} != {e}")
        else:
            check(str(tn[i]) == expand_format(tf, "x", t_id), f"{tag}: tomo name {tn[i]}")
        if sf == "":
            check(float(sn[i]) == float(int(s_id)), f"{tag}: subtomo number {sn[i]}")
        else:
            e = expand_format(sf, "y", s_id)
            e2 = expand_format(e, "x", t_id)
            e = e2 if e2 is not None else e
            check(str(sn[i]) == e, f"{tag}: subtomo name {sn[i]} != {e}")
    if version < 4.0:
        check(np.all(np.asarray(rln["rlnPixelSize"], float) == ps), f"{tag}: rlnPixelSize")


def check_import(tag, m, info, version, ps, tol=1e-9):
    df = m.df
    n = len(info["tomo"])
    check(len(df) == n, f"{tag}: row count")
    check(np.allclose(df[["x", "y", "z"]].to_numpy(), info["coords"], rtol=0, atol=tol), f"{tag}: x,y,z != rlnCoordinate")
    exp_shift = -info["orig"] / (ps if version >= 3.1 else 1.0)
    check(np.allclose(df[["shift_x", "shift_y", "shift_z"]].to_numpy(), exp_shift, rtol=0, atol=tol), f"{tag}: shifts")
    ok, worst = inverse_pair_ok(df[["phi", "theta", "psi"]].to_numpy(), info["ang"], tol=1e-8)
    check(ok, f"{tag}: imported zxz rotation is not the inverse ({worst})")
    check(np.all(df["tomo_id"].to_numpy() == info["tomo"]), f"{tag}: tomo_id")
    check(np.all(df["class"].to_numpy() == info["cls"]), f"{tag}: class")
    check(np.all(df["geom3"].to_numpy() == info["sub"]), f"{tag}: geom3 (subtomo number)")
    sid = df["subtomo_id"].to_numpy()
    check(len(np.unique(sid)) == n, f"{tag}: subtomo ids unique")
    if info["half"] is not None and len(np.unique(info["half"])) == 2:
        check(np.all((sid % 2 == 1) == (info["half"] == 1)), f"{tag}: odd/even vs half-set")
        check(np.all(np.diff(sid) > 0), f"{tag}: renumbered ids increasing")
    else:
        check(np.all(sid == info["sub"]), f"{tag}: subtomo_id")


def run_property(seed=20240, sizes=(1, 2, 3, 8, 37, 300), tmp=None):
    rng = np.random.default_rng(seed)
    own_tmp = tmp is None
    if own_tmp:
        tmp = tempfile.mkdtemp(prefix="c03_")
    cnt = 0
    try:
        # ---------------- export, in-memory round trip, file round trip
        for n in sizes:
            for version in (3.0, 3.1, 4.0):
                for k, (tf, sf) in enumerate(FORMATS[version]):
                    ps = float(rng.choice([1.0, 2.5, 0.834, 13.48]))
                    idx = ["default", "shuffled", "offset", "negative"][(cnt) % 4]
                    cnt += 1
                    d_in = random_motl(rng, n, idx, int_positions=(cnt % 3 == 0), nan_holes=(cnt % 2 == 0),
                                       one_halfset=[None, None, "odd", "even"][cnt % 4])
                    keep = d_in.copy()
                    d = d_in.reset_index(drop=True).fillna(0.0)
                    tag = f"v{version} n={n} fmt{k} idx={idx}"
                    m = cryomotl.RelionMotl(d_in, version=version, pixel_size=ps, binning=1.0)
                    pd.testing.assert_frame_equal(d_in, keep)  # caller's table untouched
                    pd.testing.assert_frame_equal(m.df, d)
                    r1 = m.create_relion_df(tomo_format=tf, subtomo_format=sf)
                    check_export(tag + " export", d, r1, version, ps, tf, sf)
                    r2 = m.create_relion_df(tomo_format=tf, subtomo_format=sf)  # repeated call on the same object
                    pd.testing.assert_frame_equal(r1, r2)
                    pd.testing.assert_frame_equal(m.df, d)
                    if n > 1 and k == 0 and sf == "":
                        pass
                    # in-memory import of the exported table
                    m2 = cryomotl.RelionMotl(r1, version=version, pixel_size=ps, binning=1.0)
                    full = d[["x", "y", "z"]].to_numpy() + d[["shift_x", "shift_y", "shift_z"]].to_numpy()
                    back = m2.df[["x", "y", "z"]].to_numpy() + m2.df[["shift_x", "shift_y", "shift_z"]].to_numpy()
                    check(np.allclose(back, full, rtol=0, atol=1e-9), f"{tag}: memory round trip position")
                    ok, worst = same_rotation(m2.df[["phi", "theta", "psi"]].to_numpy(), d[["phi", "theta", "psi"]].to_numpy(), 1e-8)
                    check(ok, f"{tag}: memory round trip rotation ({worst})")
                    check(np.all(m2.df["tomo_id"].to_numpy() == d["tomo_id"].to_numpy()), f"{tag}: memory round trip tomo")
                    check(np.all(m2.df["class"].to_numpy() == d["class"].to_numpy()), f"{tag}: memory round trip class")
                    check(np.all(m2.df["geom3"].to_numpy() == d["subtomo_id"].to_numpy()), f"{tag}: memory round trip geom3")
                    check(np.all((m2.df["subtomo_id"].to_numpy() % 2) == (d["subtomo_id"].to_numpy() % 2)), f"{tag}: memory round trip parity")
                    # through a STAR file
                    for optics in ((False, True) if version >= 3.1 else (False,)):
                        p = os.path.join(tmp, f"e_{cnt}_{int(optics)}.star")
                        m.write_out(p, write_optics=optics, tomo_format=tf, subtomo_format=sf)
                        blocks = parse_star(open(p).read())
                        spec = "data_" if version < 3.1 else "data_particles"
                        check(spec in blocks, f"{tag}: specifier {spec} in file")
                        check(("data_optics" in blocks) == bool(optics), f"{tag}: optics block on/off")
                        labels, rows = blocks[spec]
                        tab = {l: [r[j] for r in rows] for j, l in enumerate(labels)}
                        check_export(tag + f" file optics={optics}", d, tab, version, ps, tf, sf, tol=6e-7)
                        if optics:
                            ol, orow = blocks["data_optics"]
                            check(float(orow[0][ol.index("rlnImagePixelSize")]) == ps, f"{tag}: optics pixel size")
                        m3 = cryomotl.RelionMotl(p, pixel_size=ps, binning=1.0)
                        check(m3.version == version, f"{tag}: version detected from file {m3.version}")
                        back = m3.df[["x", "y", "z"]].to_numpy() + m3.df[["shift_x", "shift_y", "shift_z"]].to_numpy()
                        check(np.allclose(back, full, rtol=0, atol=6e-7), f"{tag}: file round trip position")
                        ok, worst = same_rotation(m3.df[["phi", "theta", "psi"]].to_numpy(), d[["phi", "theta", "psi"]].to_numpy(), 1e-6)
                        check(ok, f"{tag}: file round trip rotation ({worst})")
                        check(np.all(m3.df["tomo_id"].to_numpy() == d["tomo_id"].to_numpy()), f"{tag}: file round trip tomo")
                        check(np.all(m3.df["class"].to_numpy() == d["class"].to_numpy()), f"{tag}: file round trip class")
                        check(np.all(m3.df["geom3"].to_numpy() == d["subtomo_id"].to_numpy()), f"{tag}: file round trip geom3")
                        if optics and version >= 3.1:
                            m4 = cryomotl.RelionMotl(p)  # pixel size taken from the file
                            check(np.all(np.asarray(m4.pixel_size, float) == ps), f"{tag}: pixel size from file")
                            pd.testing.assert_frame_equal(m4.df, m3.df)
        # ---------------- import of independently written RELION data
        for n in sizes:
            for version in (3.0, 3.1, 4.0):
                for halfsets in (True, False):
                    ps = float(rng.choice([1.0, 2.5, 0.834, 13.48]))
                    cnt += 1
                    tab, info = random_relion(rng, n, version, ps, halfsets=halfsets, with_pixel_column=(cnt % 2 == 0))
                    tag = f"import v{version} n={n} half={halfsets}"
                    rdf = pd.DataFrame(tab)
                    rdf.index = rng.permutation(n) + 5  # non-default row labels
                    keep = rdf.copy()
                    m = cryomotl.RelionMotl(rdf, version=version, pixel_size=ps, binning=1.0)
                    pd.testing.assert_frame_equal(rdf, keep)
                    check_import(tag + " table", m, info, version, ps)
                    m_auto = cryomotl.RelionMotl(rdf, pixel_size=ps)  # version from the columns
                    check(m_auto.version == version, f"{tag}: version from columns")
                    pd.testing.assert_frame_equal(m_auto.df, m.df)
                    for optics in ((True, False) if version >= 3.1 else (False,)):
                        p = os.path.join(tmp, f"i_{cnt}_{int(optics)}.star")
                        write_relion_star(p, tab, version, ps, optics=optics)
                        mf = cryomotl.RelionMotl(p, pixel_size=ps, binning=1.0)
                        check(mf.version == version, f"{tag}: version from file")
                        check_import(tag + f" file optics={optics}", mf, info, version, ps, tol=1e-6)
                        if optics or "rlnPixelSize" in tab:
                            mf2 = cryomotl.RelionMotl(p)
                            check_import(tag + f" file optics={optics} ps from file", mf2, info, version, ps, tol=1e-6)
                        em = cryomotl.relion2emmotl(p, pixel_size=ps, binning=1.0)
                        check(isinstance(em, cryomotl.EmMotl), f"{tag}: relion2emmotl type")
                        pd.testing.assert_frame_equal(em.df, mf.df.fillna(0.0))
                        sg = cryomotl.relion2stopgap(p) if (optics or "rlnPixelSize" in tab) else None
                        if sg is not None:
                            check_import(tag + " relion2stopgap", sg, info, version, ps, tol=1e-6)
        # ---------------- module level converters (update_coordinates path)
        for n in sizes:
            for version in (3.0, 3.1, 4.0):
                ps = float(rng.choice([1.0, 2.5, 13.48]))
                cnt += 1
                tf, sf = FORMATS[version][1]
                d_in = random_motl(rng, n, ["default", "shuffled", "offset"][cnt % 3], int_positions=(cnt % 2 == 0), nan_holes=True)
                d = d_in.reset_index(drop=True).fillna(0.0)
                full = d[["x", "y", "z"]].to_numpy() + d[["shift_x", "shift_y", "shift_z"]].to_numpy()
                tag = f"converter v{version} n={n}"
                p = os.path.join(tmp, f"c_{cnt}.star")
                for which in ("em", "emfile", "sg", "sgfile"):
                    if which == "em":
                        r = cryomotl.emmotl2relion(d_in, p, tomo_format=tf, subtomo_format=sf, relion_version=version, pixel_size=ps, write_optics=(version >= 3.1))
                        dd, ftol = d, 1e-9
                    elif which == "emfile":
                        pe = os.path.join(tmp, f"c_{cnt}.em")
                        cryomotl.EmMotl(d_in).write_out(pe)
                        r = cryomotl.emmotl2relion(pe, p, tomo_format=tf, subtomo_format=sf, relion_version=version, pixel_size=ps)
                        dd, ftol = d.astype(np.float32).astype(float), 1e-9
                    elif which == "sg":
                        r = cryomotl.stopgap2relion(d_in, p, tomo_format=tf, subtomo_format=sf, relion_version=version, pixel_size=ps)
                        dd, ftol = d, 1e-9
                    else:
                        psg = os.path.join(tmp, f"c_{cnt}_sg.star")
                        cryomotl.StopgapMotl(d_in).write_out(psg)
                        r = cryomotl.stopgap2relion(psg, p, tomo_format=tf, subtomo_format=sf, relion_version=version, pixel_size=ps)
                        dd, ftol = d.round(6), 1e-9
                    fullw = dd[["x", "y", "z"]].to_numpy() + dd[["shift_x", "shift_y", "shift_z"]].to_numpy()
                    # integer extraction position + residual shift in [-0.5, 0.5]
                    xyz = r.df[["x", "y", "z"]].to_numpy()
                    shf = r.df[["shift_x", "shift_y", "shift_z"]].to_numpy()
                    check(np.all(xyz == np.round(xyz)), f"{tag} {which}: positions integer after update")
                    check(np.all(np.abs(shf) <= 0.5 + 1e-9), f"{tag} {which}: residual shift")
                    check(np.allclose(xyz + shf, fullw, rtol=0, atol=1e-9), f"{tag} {which}: complete position kept")
                    blocks = parse_star(open(p).read())
                    labels, rows = blocks["data_" if version < 3.1 else "data_particles"]
                    tab = {l: [rw[j] for rw in rows] for j, l in enumerate(labels)}
                    check_export(tag + " " + which, dd, tab, version, ps, tf, sf, tol=6e-7)
                    back = cryomotl.relion2emmotl(p, pixel_size=ps, binning=1.0)
                    bpos = back.df[["x", "y", "z"]].to_numpy() + back.df[["shift_x", "shift_y", "shift_z"]].to_numpy()
                    check(np.allclose(bpos, fullw, rtol=0, atol=6e-7), f"{tag} {which}: converter round trip position")
                    ok, worst = same_rotation(back.df[["phi", "theta", "psi"]].to_numpy(), dd[["phi", "theta", "psi"]].to_numpy(), 1e-6)
                    check(ok, f"{tag} {which}: converter round trip rotation ({worst})")
                    check(np.all(back.df["tomo_id"].to_numpy() == dd["tomo_id"].to_numpy()), f"{tag} {which}: converter tomo")
                    check(np.all(back.df["geom3"].to_numpy() == dd["subtomo_id"].to_numpy()), f"{tag} {which}: converter subtomo number")
    finally:
        if own_tmp:
            shutil.rmtree(tmp, ignore_errors=True)
    return cnt


def finish(extra=""):
    if FAILS:
        print(f"FAIL ({len(FAILS)} checks failed)")
        sys.exit(1)
    print("PASS", extra)
    sys.exit(0)

# ---------------------------------------------------------------------------------------------------------------
# change a: patched Motl.update_coordinates against the original text of the helper
# ---------------------------------------------------------------------------------------------------------------
import decimal


def original_update_coordinates(self):
    # Python 0.5 rounding: round(1.5) = 2, BUT round(2.5) = 2, while in Matlab round(2.5) = 3
    def round_and_recenter(row):
        new_row = row.copy()
        shifted_x = row["x"] + row["shift_x"]
        shifted_y = row["y"] + row["shift_y"]
        shifted_z = row["z"] + row["shift_z"]
        new_row["x"] = float(decimal.Decimal(shifted_x).to_integral_value(rounding=decimal.ROUND_HALF_UP))
        new_row["y"] = float(decimal.Decimal(shifted_y).to_integral_value(rounding=decimal.ROUND_HALF_UP))
        new_row["z"] = float(decimal.Decimal(shifted_z).to_integral_value(rounding=decimal.ROUND_HALF_UP))
        new_row["shift_x"] = shifted_x - new_row["x"]
        new_row["shift_y"] = shifted_y - new_row["y"]
        new_row["shift_z"] = shifted_z - new_row["z"]
        return new_row

    self.df = self.df.apply(round_and_recenter, axis=1)
    warnings.warn("The coordinates for subtomogram extraction were changed, new extraction is necessary!")


def frames_identical(a, b):
    if list(a.columns) != list(b.columns) or list(a.index) != list(b.index) or list(a.dtypes) != list(b.dtypes):
        return False
    x, y = a.to_numpy(), b.to_numpy()
    same = (x == y) | (np.isnan(x) & np.isnan(y))
    return bool(same.all()) and bool((np.signbit(x) == np.signbit(y)).all())


def compare_update_coordinates():
    rng = np.random.default_rng(77)
    special = np.array([0.5, -0.5, 1.5, -1.5, 2.5, -2.5, 0.49999999999999994, -0.49999999999999994, 0.5000000000000001,
                        -0.0, 0.0, 1e15 + 0.5, -1e15 - 0.5, 4503599627370497.0, 1e300, -3.0, 7.0, 0.3, -0.3, 1e-320])
    trials = 0
    for n in (1, 2, 3, 20, 64, 300):
        for rep in range(6):
            d = random_motl(rng, n, ["default", "shuffled", "offset", "negative"][rep % 4], int_positions=(rep % 2 == 0))
            if rep >= 2:  # special values in positions and shifts
                for c in ("x", "y", "z", "shift_x", "shift_y", "shift_z"):
                    m = rng.random(n) < 0.5
                    d.loc[m, c] = rng.choice(special, int(m.sum()))
            if rep == 3:  # integer typed identity columns, as a user table may have
                d = d.astype({"tomo_id": int, "subtomo_id": int, "class": int, "object_id": "int32"})
            if rep == 4:
                d = d[sorted(d.columns)]  # another column order
            for cls in (cryomotl.Motl, cryomotl.EmMotl, cryomotl.StopgapMotl, cryomotl.RelionMotl):
                m1 = cls.__new__(cls)
                m2 = cls.__new__(cls)
                m1.df, m2.df = d.copy(), d.copy()
                m1.update_coordinates()
                original_update_coordinates(m2)
                check(frames_identical(m1.df, m2.df), f"update_coordinates differs from the original (n={n}, rep={rep})")
                pd.testing.assert_frame_equal(m1.df, m2.df, check_exact=True)
                # repeated call: already integer positions with residual shifts
                m1.update_coordinates()
                original_update_coordinates(m2)
                check(frames_identical(m1.df, m2.df), f"second update_coordinates differs (n={n}, rep={rep})")
                trials += 2
    # the rounding itself, stated independently: half away from zero on the exact binary value
    vals = np.concatenate([special, rng.uniform(-1000, 1000, 5000), np.round(rng.uniform(-1000, 1000, 2000)) + 0.5])
    d = pd.DataFrame(np.zeros((len(vals), 20)), columns=COLS)
    d["x"] = vals
    m = cryomotl.Motl(d.copy())
    m.update_coordinates()
    from fractions import Fraction

    def half_away(v):
        f = Fraction(float(v))
        a = abs(f)
        w = a.numerator // a.denominator
        if a - w >= Fraction(1, 2):
            w += 1
        return w if f >= 0 else -w

    for v, r, s in zip(vals, m.df["x"].to_numpy(), m.df["shift_x"].to_numpy()):
        check(Fraction(float(r)) == half_away(v) and s == v - r, f"rounding of {v!r}: {r!r}")
    return trials


if __name__ == "__main__":
    t = compare_update_coordinates()
    c = run_property()
    finish(f"(update_coordinates compared with the original text on {t} tables; {c} property configurations)")
