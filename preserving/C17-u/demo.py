"""C17 / change b -- create_wedge_list_em_batch fills a preallocated (n_tomograms, 2) single-precision buffer through
the helper _fill_tilt_range(row, tilts) (output-buffer convention: the buffer is created by the only caller for that
purpose) instead of appending numpy scalars to two python lists.

The demo
  1. builds 1..5 tomograms with tilt files of 1..80 ascending values (.tlt / .rawtlt / .mdoc), per-tomogram dimensions,
     z-shifts, ctffind4 / gctf defocus files and dose files,
  2. checks the C17 statements against an independent computation: the EM wedge list (table and .em file) holds each
     tomogram's minimum and maximum tilt; loaders return the numbers in the files (tilts ascending, defocus in
     micrometre with mean (U+V)/2); the STOPGAP list has one row per tilt per tomogram pairing i-th tilt / defocus /
     exposure with that tomogram's constants; wedge_list_sg_to_em agrees with the EM list,
  3. compares create_wedge_list_em_batch of the tree with the ORIGINAL function text kept below on the same inputs
     (tables with dtypes, bytes of the written .em files, exceptions; also unsorted / NaN / duplicate-id inputs beyond
     the quantifier), repeats the calls, and checks that tomogram lists / arrays and all input files stay untouched.
Prints PASS and exits 0 when everything holds.
"""
import sys, os

sys.path.insert(0, os.getcwd())

import random
import tempfile
import warnings

import numpy as np
import pandas as pd
import emfile
from pandas.testing import assert_frame_equal

warnings.simplefilter("ignore")

from cryocat import ioutils
from cryocat import wedgeutils

# --------------------------------------------------------------------------------------------------------------------
# original text of wedgeutils.create_wedge_list_em_batch (HEAD d4d8304), docstring dropped
# --------------------------------------------------------------------------------------------------------------------
ORIG_SRC = '''
def orig_create_wedge_list_em_batch(
    tomo_list,
    tlt_file_format,
    output_file=None,
):
    wedge_list_df = pd.DataFrame(columns=["tomo_num", "min_angle", "max_angle"])

    tomograms = ioutils.tlt_load(tomo_list).astype(int)

    wedge_list_df["tomo_num"] = tomograms
    tilts_min = []
    tilts_max = []

    for t in tomograms:
        tlt_file = ioutils.fileformat_replace_pattern(tlt_file_format, t, "x", raise_error=False)
        tilts = ioutils.tlt_load(tlt_file).astype(np.single)
        tilts_min.append(np.min(tilts))
        tilts_max.append(np.max(tilts))

    wedge_list_df["min_angle"] = np.asarray(tilts_min)
    wedge_list_df["max_angle"] = np.asarray(tilts_max)

    if output_file is not None:
        wedge_array = wedge_list_df.to_numpy()
        wedge_array = wedge_array.reshape((1, wedge_array.shape[0], wedge_array.shape[1])).astype(np.single)
        emfile.write(output_file, wedge_array, {}, overwrite=True)

    return wedge_list_df
'''
_ns = {"pd": pd, "np": np, "ioutils": ioutils, "emfile": emfile}
exec(ORIG_SRC, _ns)
orig_em_batch = _ns["orig_create_wedge_list_em_batch"]

rng = random.Random(170217)
n_checks = 0


def ok(cond, msg):
    global n_checks
    n_checks += 1
    if not cond:
        print("FAIL:", msg)
        sys.exit(1)


def read_bytes(p):
    with open(p, "rb") as f:
        return f.read()


def snapshot_dir(root):
    snap = {}
    for dp, _, fns in os.walk(root):
        for fn in fns:
            p = os.path.join(dp, fn)
            snap[p] = read_bytes(p)
    return snap


def num_text(v):
    """Text of a number the way tilt / dose files carry them (plain decimals, sometimes integers)."""
    if float(v).is_integer() and rng.random() < 0.5:
        return str(int(v))
    return repr(v)


def gen_tilts(n):
    start = rng.uniform(-70, 5)
    vals, cur = [], start
    for _ in range(n):
        vals.append(round(cur, rng.randint(0, 4)))
        cur = vals[-1] + rng.choice([0.5, 1.0, 2.0, 3.0]) + rng.uniform(0.01, 0.3)
    assert all(b > a for a, b in zip(vals, vals[1:]))
    return vals


def write_mdoc(path, tilts, exposure, prior):
    """Minimal SerialEM-like mdoc, images stored in acquisition (not tilt) order."""
    order = list(range(len(tilts)))
    order.sort(key=lambda i: (abs(i - len(tilts) // 2), i))
    with open(path, "w") as f:
        f.write("PixelSpacing = 1.35\nVoltage = 300\n\n[T = SerialEM: demo]\n\n")
        for z, i in enumerate(order):
            f.write("[ZValue = {}]\nTiltAngle = {}\nMagnification = 81000\nExposureDose = {}\nPriorRecordDose = {}\n\n".format(
                z, repr(tilts[i]), repr(exposure[i]), repr(prior[i])))


def build_case(root, n_tomo, tlt_kind):
    """Creates the files of one data set; returns the description used as the independent expectation."""
    ids = sorted(rng.sample(range(1, 1000), n_tomo))
    if rng.random() < 0.4:
        rng.shuffle(ids)
    case = {"ids": ids, "tomo": {}}
    ext = {"tlt": ".tlt", "rawtlt": ".rawtlt", "mdoc": ".mdoc"}[tlt_kind]
    for t in ids:
        n = rng.choice([1, 2, 3, 80]) if rng.random() < 0.25 else rng.randint(1, 80)
        tilts = gen_tilts(n)
        d = os.path.join(root, "TS_{:03d}".format(t))
        os.makedirs(d)
        exposure = [round(rng.uniform(1, 5), 2) for _ in range(n)]
        prior = [round(rng.uniform(0, 150), 2) for _ in range(n)]
        if tlt_kind == "mdoc":
            write_mdoc(os.path.join(d, "{:03d}.mdoc".format(t)), tilts, exposure, prior)
        else:
            with open(os.path.join(d, "{:03d}{}".format(t, ext)), "w") as f:
                f.write("".join(rng.choice(["", " ", "  "]) + num_text(v) + "\n" for v in tilts))
        dose = [round(3.1 * (i + 1) + rng.uniform(0, 1), 3) for i in range(n)]
        with open(os.path.join(d, "{:03d}_dose.txt".format(t)), "w") as f:
            f.write("".join(num_text(v) + "\n" for v in dose))
        du = [round(rng.uniform(15000, 60000), 2) for _ in range(n)]
        dv = [round(u - rng.uniform(0, 900), 2) for u in du]
        ang = [round(rng.uniform(-90, 90), 2) for _ in range(n)]
        ph = [round(rng.uniform(0, 1.5), 3) for _ in range(n)]
        with open(os.path.join(d, "{:03d}_ctffind4.txt".format(t)), "w") as f:
            f.write("# Output from CTFFind version 4.1.14\n# Input file: x.mrc ; Number of micrographs: {}\n".format(n))
            f.write("# Pixel size: 1.350 Angstroms ; acceleration voltage: 300.0 keV\n# Columns: #1 - #7\n")
            for i in range(n):
                f.write("{:.6f} {:.6f} {:.6f} {:.6f} {:.6f} {:.6f} {:.6f}\n".format(i + 1, du[i], dv[i], ang[i], ph[i], 0.1, 8.5))
        with_phase = rng.random() < 0.5
        with open(os.path.join(d, "{:03d}_gctf.star".format(t)), "w") as f:
            f.write("\ndata_\n\nloop_\n_rlnMicrographName #1\n_rlnDefocusU #2\n_rlnDefocusV #3\n_rlnDefocusAngle #4\n")
            if with_phase:
                f.write("_rlnPhaseShift #5\n")
            for i in range(n):
                f.write("img_{:03d}.mrc {:.6f} {:.6f} {:.6f}".format(i, du[i], dv[i], ang[i]))
                f.write(" {:.6f}\n".format(ph[i]) if with_phase else "\n")
        case["tomo"][t] = dict(tilts=tilts, dose=dose, du=du, dv=dv, ang=ang, ph=ph, with_phase=with_phase,
                               exposure=exposure, prior=prior,
                               dims=[rng.randint(100, 4096), rng.randint(100, 4096), rng.randint(50, 2000)],
                               z_shift=round(rng.uniform(-100, 100), 1))
    case["tlt_format"] = os.path.join(root, "TS_$xxx", "$xxx" + ext)
    case["dose_format"] = os.path.join(root, "TS_$xxx", "$xxx_dose.txt")
    case["ctffind4_format"] = os.path.join(root, "TS_$xxx", "$xxx_ctffind4.txt")
    case["gctf_format"] = os.path.join(root, "TS_$xxx", "$xxx_gctf.star")
    return case


def tomo_list_variants(root, ids):
    out = [("int array", np.array(ids, dtype=int)), ("list", list(ids)), ("float array", np.array(ids, dtype=float))]
    p = os.path.join(root, "tomo_list.txt")
    with open(p, "w") as f:
        f.write("".join("{}\n".format(t) for t in ids))
    out.append(("file", p))
    return out


def same_outcome(fn_a, fn_b, args, out_a, out_b, msg):
    """Runs both functions; same table (dtypes included), same file bytes or same exception."""
    res = []
    for fn, out in ((fn_a, out_a), (fn_b, out_b)):
        try:
            res.append(("ok", fn(*args, output_file=out)))
        except Exception as e:  # noqa
            res.append(("err", type(e), str(e)))
    ok(res[0][0] == res[1][0], msg + ": {} vs {}".format(res[0], res[1]))
    if res[0][0] == "ok":
        try:
            assert_frame_equal(res[0][1], res[1][1], check_exact=True)
        except AssertionError as e:
            ok(False, msg + ": tables differ: " + str(e))
        if out_a is not None:
            ok(read_bytes(out_a) == read_bytes(out_b), msg + ": written .em files differ")
    else:
        ok(res[0][1:] == res[1][1:], msg + ": errors differ {} vs {}".format(res[0], res[1]))
    return res[1]


def check_case(root, idx, n_tomo, tlt_kind):
    case = build_case(root, n_tomo, tlt_kind)
    ids = case["ids"]
    tag = "case {} ({} tomograms, {})".format(idx, n_tomo, tlt_kind)
    files_before = snapshot_dir(root)

    # ---- loaders return the numbers in their files
    for t in ids:
        info = case["tomo"][t]
        f_tlt = ioutils.fileformat_replace_pattern(case["tlt_format"], t, "x")
        tl = ioutils.tlt_load(f_tlt)
        if tlt_kind == "mdoc":
            ok(tl.dtype == np.float64 and list(tl) == info["tilts"], tag + ": tlt_load mdoc")
            dm = ioutils.total_dose_load(f_tlt)
            ok(np.allclose(np.asarray(dm, dtype=float), np.array(info["prior"]) + np.array(info["exposure"]), rtol=0, atol=1e-9),
               tag + ": mdoc dose = prior + exposure")
        else:
            ok(tl.dtype == np.float32 and np.array_equal(tl, np.array(info["tilts"]).astype(np.float32)), tag + ": tlt_load")
        ok(bool(np.all(np.diff(tl) > 0)), tag + ": tilts ascending")
        ds = ioutils.total_dose_load(ioutils.fileformat_replace_pattern(case["dose_format"], t, "x"))
        ok(np.array_equal(ds, np.array(info["dose"]).astype(np.float32)), tag + ": dose load")
        u, v = np.array(info["du"]), np.array(info["dv"])
        for typ in ("ctffind4", "gctf"):
            df = ioutils.defocus_load(ioutils.fileformat_replace_pattern(case[typ + "_format"], t, "x"), typ)
            ok(list(df.columns) == ["defocus1", "defocus2", "astigmatism", "phase_shift", "defocus_mean"], tag + ": defocus columns")
            ok(len(df) == len(u), tag + ": defocus rows")
            ok(np.allclose(df["defocus1"], u * 1e-4, rtol=1e-6, atol=0) and np.allclose(df["defocus2"], v * 1e-4, rtol=1e-6, atol=0),
               tag + ": defocus in micrometre ({})".format(typ))
            ok(np.allclose(df["defocus_mean"], (u + v) / 2 * 1e-4, rtol=1e-6, atol=0), tag + ": defocus mean ({})".format(typ))
            ok(np.allclose(df["astigmatism"], info["ang"], rtol=1e-6, atol=1e-6), tag + ": astigmatism")
            exp_ph = info["ph"] if (typ == "ctffind4" or info["with_phase"]) else [0.0] * len(u)
            ok(np.allclose(df["phase_shift"], exp_ph, rtol=1e-6, atol=1e-7), tag + ": phase shift")

    # ---- EM wedge list: minimum and maximum tilt per tomogram (independent: first / last value of the ascending file)
    all_ids = ids
    first_df = {}
    for name, tl in tomo_list_variants(root, all_ids):
        # a tomogram list read from a file goes through tlt_load and comes back ascending; arrays / lists keep their order
        ids = sorted(all_ids) if name == "file" else all_ids
        exp_min = np.array([np.float32(min(case["tomo"][t]["tilts"])) for t in ids], dtype=np.float32)
        exp_max = np.array([np.float32(max(case["tomo"][t]["tilts"])) for t in ids], dtype=np.float32)
        files_before = snapshot_dir(root)
        keep = tl.copy() if isinstance(tl, np.ndarray) else (list(tl) if isinstance(tl, list) else tl)
        out_new = os.path.join(root, "wedge_new.em")
        out_old = os.path.join(root, "wedge_old.em")
        r = same_outcome(orig_em_batch, wedgeutils.create_wedge_list_em_batch, (tl, case["tlt_format"]), out_old, out_new,
                         tag + " [" + name + "]")
        ok(r[0] == "ok", tag + ": unexpected error " + str(r))
        df = r[1]
        ok(list(df.columns) == ["tomo_num", "min_angle", "max_angle"], tag + ": em columns")
        ok(list(df.index) == list(range(n_tomo)), tag + ": em index")
        ok(df["tomo_num"].dtype == np.int64 and list(df["tomo_num"]) == ids, tag + ": em tomo_num")
        ok(df["min_angle"].dtype == np.float32 and df["max_angle"].dtype == np.float32, tag + ": em dtypes")
        ok(np.array_equal(df["min_angle"].to_numpy(), exp_min), tag + ": em min {} != {}".format(df["min_angle"].to_numpy(), exp_min))
        ok(np.array_equal(df["max_angle"].to_numpy(), exp_max), tag + ": em max")
        ok(bool(np.all(df["min_angle"].to_numpy() <= df["max_angle"].to_numpy())), tag + ": min <= max")
        # the two columns are independent of each other and of later writes
        ok(not np.shares_memory(df["min_angle"].to_numpy(), df["max_angle"].to_numpy()), tag + ": columns share memory")
        df2 = df.copy()
        df2.loc[0, "min_angle"] = np.float32(-999.0)
        ok(np.array_equal(df["min_angle"].to_numpy(), exp_min) and np.array_equal(df2["max_angle"].to_numpy(), exp_max), tag + ": column write leaks")
        # written file
        hdr, arr = emfile.read(out_new)
        ok(arr.shape == (1, n_tomo, 3) and arr.dtype == np.float32, tag + ": em file shape")
        ok(np.array_equal(arr[0, :, 0], np.array(ids, dtype=np.float32)) and np.array_equal(arr[0, :, 1], exp_min)
           and np.array_equal(arr[0, :, 2], exp_max), tag + ": em file content")
        # no output file, repeated call: same table again
        again = wedgeutils.create_wedge_list_em_batch(tl, case["tlt_format"])
        assert_frame_equal(again, df, check_exact=True)
        assert_frame_equal(again, orig_em_batch(tl, case["tlt_format"]), check_exact=True)
        if tuple(ids) not in first_df:
            first_df[tuple(ids)] = df
        else:
            assert_frame_equal(df, first_df[tuple(ids)], check_exact=True)
        # inputs untouched
        if isinstance(tl, np.ndarray):
            ok(np.array_equal(tl, keep) and tl.dtype == keep.dtype, tag + ": tomo array modified")
        elif isinstance(tl, list):
            ok(tl == keep, tag + ": tomo list modified")
        os.remove(out_new), os.remove(out_old)
        ok(snapshot_dir(root) == files_before, tag + ": input files modified")

    ids = all_ids
    exp_min = np.array([np.float32(min(case["tomo"][t]["tilts"])) for t in ids], dtype=np.float32)
    exp_max = np.array([np.float32(max(case["tomo"][t]["tilts"])) for t in ids], dtype=np.float32)

    # ---- STOPGAP wedge list: one row per tilt per tomogram with that tomogram's constants
    dims = np.array([[t] + case["tomo"][t]["dims"] for t in ids])
    zs = np.array([[t, case["tomo"][t]["z_shift"]] for t in ids])
    ctf_typ = rng.choice(["ctffind4", "gctf"])
    px, volt, ac, cs = round(rng.uniform(0.5, 10), 3), rng.choice([200.0, 300.0]), 0.07 + rng.random() * 0.03, rng.choice([2.7, 2.26, 0.01])
    star = os.path.join(root, "wedge_sg.star")
    dose_format = case["tlt_format"] if (tlt_kind == "mdoc" and rng.random() < 0.5) else case["dose_format"]
    sg = wedgeutils.create_wedge_list_sg_batch(np.array(ids), px, case["tlt_format"], tomo_dim=dims, z_shift=zs,
                                               ctf_file_format=case[ctf_typ + "_format"], ctf_file_type=ctf_typ,
                                               dose_file_format=dose_format, voltage=volt, amp_contrast=ac, cs=cs,
                                               output_file=star)
    total = sum(len(case["tomo"][t]["tilts"]) for t in ids)
    ok(len(sg) == total and list(sg.index) == list(range(total)), tag + ": sg rows")
    pos = 0
    for t in ids:
        info = case["tomo"][t]
        n = len(info["tilts"])
        part = sg.iloc[pos:pos + n]
        pos += n
        ok(list(part["tomo_num"]) == [t] * n, tag + ": sg tomo_num")
        ok(np.allclose(part["tilt_angle"], info["tilts"], rtol=1e-6, atol=1e-6), tag + ": sg tilt")
        ok(np.allclose(part["defocus"], (np.array(info["du"]) + np.array(info["dv"])) / 2 * 1e-4, rtol=1e-6, atol=0), tag + ": sg defocus")
        exp_dose = (np.array(info["prior"]) + np.array(info["exposure"])) if dose_format.endswith(".mdoc") else np.array(info["dose"])
        ok(np.allclose(np.asarray(part["exposure"], dtype=float), exp_dose, rtol=1e-6, atol=1e-6), tag + ": sg exposure")
        for c, val in (("tomo_x", info["dims"][0]), ("tomo_y", info["dims"][1]), ("tomo_z", info["dims"][2]),
                       ("z_shift", info["z_shift"]), ("pixelsize", px), ("voltage", volt), ("amp_contrast", ac), ("cs", cs)):
            ok(bool(np.all(part[c].to_numpy() == val)), tag + ": sg " + c)
    # STOPGAP -> EM gives the same ranges as the EM list (values pass through the star text)
    conv = wedgeutils.wedge_list_sg_to_em(star, os.path.join(root, "conv.em"))
    conv = conv.set_index("tomo_id")
    for j, t in enumerate(ids):
        ok(abs(conv.loc[t, "min_tilt_angle"] - exp_min[j]) < 1e-5 and abs(conv.loc[t, "max_tilt_angle"] - exp_max[j]) < 1e-5,
           tag + ": sg_to_em vs em list")
    return case


def check_beyond_quantifier(root):
    """Function equivalence only: unsorted tilts, NaN, duplicate ids, missing file, too many digits, empty list."""
    os.makedirs(os.path.join(root, "x"))
    fmt = os.path.join(root, "x", "t$xxx.tlt")
    contents = {3: "5\n-7.5\n3\n", 4: "nan\n1\n2\n", 5: "1e3\n-1e-3\n", 6: "12.125\n", 8: "inf\n-inf\n0\n"}
    for t, txt in contents.items():
        with open(os.path.join(root, "x", "t{:03d}.tlt".format(t)), "w") as f:
            f.write(txt)
    with open(os.path.join(root, "x", "t009.tlt"), "w") as f:
        f.write("")
    trials = [np.array([3]), np.array([3, 4, 5, 6, 8]), [6, 6, 3, 6], np.array([4.0, 5.0]), np.array([3, 7]),  # 7: missing file
              np.array([3, 9]), np.array([3, 1234]), np.array([]), [], np.array([[3, 4], [5, 6]][0]), (3, 4), "nofile.txt", None]
    for k, tl in enumerate(trials):
        for with_out in (True, False):
            oa = os.path.join(root, "bq_old.em") if with_out else None
            ob = os.path.join(root, "bq_new.em") if with_out else None
            for p in (oa, ob):
                if p and os.path.exists(p):
                    os.remove(p)
            r = same_outcome(orig_em_batch, wedgeutils.create_wedge_list_em_batch, (tl, fmt), oa, ob, "beyond quantifier {}".format(k))
            if with_out and r[0] == "err":
                ok(os.path.exists(oa) == os.path.exists(ob), "beyond quantifier {}: file presence".format(k))


def main():
    plan = [(1, "tlt"), (1, "rawtlt"), (1, "mdoc"), (5, "tlt"), (5, "mdoc"), (2, "tlt"), (3, "rawtlt"), (4, "tlt")]
    plan += [(rng.randint(1, 5), rng.choice(["tlt", "tlt", "rawtlt", "mdoc"])) for _ in range(22)]
    for idx, (n_tomo, kind) in enumerate(plan):
        with tempfile.TemporaryDirectory() as root:
            check_case(root, idx, n_tomo, kind)
    with tempfile.TemporaryDirectory() as root:
        check_beyond_quantifier(root)
    print("PASS ({} checks)".format(n_checks))


if __name__ == "__main__":
    main()
