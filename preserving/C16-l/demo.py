"""C16 demo: dose filtering applies the Grant-Grigorieff exposure attenuation.

Run as:  cd /tmp/wt7/C16 && /venv/bin/python /tmp/seedsS/C16/<x>/demo.py

Part 1 checks the property against an independent computation (np.fft.fftfreq based, no fftshift, no
centre arithmetic) over many stacks inside the quantifier.
Part 2 compares the functions of the imported (possibly patched) cryocat.tiltstack with a verbatim copy of the
ORIGINAL function text kept below, bit for bit, on the same inputs, including the boundary inputs the
changed idiom is notorious for.
"""
import os
import sys

sys.path.insert(0, os.getcwd())

import contextlib
import io
import tempfile
import warnings

import numpy as np

warnings.filterwarnings("ignore")
np.seterr(all="ignore")

from cryocat import tiltstack, ioutils  # noqa: E402

FOCUS = "b"  # which change this demo accompanies (only affects the extra boundary section)

# --------------------------------------------------------------------------------------------------------------
# verbatim copy of the original functions (docstrings dropped), executed in the module's own globals
# --------------------------------------------------------------------------------------------------------------
ORIGINAL_SOURCE = '''
def dose_filter(tilt_stack, pixel_size, total_dose, output_file=None, input_order="xyz", output_order="xyz"):

    print(f"Dose-filtering started...")

    ts = TiltStack(tilt_stack=tilt_stack, input_order=input_order, output_order=output_order)
    pixel_size = float(pixel_size)
    total_dose = ioutils.total_dose_load(total_dose)

    # Precalculate frequency array
    frequency_array = np.zeros((ts.height, ts.width))
    cen_x = ts.width // 2  # Center for array is half the image size
    cen_y = ts.height // 2  # Center for array is half the image size

    rstep_x = 1 / (ts.width * pixel_size)  # reciprocal pixel size
    rstep_y = 1 / (ts.height * pixel_size)

    # Loop to fill array with frequency values
    for x in range(ts.width):
        for y in range(ts.height):
            d = np.sqrt(((x - cen_x) ** 2 * rstep_x**2) + ((y - cen_y) ** 2 * rstep_y**2))
            frequency_array[y, x] = d

    # Generate filtered stack
    ts.data = np.array(ts.data, copy=True)  # Make ts.data writeable
    for z in range(ts.n_tilts):
        image = ts.data[z, :, :]
        ts.data[z, :, :] = dose_filter_single_image(image, total_dose[z], frequency_array)

    ts.write_out(output_file)

    print(f"...dose-filtering finished.")

    return ts.correct_order()


def dose_filter_single_image(image, dose, freq_array):

    # Hard-coded resolution-dependent critical exposures
    # These parameters come from the fitted numbers in the Grant and Grigorieff paper.
    a = 0.245
    b = -1.665
    c = 2.81

    # Calculate Fourier transform
    ft = np.fft.fftshift(np.fft.fft2(image))

    # Calculate exposure-dependent amplitude attenuator
    q = np.exp((-dose) / (2 * ((a * (freq_array**b)) + c)))

    # Attenuate and inverse transform
    filtered_image = np.fft.ifft2(np.fft.ifftshift(ft * q))

    return filtered_image.real
'''
_orig_ns = dict(vars(tiltstack))
exec(compile(ORIGINAL_SOURCE, "<original tiltstack>", "exec"), _orig_ns)
orig_dose_filter = _orig_ns["dose_filter"]
orig_single = _orig_ns["dose_filter_single_image"]


def quiet(fn, *args, **kwargs):
    with contextlib.redirect_stdout(io.StringIO()):
        return fn(*args, **kwargs)


failures = []
n_checks = 0


def check(cond, msg):
    global n_checks
    n_checks += 1
    if not cond:
        failures.append(msg)
        if len(failures) <= 20:
            print("FAIL:", msg)


# --------------------------------------------------------------------------------------------------------------
# independent model
# --------------------------------------------------------------------------------------------------------------
def attenuation(width, height, pixel_size, dose):
    """q[y, x] in UNSHIFTED DFT layout, from fftfreq only; zero frequency set to exactly 1."""
    fx = np.fft.fftfreq(width, d=pixel_size)  # cycles per Angstrom
    fy = np.fft.fftfreq(height, d=pixel_size)
    f = np.hypot(fx[None, :], fy[:, None])
    q = np.ones((height, width))
    nz = f > 0
    q[nz] = np.exp(-float(dose) / (2.0 * (0.245 * f[nz] ** (-1.665) + 2.81)))
    return q, f


def model(stack_zyx, pixel_size, doses):
    out = np.empty(stack_zyx.shape, dtype=float)
    for i in range(stack_zyx.shape[0]):
        q, _ = attenuation(stack_zyx.shape[2], stack_zyx.shape[1], pixel_size, doses[i])
        out[i] = np.fft.ifft2(np.fft.fft2(stack_zyx[i].astype(float)) * q).real
    return out


def run(stack_zyx, pixel_size, doses, fn=None, order="zyx", **kw):
    """Call dose_filter with the stack handed over in the requested axis order; result comes back as zyx."""
    fn = fn or tiltstack.dose_filter
    if order == "xyz":
        res = quiet(fn, stack_zyx.transpose(2, 1, 0), pixel_size, doses, input_order="xyz", output_order="xyz", **kw)
        return res.transpose(2, 1, 0)
    res = quiet(fn, stack_zyx, pixel_size, doses, input_order="zyx", output_order="zyx", **kw)
    return res


rng = np.random.default_rng(int(os.environ.get("DEMO_SEED", "1616")))


def plane_wave(width, height, kx, ky, phase, amp, offset):
    x = np.arange(width)[None, :]
    y = np.arange(height)[:, None]
    return offset + amp * np.cos(2 * np.pi * (kx * x / width + ky * y / height) + phase)


def random_case(n=None, w=None, h=None, pix=None, doses=None, kind=None):
    n = int(rng.integers(1, 11)) if n is None else n
    w = int(rng.integers(4, 65)) if w is None else w
    h = int(rng.integers(4, 65)) if h is None else h
    pix = float(rng.uniform(0.5, 10.0)) if pix is None else pix
    if doses is None:
        doses = rng.uniform(0.0, 300.0, size=n)
        if rng.random() < 0.3:
            doses[rng.integers(0, n)] = 0.0
        if rng.random() < 0.3:
            doses[rng.integers(0, n)] = 300.0
    kind = kind or rng.choice(["normal", "uniform", "wave", "negative", "constant"])
    if kind == "normal":
        st = rng.normal(0.0, 1.0, size=(n, h, w)) * rng.uniform(0.1, 100) + rng.uniform(-50, 50)
    elif kind == "uniform":
        st = rng.uniform(0, 1, size=(n, h, w))
    elif kind == "negative":
        st = -rng.uniform(0, 1000, size=(n, h, w))
    elif kind == "constant":
        st = np.full((n, h, w), rng.uniform(-5, 5))
    else:
        st = np.stack(
            [
                plane_wave(w, h, int(rng.integers(-(w // 2), w // 2 + 1)), int(rng.integers(-(h // 2), h // 2 + 1)),
                           rng.uniform(0, 2 * np.pi), rng.uniform(0.5, 3), rng.uniform(-2, 2))
                for _ in range(n)
            ]
        )
    return st, pix, np.asarray(doses, dtype=float)


def close(a, b, tol=1e-9):
    scale = max(1.0, float(np.max(np.abs(b))) if b.size else 1.0)
    return a.shape == b.shape and float(np.max(np.abs(a - b))) <= tol * scale if a.size else a.shape == b.shape


# --------------------------------------------------------------------------------------------------------------
# Part 1: the property
# --------------------------------------------------------------------------------------------------------------
def property_checks(st, pix, doses, tag):
    n, h, w = st.shape
    order = "xyz" if rng.random() < 0.5 else "zyx"
    keep = st.copy()
    out = run(st, pix, doses, order=order)
    check(np.array_equal(st, keep), f"{tag}: input stack modified")
    check(out.shape == st.shape, f"{tag}: shape {out.shape} != {st.shape}")
    exp = model(st, pix, doses)
    check(close(out, exp), f"{tag}: differs from model, max {np.max(np.abs(out - exp)):.3e}")
    # spectrum against the input's, frequency by frequency
    for i in range(n):
        q, f = attenuation(w, h, pix, doses[i])
        F_in = np.fft.fft2(st[i])
        F_out = np.fft.fft2(out[i])
        sc = max(1.0, float(np.max(np.abs(F_in))))
        check(np.max(np.abs(F_out - F_in * q)) <= 1e-9 * sc, f"{tag}[{i}]: spectrum != q * input spectrum")
        check(abs(F_out[0, 0] - F_in[0, 0]) <= 1e-9 * sc, f"{tag}[{i}]: zero frequency changed")
        check(abs(out[i].mean() - st[i].mean()) <= 1e-9 * max(1.0, abs(st[i].mean())), f"{tag}[{i}]: mean changed")
        check(np.all(np.abs(F_out) <= np.abs(F_in) + 1e-9 * sc), f"{tag}[{i}]: power increased")
        if doses[i] == 0:
            check(close(out[i], st[i], 1e-12), f"{tag}[{i}]: zero dose is not the identity")
    return out


# random stacks
for t in range(140):
    st, pix, doses = random_case()
    property_checks(st, pix, doses, f"rand{t}")

# edge sizes / pixel sizes / dose patterns
for (w, h) in [(4, 4), (4, 5), (5, 4), (5, 5), (64, 64), (63, 64), (64, 63), (63, 63), (4, 64), (64, 4), (7, 32), (33, 8)]:
    for pix in (0.5, 1.0, 1.327, 10.0):
        for doses in ([0.0], [300.0], [0.0, 0.0, 0.0], [300.0, 0.0, 150.0], [120.0, 3.5, 60.0, 3.5, 0.0]):
            st, p, d = random_case(n=len(doses), w=w, h=h, pix=pix, doses=doses, kind="normal")
            property_checks(st, p, d, f"edge w{w} h{h} p{pix} d{doses}")

# ten images, doses in descending / ascending / shuffled order: pairing image i <-> dose i
for perm in ("asc", "desc", "shuffle"):
    d = np.linspace(0, 300, 10)
    d = d if perm == "asc" else d[::-1].copy() if perm == "desc" else rng.permutation(d)
    st, p, d = random_case(n=10, w=17, h=12, pix=2.17, doses=d, kind="normal")
    property_checks(st, p, d, f"pairing {perm}")

# pure plane waves: amplitude scaled by q(f), offset untouched; every representable wave of a small image
for (w, h, pix) in [(8, 6, 1.7), (7, 9, 3.3), (4, 4, 0.5), (5, 5, 10.0)]:
    for kx in range(-(w // 2), w // 2 + 1):
        for ky in range(-(h // 2), h // 2 + 1):
            dose = float(rng.uniform(0, 300))
            img = plane_wave(w, h, kx, ky, 0.37, 2.0, 1.5)
            out = run(img[None], pix, [dose])[0]
            f = np.hypot(kx / (w * pix), ky / (h * pix))
            q = 1.0 if f == 0 else np.exp(-dose / (2 * (0.245 * f ** (-1.665) + 2.81)))
            # at Nyquist of an even axis cos(pi*x + phase) aliases but is still an eigenvector of the filter
            exp = 1.5 + q * (img - 1.5)
            check(close(out, exp), f"plane wave w{w} h{h} k({kx},{ky}) dose {dose:.2f}")

# consequences: linearity, monotonic in dose, composition, zero dose identity, repeated calls
for t in range(40):
    st1, pix, doses = random_case()
    n, h, w = st1.shape
    st2 = rng.normal(size=st1.shape)
    al, be = rng.uniform(-3, 3, size=2)
    o1 = run(st1, pix, doses)
    o2 = run(st2, pix, doses)
    o12 = run(al * st1 + be * st2, pix, doses)
    check(close(o12, al * o1 + be * o2, 1e-8), f"cons{t}: not linear")
    more = doses + rng.uniform(0, 50, size=n)
    om = run(st1, pix, more)
    check(np.all(np.abs(np.fft.fft2(om)) <= np.abs(np.fft.fft2(o1)) + 1e-8 * max(1, np.abs(np.fft.fft2(st1)).max())),
          f"cons{t}: more dose attenuates less")
    d2 = rng.uniform(0, 300 - doses.max(), size=n) if doses.max() < 300 else np.zeros(n)
    twice = run(run(st1, pix, doses), pix, d2)
    once = run(st1, pix, doses + d2)
    check(close(twice, once, 1e-8), f"cons{t}: d1 then d2 != d1 + d2")
    ident = run(st1, pix, np.zeros(n))
    check(close(ident, st1, 1e-12), f"cons{t}: zero dose not identity")
    again = run(st1, pix, doses)
    check(np.array_equal(again, o1), f"cons{t}: repeated call differs")

# float32 stacks (what an MRC file holds): same property at single precision
for t in range(20):
    st, pix, doses = random_case()
    st32 = st.astype(np.float32)
    out = run(st32, pix, doses)
    check(out.dtype == np.float32, f"f32 {t}: dtype {out.dtype}")
    exp = model(st32.astype(float), pix, doses)
    check(close(out.astype(float), exp, 2e-5), f"f32 {t}: differs from model {np.max(np.abs(out - exp)):.3e}")

# doses given as list / float32 array / text file / csv file / through an output file
with tempfile.TemporaryDirectory() as tmp:
    st, pix, doses = random_case(n=5, w=12, h=9, pix=1.327, doses=[8.95372, 2.23843, 0.0, 6.71529, 300.0], kind="normal")
    exp = model(st, pix, doses)
    check(close(run(st, pix, list(doses)), exp), "dose list")
    check(close(run(st, pix, doses.astype(np.float32)), model(st, pix, doses.astype(np.float32).astype(float))), "dose float32")
    txt = os.path.join(tmp, "dose.txt")
    np.savetxt(txt, doses, fmt="%.6f")
    check(close(run(st, pix, txt), model(st, pix, np.loadtxt(txt).astype(np.float32).astype(float)), 1e-7), "dose txt")
    import pandas as pd

    csvf = os.path.join(tmp, "dose.csv")
    pd.DataFrame({"CorrectedDose": doses, "Removed": [False] * 5}).to_csv(csvf)
    check(close(run(st, pix, csvf), model(st, pix, doses.astype(np.float32).astype(float)), 1e-7), "dose csv")
    mrc = os.path.join(tmp, "out.mrc")
    st32 = st.astype(np.float32)
    res = run(st32, pix, doses, output_file=mrc)
    from cryocat import cryomap

    back = cryomap.read(mrc, transpose=False)
    check(np.array_equal(back, res), "written file != returned stack")
    res_o = run(st32, pix, doses, fn=orig_dose_filter, output_file=mrc)
    check(np.array_equal(cryomap.read(mrc, transpose=False), res_o) and np.array_equal(res, res_o), "written file orig")


# --------------------------------------------------------------------------------------------------------------
# Part 2: imported functions against the original text, bit for bit
# --------------------------------------------------------------------------------------------------------------
def same_bits(a, b):
    return a.shape == b.shape and a.dtype == b.dtype and np.array_equal(a, b, equal_nan=True)


for t in range(120):
    st, pix, doses = random_case()
    order = "xyz" if t % 2 else "zyx"
    if t % 5 == 0:
        st = st.astype(np.float32)
    a = run(st, pix, doses, order=order)
    b = run(st, pix, doses, fn=orig_dose_filter, order=order)
    check(same_bits(a, b), f"orig-vs-new stack {t}: max diff {np.max(np.abs(a.astype(float) - b.astype(float))):.3e}")

for (w, h) in [(4, 4), (4, 5), (5, 4), (5, 5), (64, 64), (63, 64), (64, 63), (63, 63), (4, 64), (64, 4)]:
    for pix in (0.5, 1, 1.327, 10.0, 10):
        for doses in ([0.0], [0], [300.0], [300], [0.0, 0.0], [300.0, 0.0, 150.0], [1e-300, 5e-324, 300.0]):
            st = rng.normal(size=(len(doses), h, w))
            for dd in (doses, np.asarray(doses), np.asarray(doses, dtype=np.float32)):
                a = run(st, pix, dd)
                b = run(st, pix, dd, fn=orig_dose_filter)
                check(same_bits(a, b), f"orig-vs-new edge w{w} h{h} p{pix} d{doses}")

# the single-image function on its own: shifted frequency arrays as dose_filter builds them, and the unshifted
# fftfreq array the repository's own test passes in (zero frequency in the corner)
for t in range(80):
    w, h = int(rng.integers(4, 65)), int(rng.integers(4, 65))
    pix = float(rng.uniform(0.5, 10))
    img = rng.normal(size=(h, w))
    fx = (np.arange(w) - w // 2) / (w * pix)
    fy = (np.arange(h) - h // 2) / (h * pix)
    fr_shift = np.sqrt(fx[None, :] ** 2 + fy[:, None] ** 2)
    fr_corner = np.sqrt(np.fft.fftfreq(w, d=pix)[None, :] ** 2 + np.fft.fftfreq(h, d=pix)[:, None] ** 2)
    for fr in (fr_shift, fr_corner):
        for dose in (0.0, 0, 5.0, float(rng.uniform(0, 300)), 300.0, np.float32(7.25), np.float64(0.0), 300):
            a = tiltstack.dose_filter_single_image(img, dose, fr)
            b = orig_single(img, dose, fr)
            check(same_bits(a, b), f"orig-vs-new single {t} dose {dose!r}")
    # the arguments are left alone
    fr_keep, img_keep = fr_shift.copy(), img.copy()
    tiltstack.dose_filter_single_image(img, 12.5, fr_shift)
    check(np.array_equal(fr_keep, fr_shift) and np.array_equal(img_keep, img), f"single {t}: argument modified")

# --------------------------------------------------------------------------------------------------------------
# Part 3: boundary inputs of the changed idiom
# --------------------------------------------------------------------------------------------------------------
if FOCUS == "a":
    # zero frequency spelled out: the value there must be exactly 1.0 (not 1 - eps), for every dose, also when
    # several / no samples of the frequency array are zero, and the other samples must be untouched
    for dose in (0.0, 0, 1e-300, 1.0, 299.999, 300.0, 300):
        for fr in (
            np.zeros((4, 4)),
            np.full((5, 4), 0.25),
            np.array([[0.0, 1e-300, 5e-324, 1e-8], [0.01, 0.1, 0.5, 1.0], [2.0, 0.0, 1.0, 0.0]]),
        ):
            img = rng.normal(size=fr.shape)
            a = tiltstack.dose_filter_single_image(img, dose, fr)
            b = orig_single(img, dose, fr)
            check(same_bits(a, b), f"zero-frequency boundary dose {dose!r} fr {fr.shape}")
    # image mean is kept to the last bit the original kept it
    for t in range(30):
        st, pix, doses = random_case()
        a = run(st, pix, doses)
        b = run(st, pix, doses, fn=orig_dose_filter)
        check(np.array_equal(a.mean(axis=(1, 2)), b.mean(axis=(1, 2))), f"mean bits {t}")

if FOCUS == "b":
    # frequency array handed to the single-image filter: capture it from the imported dose_filter and from the
    # original text, for EVERY width x height in 4..64 (odd / even centre, first / last row and column), bit for bit
    captured = {"new": [], "old": []}

    def spy(key):
        def _spy(image, dose, freq_array):
            captured[key].append(np.array(freq_array, copy=True))
            return orig_single(image, dose, freq_array)

        return _spy

    saved_new = tiltstack.dose_filter_single_image
    tiltstack.dose_filter_single_image = spy("new")
    _orig_ns["dose_filter_single_image"] = spy("old")
    try:
        pixes = [0.5, 1.0, 1.327, 3.0, 7.77, 10.0]
        k = 0
        for w in range(4, 65):
            for h in range(4, 65):
                pix = pixes[k % len(pixes)] if k % 7 else float(rng.uniform(0.5, 10))
                k += 1
                st = rng.normal(size=(1, h, w))
                captured["new"].clear()
                captured["old"].clear()
                run(st, pix, [10.0])
                run(st, pix, [10.0], fn=orig_dose_filter)
                fn_, fo_ = captured["new"][0], captured["old"][0]
                check(len(captured["new"]) == 1 and len(captured["old"]) == 1, f"freq w{w} h{h}: call count")
                check(same_bits(fn_, fo_), f"freq w{w} h{h} p{pix}: frequency array differs from original")
                ref = np.fft.fftshift(np.hypot(np.fft.fftfreq(w, d=pix)[None, :], np.fft.fftfreq(h, d=pix)[:, None]))
                check(fn_.shape == (h, w) and np.allclose(fn_, ref, rtol=1e-13, atol=0), f"freq w{w} h{h}: != fftfreq")
                check(fn_[h // 2, w // 2] == 0 and np.count_nonzero(fn_ == 0) == 1, f"freq w{w} h{h}: zero sample")
        # per-tilt loop: number of calls, order of the calls, and the image each dose is paired with
        for n in (1, 2, 3, 10):
            for dt in (np.float64, np.float32, np.int16):
                st = (rng.normal(size=(n, 6, 5)) * 100).astype(dt)
                doses = rng.permutation(np.linspace(0, 300, n))
                captured["new"].clear()
                captured["old"].clear()
                a = run(st, 2.0, doses)
                b = run(st, 2.0, doses, fn=orig_dose_filter)
                check(len(captured["new"]) == n and len(captured["old"]) == n, f"tilt loop n{n}: call count")
                check(same_bits(a, b), f"tilt loop n{n} {dt.__name__}: stack differs from original")
    finally:
        tiltstack.dose_filter_single_image = saved_new
        _orig_ns["dose_filter_single_image"] = orig_single
    # stack of identical images with different doses / identical doses: nothing leaks from image z to z + 1
    img = rng.normal(size=(9, 8))
    st = np.repeat(img[None], 6, axis=0)
    doses = np.array([300.0, 0.0, 150.0, 0.0, 300.0, 7.0])
    out = run(st, 1.5, doses)
    check(close(out, model(st, 1.5, doses)), "identical images: differs from model")
    check(np.array_equal(out[0], out[4]) and np.array_equal(out[1], out[3]), "identical images: same dose, other result")
    check(same_bits(out, run(st, 1.5, doses, fn=orig_dose_filter)), "identical images: differs from original")
    # more doses than images are ignored, fewer fail with IndexError: as before
    st = rng.normal(size=(3, 6, 7))
    a = run(st, 1.5, [1.0, 2.0, 3.0, 4.0, 5.0])
    check(same_bits(a, run(st, 1.5, [1.0, 2.0, 3.0, 4.0, 5.0], fn=orig_dose_filter)), "surplus doses")
    for fn in (tiltstack.dose_filter, orig_dose_filter):
        try:
            run(st, 1.5, [1.0, 2.0], fn=fn)
            check(False, "too few doses accepted")
        except IndexError:
            check(True, "")

if FOCUS == "c":
    # the fit parameters, wherever they live now, are the published ones and are not modified by use
    def attenuation_of(fn, f, dose):
        """q at a single frequency, measured through the function itself: filter a 1x1 'image' of value 1."""
        return float(fn(np.ones((1, 1)), dose, np.array([[f]]))[0, 0])

    for f in (1e-3, 0.01, 0.05, 0.1, 0.25, 0.5, 1.0, 2.0):
        for dose in (0.0, 1.0, 20.0, 300.0):
            qn = attenuation_of(tiltstack.dose_filter_single_image, f, dose)
            qo = attenuation_of(orig_single, f, dose)
            qi = float(np.exp(-dose / (2 * (0.245 * f ** (-1.665) + 2.81))))
            check(qn == qo, f"fit f{f} d{dose}: new {qn!r} != original {qo!r}")
            check(abs(qn - qi) <= 1e-15, f"fit f{f} d{dose}: {qn!r} != formula {qi!r}")
    # repeated calls on the same objects, interleaved with other sizes / doses: no state is carried along
    st, pix, doses = random_case(n=4, w=11, h=14, kind="normal")
    first = run(st, pix, doses)
    for t in range(10):
        st2, pix2, doses2 = random_case()
        run(st2, pix2, doses2)
        check(np.array_equal(run(st, pix, doses), first), f"repeat {t}: result drifted")
    check(same_bits(first, run(st, pix, doses, fn=orig_dose_filter)), "repeat: differs from original")
    table = getattr(tiltstack, "CRITICAL_EXPOSURE_FIT", None)
    if table is not None:  # only with the patch: content equals the former literals, untouched after all the calls
        check(table == {"a": 0.245, "b": -1.665, "c": 2.81} and list(table) == ["a", "b", "c"], f"fit table {table}")
        check(tuple(tiltstack.CRITICAL_EXPOSURE_FIT_ORDER) == ("a", "b", "c"), "fit table order")

print(f"{n_checks} checks, {len(failures)} failures")
if failures:
    print("FAIL")
    sys.exit(1)
print("PASS")
