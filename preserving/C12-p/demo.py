"""C12-c: the three Fourier filters take their gain from one private helper that returns it in DFT layout (shift done
once, in the helper); highpass complements after the shift, bandpass subtracts after the shift and writes its control file
band.em through the inverse shift.  Checks the filter property against a hand-written model and compares results,
messages, errors and written files (band.em included) with the original function texts.
Run: cd /tmp/wt7/C12 && /venv/bin/python /tmp/seedsT/C12/c/demo.py"""
import sys, os, warnings
ROOT = os.getcwd()
sys.path.insert(0, ROOT)
warnings.filterwarnings("ignore")
import io, contextlib, tempfile, time
import numpy as np

os.chdir(tempfile.mkdtemp(prefix="c12demo_"))  # bandpass drops a band.em into the current directory
from cryocat import cryomap, cryomask

assert os.path.abspath(cryomap.__file__).startswith(ROOT), cryomap.__file__

# ----------------------------------------------------------------------------------------------------------------------
# The original text of the changed functions (cryocat/cryomap.py at HEAD, docstrings and dead comments dropped)
# ----------------------------------------------------------------------------------------------------------------------
ORIG_FILTERS = '''
def get_filter_radius(edge_size, fourier_pixels, target_resolution, pixel_size):
    if fourier_pixels is not None:
        radius = fourier_pixels
        if pixel_size is not None:
            _ = pixels2resolution(fourier_pixels=fourier_pixels, edge_size=edge_size, pixel_size=pixel_size)
    elif target_resolution is not None and pixel_size is not None:
        radius = resolution2pixels(target_resolution, edge_size=edge_size, pixel_size=pixel_size)
    else:
        raise ValueError(
            "Either target_voxels or target_resolution in combination with pixel_size have to be specified!"
        )

    return radius


def bandpass(
    input_map,
    lp_fourier_pixels=None,
    lp_target_resolution=None,
    hp_fourier_pixels=None,
    hp_target_resolution=None,
    pixel_size=None,
    lp_gaussian=3,
    hp_gaussian=2,
    output_name=None,
):
    input_map = read(input_map)
    lp_radius = get_filter_radius(
        input_map.shape[0],
        fourier_pixels=lp_fourier_pixels,
        target_resolution=lp_target_resolution,
        pixel_size=pixel_size,
    )

    hp_radius = get_filter_radius(
        input_map.shape[0],
        fourier_pixels=hp_fourier_pixels,
        target_resolution=hp_target_resolution,
        pixel_size=pixel_size,
    )
    outer_mask = cryomask.spherical_mask(input_map.shape, lp_radius, gaussian=lp_gaussian, gaussian_outwards=False)
    inner_mask = cryomask.spherical_mask(input_map.shape, hp_radius, gaussian=hp_gaussian, gaussian_outwards=False)
    band_mask = fft.ifftshift(outer_mask - inner_mask)
    write(outer_mask - inner_mask, "band.em", data_type=np.single)
    bandpass_filtered = np.real(fft.ifftn(fft.fftn(input_map) * band_mask))

    if output_name is not None:
        write(bandpass_filtered, output_name, data_type=np.single)

    return bandpass_filtered


def lowpass(input_map, fourier_pixels=None, target_resolution=None, pixel_size=None, gaussian=3, output_name=None):
    input_map = read(input_map)
    radius = get_filter_radius(
        input_map.shape[0], fourier_pixels=fourier_pixels, target_resolution=target_resolution, pixel_size=pixel_size
    )

    lowpass_filter = fft.ifftshift(
        cryomask.spherical_mask(input_map.shape, radius, gaussian=gaussian, gaussian_outwards=False)
    )
    # Apply filter
    filtered_map = np.real(fft.ifftn(fft.fftn(input_map) * lowpass_filter))

    if output_name is not None:
        write(filtered_map, output_name, data_type=np.single)

    return filtered_map


def highpass(input_map, fourier_pixels=None, target_resolution=None, pixel_size=None, gaussian=2, output_name=None):
    input_map = read(input_map)
    radius = get_filter_radius(
        input_map.shape[0], fourier_pixels=fourier_pixels, target_resolution=target_resolution, pixel_size=pixel_size
    )

    highpass_filter = fft.ifftshift(
        np.ones(input_map.shape)
        - cryomask.spherical_mask(input_map.shape, radius, gaussian=gaussian, gaussian_outwards=False)
    )

    # Apply filter
    filtered_map = np.real(fft.ifftn(fft.fftn(input_map) * highpass_filter))

    if output_name is not None:
        write(filtered_map, output_name, data_type=np.single)

    return filtered_map
'''
_ns = dict(vars(cryomap))
exec(ORIG_FILTERS, _ns)  # the four originals call each other, everything else is the imported module's
ORIG = {k: _ns[k] for k in ("get_filter_radius", "bandpass", "lowpass", "highpass")}

# ----------------------------------------------------------------------------------------------------------------------
# Independent model of the documented transfer function (nothing from cryocat is used here)
# ----------------------------------------------------------------------------------------------------------------------
def int_freq(n):
    """integer frequency of every DFT index of an axis of length n: 0, 1, ..., -2, -1 (even n: -n/2 is the Nyquist one)"""
    k = np.arange(n)
    k[k >= (n + 1) // 2] -= n
    return k


def freq_radius2(shape):
    kx, ky, kz = np.meshgrid(*[int_freq(n) for n in shape], indexing="ij")
    return kx * kx + ky * ky + kz * kz  # exact integers


def blur_nearest(vol, sigma):
    """separable Gaussian, truncated at 4 sigma, edge value repeated -- written out by hand"""
    lw = int(4.0 * sigma + 0.5)
    j = np.arange(-lw, lw + 1)
    w = np.exp(-0.5 * j * j / (sigma * sigma))
    w /= w.sum()
    g = vol.astype(float)
    for ax in range(3):
        pad = [(lw, lw) if a == ax else (0, 0) for a in range(3)]
        p = np.pad(g, pad, mode="edge")
        out = np.zeros_like(g)
        n = g.shape[ax]
        for t, wt in enumerate(w):
            sl = [slice(None)] * 3
            sl[ax] = slice(t, t + n)
            out += wt * p[tuple(sl)]
        g = out
    return g


def ref_lowpass_gain(shape, cutoff, sigma):
    """gain per DFT index (unshifted layout): 1 for integer radius <= cutoff, 0 beyond; soft edge = blur of the centred
    indicator, centred on the cutoff"""
    r2 = freq_radius2(shape)
    g = (r2 <= cutoff * cutoff).astype(float)
    if sigma != 0:
        g = np.fft.ifftshift(blur_nearest(np.fft.fftshift(g), sigma))
    return g


def hermitian_part(g):
    """the filters return the real part, so for a real map the effective gain of +k and -k is their mean"""
    rev = g
    for ax in range(3):
        rev = np.roll(np.flip(rev, axis=ax), 1, axis=ax)
    return 0.5 * (g + rev)


def ref_apply(x, gain):
    return np.real(np.fft.ifftn(np.fft.fftn(x) * gain))


def plane_wave(shape, k, phase=0.0):
    grids = np.meshgrid(*[np.arange(n) for n in shape], indexing="ij")
    arg = sum(2.0 * np.pi * ki * gi / n for ki, gi, n in zip(k, grids, shape))
    return np.cos(arg + phase)


FAILS = []


def expect(cond, msg):
    if not cond:
        FAILS.append(msg)
        if len(FAILS) <= 25:
            print("FAIL:", msg)


def close(a, b, tol):
    a = np.asarray(a)
    b = np.asarray(b)
    if a.shape != b.shape:
        return False
    scale = max(1.0, float(np.abs(b).max()) if b.size else 1.0)
    return bool(np.abs(a - b).max() <= tol * scale) if a.size else True


def quiet(fn, *a, **kw):
    buf = io.StringIO()
    with contextlib.redirect_stdout(buf):
        out = fn(*a, **kw)
    return out, buf.getvalue()


# ----------------------------------------------------------------------------------------------------------------------
# The property, checked on the functions of the imported (clean or patched) tree
# ----------------------------------------------------------------------------------------------------------------------
def check_property(cm, rng):
    shapes = [(8, 8, 8), (9, 9, 9), (12, 10, 14), (15, 20, 11), (16, 16, 16), (21, 21, 21), (24, 18, 30), (32, 32, 32), (48, 48, 48)]
    n_cases = 0
    for shape in shapes:
        n0 = shape[0]
        big = n0 >= 32
        cutoffs = list(range(1, n0 // 2 + 1)) if not big else sorted({1, 2, 5, n0 // 4, n0 // 2 - 1, n0 // 2})
        sigmas = [0, 1, 2, 3, 4, 0.5, 1.5] if not big else [0, 2, 3]
        r2 = freq_radius2(shape)
        rho = np.sqrt(r2)
        x = rng.normal(size=shape)
        x2 = rng.normal(size=shape)
        for c in cutoffs:
            for s in sigmas:
                n_cases += 1
                tag = f"shape={shape} cutoff={c} sigma={s}"
                g = ref_lowpass_gain(shape, c, s)
                ge = hermitian_part(g)
                x_before = x.copy()
                lp, _ = quiet(cm.lowpass, x, fourier_pixels=c, gaussian=s)
                expect(np.array_equal(x, x_before), f"{tag}: lowpass modified its input")
                expect(isinstance(lp, np.ndarray) and lp.shape == shape and lp.dtype.kind == "f", f"{tag}: lowpass not a real array of the input shape")
                expect(close(lp, ref_apply(x, g), 1e-10), f"{tag}: lowpass differs from the documented gain")
                # gain range and plateau / stop band
                expect(ge.min() >= -1e-12 and ge.max() <= 1 + 1e-12, f"{tag}: gain outside [0,1]")
                if s == 0:
                    expect(np.array_equal(g, (r2 <= c * c).astype(float)), f"{tag}: sharp gain")
                else:
                    inner = ge[rho < c - 4 * s - 1]
                    outer = ge[rho > c + 4 * s + 1]
                    expect(inner.size == 0 or np.abs(inner - 1).max() < 1e-4, f"{tag}: gain not 1 inside")
                    expect(outer.size == 0 or np.abs(outer).max() < 1e-4, f"{tag}: gain not 0 outside")
                # the measured gain: response to a unit impulse
                d = np.zeros(shape)
                d[0, 0, 0] = 1.0
                imp, _ = quiet(cm.lowpass, d, fourier_pixels=c, gaussian=s)
                hm = np.fft.fftn(imp)
                expect(close(hm.real, ge, 1e-10) and np.abs(hm.imag).max() < 1e-10, f"{tag}: measured gain differs")
                if s > 0 and c + 4 * s + 1 < min(shape) // 2:
                    # away from the box border the soft edge falls monotonically along every axis
                    for ax in range(3):
                        idx = [0, 0, 0]
                        prof = []
                        for k in range(0, shape[ax] // 2):
                            idx[ax] = k
                            prof.append(hm.real[tuple(idx)])
                        expect(np.all(np.diff(prof) <= 1e-9), f"{tag}: gain not non-increasing along axis {ax}")
                # complement
                hp, _ = quiet(cm.highpass, x, fourier_pixels=c, gaussian=s)
                expect(hp.shape == shape and hp.dtype.kind == "f", f"{tag}: highpass type")
                expect(close(hp, ref_apply(x, 1.0 - g), 1e-10), f"{tag}: highpass differs from 1 - lowpass gain")
                expect(close(hp + lp, x, 1e-10), f"{tag}: highpass + lowpass != identity")
                # repeated call on the same object
                lp_again, _ = quiet(cm.lowpass, x, fourier_pixels=c, gaussian=s)
                expect(np.array_equal(lp, lp_again), f"{tag}: second call differs")
                if (c + int(2 * s)) % 3 == 0 or c == n0 // 2:
                    # linearity and circular shifts
                    a, b = rng.normal(size=2)
                    l2, _ = quiet(cm.lowpass, x2, fourier_pixels=c, gaussian=s)
                    lc, _ = quiet(cm.lowpass, a * x + b * x2, fourier_pixels=c, gaussian=s)
                    expect(close(lc, a * lp + b * l2, 1e-10), f"{tag}: lowpass not linear")
                    sh = tuple(int(v) for v in rng.integers(-n0, n0, size=3))
                    ls, _ = quiet(cm.lowpass, np.roll(x, sh, axis=(0, 1, 2)), fourier_pixels=c, gaussian=s)
                    expect(close(ls, np.roll(lp, sh, axis=(0, 1, 2)), 1e-10), f"{tag}: lowpass does not commute with shift {sh}")
                    hs, _ = quiet(cm.highpass, np.roll(x, sh, axis=(0, 1, 2)), fourier_pixels=c, gaussian=s)
                    expect(close(hs, np.roll(hp, sh, axis=(0, 1, 2)), 1e-10), f"{tag}: highpass does not commute with shift {sh}")
                    # other element types
                    xi = rng.integers(-50, 50, size=shape)
                    li, _ = quiet(cm.lowpass, xi, fourier_pixels=c, gaussian=s)
                    expect(li.dtype.kind == "f" and close(li, ref_apply(xi, g), 1e-10), f"{tag}: integer map")
                    hi, _ = quiet(cm.highpass, xi, fourier_pixels=c, gaussian=s)
                    expect(close(hi + li, xi, 1e-10), f"{tag}: integer map complement")
                    xf = x.astype(np.float32)
                    lf, _ = quiet(cm.lowpass, xf, fourier_pixels=c, gaussian=s)
                    expect(lf.dtype.kind == "f" and close(lf, ref_apply(x, g), 1e-5), f"{tag}: float32 map")
                    # numpy integer as cutoff
                    ln, _ = quiet(cm.lowpass, x, fourier_pixels=np.int64(c), gaussian=s)
                    expect(np.array_equal(ln, lp), f"{tag}: numpy integer cutoff")
        # plane waves
        if n0 <= 12:
            ks = [(a, b, c_) for a in int_freq(shape[0]) for b in int_freq(shape[1]) for c_ in int_freq(shape[2])]
            pw_params = [(1, 0), (2, 0), (n0 // 2, 0), (3, 1), (n0 // 2, 2)]
        else:
            ks = [tuple(int(rng.choice(int_freq(n))) for n in shape) for _ in range(12)]
            ks += [(3, 4, 0), (0, -3, 4), (5, 0, 0), (0, 5, 0), (0, 0, -5), (4, 4, 2), (6, 0, 0), (1, 2, 2), (0, 0, 0)]
            ks = [k for k in ks if all(-(n // 2) <= ki <= (n - 1) // 2 for ki, n in zip(k, shape))]
            pw_params = [(5, 0), (6, 0), (3, 0), (5, 2), (min(n0 // 2, 9), 1)]
        for c, s in pw_params:
            g = hermitian_part(ref_lowpass_gain(shape, c, s))
            for k in ks:
                k = tuple(int(v) for v in k)
                w = plane_wave(shape, k, phase=0.3)
                out, _ = quiet(cm.lowpass, w, fourier_pixels=c, gaussian=s)
                gain = g[k[0] % shape[0], k[1] % shape[1], k[2] % shape[2]]
                if s == 0:
                    gain_doc = 1.0 if k[0] ** 2 + k[1] ** 2 + k[2] ** 2 <= c * c else 0.0
                    expect(gain == gain_doc, f"shape={shape} k={k}: model gain")
                expect(close(out, gain * w, 1e-10), f"shape={shape} cutoff={c} sigma={s}: plane wave {k} not scaled by {gain}")
                outh, _ = quiet(cm.highpass, w, fourier_pixels=c, gaussian=s)
                expect(close(outh, (1.0 - gain) * w, 1e-10), f"shape={shape} cutoff={c} sigma={s}: plane wave {k} highpass")
        # band-pass = difference of its two low-passes (defaults of the soft edges: 3 and 2)
        for _ in range(6 if not big else 3):
            c_lp = int(rng.integers(1, n0 // 2 + 1))
            c_hp = int(rng.integers(1, n0 // 2 + 1))
            s_lp = [0, 1, 2, 3, 4, 1.5][int(rng.integers(0, 6))]
            s_hp = [0, 1, 2, 3, 4, 0.5][int(rng.integers(0, 6))]
            bp, _ = quiet(cm.bandpass, x, lp_fourier_pixels=c_lp, hp_fourier_pixels=c_hp, lp_gaussian=s_lp, hp_gaussian=s_hp)
            l1, _ = quiet(cm.lowpass, x, fourier_pixels=c_lp, gaussian=s_lp)
            l2, _ = quiet(cm.lowpass, x, fourier_pixels=c_hp, gaussian=s_hp)
            tag = f"shape={shape} bandpass lp=({c_lp},{s_lp}) hp=({c_hp},{s_hp})"
            expect(bp.shape == shape and bp.dtype.kind == "f", f"{tag}: type")
            expect(close(bp, l1 - l2, 1e-10), f"{tag}: not the difference of the two low-passes")
            expect(close(bp, ref_apply(x, ref_lowpass_gain(shape, c_lp, s_lp) - ref_lowpass_gain(shape, c_hp, s_hp)), 1e-10), f"{tag}: model")
        bpd, _ = quiet(cm.bandpass, x, lp_fourier_pixels=n0 // 2, hp_fourier_pixels=1)
        expect(close(bpd, ref_apply(x, ref_lowpass_gain(shape, n0 // 2, 3) - ref_lowpass_gain(shape, 1, 2)), 1e-10), f"shape={shape}: bandpass default edges")
        lpd, _ = quiet(cm.lowpass, x, fourier_pixels=n0 // 4)
        expect(close(lpd, ref_apply(x, ref_lowpass_gain(shape, n0 // 4, 3)), 1e-10), f"shape={shape}: lowpass default edge")
        hpd, _ = quiet(cm.highpass, x, fourier_pixels=n0 // 4)
        expect(close(hpd, ref_apply(x, 1 - ref_lowpass_gain(shape, n0 // 4, 2)), 1e-10), f"shape={shape}: highpass default edge")
        # resolution + pixel size -> round(box * pixel_size / resolution) Fourier pixels (box = first axis)
        for t in range(8 if not big else 3):
            ps = float(rng.choice([1.0, 0.5, 1.35, 2.74, 7.89]))
            target = float(rng.uniform(1, n0 // 2 + 0.49)) if t % 2 else float(rng.integers(1, n0 // 2 + 1)) + 0.5 * (t % 4 == 2)
            res = n0 * ps / target
            r = round(n0 * ps / res)
            if r < 1:
                continue
            s = [0, 1, 2][t % 3]
            tag = f"shape={shape} resolution={res} pixel_size={ps} -> {r}"
            got, txt = quiet(cm.lowpass, x, target_resolution=res, pixel_size=ps, gaussian=s)
            expect(close(got, ref_apply(x, ref_lowpass_gain(shape, r, s)), 1e-10), f"{tag}: lowpass by resolution")
            expect(txt == f"The target resolution corresponds to {r} pixels.\n", f"{tag}: message {txt!r}")
            goth, _ = quiet(cm.highpass, x, target_resolution=res, pixel_size=ps, gaussian=s)
            expect(close(goth + got, x, 1e-10), f"{tag}: highpass by resolution")
            expect(cm.resolution2pixels(res, n0, ps, print_out=False) == r, f"{tag}: resolution2pixels")
            rr, txt = quiet(cm.get_filter_radius, n0, None, res, ps)
            expect(rr == r and isinstance(rr, int), f"{tag}: get_filter_radius")
            gotb, _ = quiet(cm.bandpass, x, lp_target_resolution=res, hp_fourier_pixels=1, pixel_size=ps, lp_gaussian=s, hp_gaussian=0)
            expect(close(gotb, ref_apply(x, ref_lowpass_gain(shape, r, s) - ref_lowpass_gain(shape, 1, 0)), 1e-10), f"{tag}: bandpass by resolution")
            gotp, txt = quiet(cm.lowpass, x, fourier_pixels=r, pixel_size=ps, gaussian=s)
            expect(close(gotp, got, 0) and txt == f"The target resolution is {n0 * ps / r} Angstroms.\n", f"{tag}: pixels + pixel size")
        try:
            quiet(cm.lowpass, x)
            expect(False, "no cutoff given: no error")
        except ValueError:
            pass
    return n_cases


import inspect


def same(a, b):
    return type(a) is type(b) and a.dtype == b.dtype and a.shape == b.shape and np.array_equal(a, b)


def outcome(fn, *a, **kw):
    buf = io.StringIO()
    try:
        with contextlib.redirect_stdout(buf):
            out = fn(*a, **kw)
        return "ok", out, buf.getvalue()
    except Exception as e:
        return type(e).__name__ + ": " + str(e), None, buf.getvalue()


def compare_one(name, args, kw, note=""):
    so, o, to = outcome(ORIG[name], *args, **kw)
    sn, m, tn = outcome(getattr(cryomap, name), *args, **kw)
    tag = f"{name} args={[a if not isinstance(a, np.ndarray) else a.shape for a in args]} {kw} {note}"
    expect(so == sn, f"{tag}: outcome {so!r} vs {sn!r}")
    expect(to == tn, f"{tag}: printed {to!r} vs {tn!r}")
    if so == "ok" and sn == "ok":
        if isinstance(o, np.ndarray):
            expect(same(o, m), f"{tag}: result differs from the original")
        else:
            expect(type(o) is type(m) and o == m, f"{tag}: {o!r} vs {m!r}")
    return o, to


def compare_with_original(rng):
    n = 0
    has_option = {k: "print_out" in inspect.signature(getattr(cryomap, k)).parameters for k in ORIG}
    # old positional order of every signature is untouched
    for k, f in ORIG.items():
        old = list(inspect.signature(f).parameters.items())
        new = list(inspect.signature(getattr(cryomap, k)).parameters.items())[: len(old)]
        expect([(a, p.default) for a, p in old] == [(a, p.default) for a, p in new], f"{k}: leading parameters / defaults changed")
    # get_filter_radius, called positionally as the test-suite does, and by keyword
    for edge in [1, 8, 9, 16, 21, 48, 100, 200, 16.0, np.int64(24)]:
        for fp in [None, 0, 1, 3, edge // 2, np.int64(5), 2.5]:
            for res in [None, 2.0, 3.7, 20, edge * 1.5 / 2.5, 1e9]:
                for ps in [None, 1.0, 1.5, 7.89, 0]:
                    compare_one("get_filter_radius", (edge, fp, res, ps), {})
                    compare_one("get_filter_radius", (edge,), dict(fourier_pixels=fp, target_resolution=res, pixel_size=ps))
                    n += 2
                    if has_option["get_filter_radius"]:
                        so, oo, to = outcome(ORIG["get_filter_radius"], edge, fp, res, ps)
                        sn, m, tn = outcome(cryomap.get_filter_radius, edge, fp, res, ps, True)
                        expect(so == sn and to == tn and (so != "ok" or (type(oo) is type(m) and oo == m)), f"get_filter_radius({edge},{fp},{res},{ps},True): {so!r}/{sn!r} {oo!r}/{m!r}")
                        sn, m, tn = outcome(cryomap.get_filter_radius, edge, fp, res, ps, print_out=False)
                        expect(so == sn and tn == "" and (so != "ok" or (type(oo) is type(m) and oo == m)), f"get_filter_radius({edge},{fp},{res},{ps}) silent: {so!r}/{sn!r} {oo!r}/{m!r} printed {tn!r}")
    # the three filters
    for shape in [(8, 8, 8), (9, 9, 9), (12, 10, 14), (15, 20, 11), (16, 16, 16), (21, 21, 21), (24, 18, 30), (32, 32, 32), (48, 48, 48)]:
        x = rng.normal(size=shape)
        xs = [x, rng.integers(-9, 9, size=shape), x.astype(np.float32)]
        n0 = shape[0]
        for c in range(1, n0 // 2 + 1, 1 if n0 < 24 else 5):
            for s in [0, 1, 2, 3, 4, 0.5]:
                xi = xs[(c + int(s)) % 3]
                res = n0 * 1.35 / (c + 0.25)
                calls = [
                    ("lowpass", (xi,), dict(fourier_pixels=c, gaussian=s)),
                    ("lowpass", (xi, c, None, None, s), {}),
                    ("lowpass", (xi, c, None, 2.74, s, None), {}),
                    ("lowpass", (xi,), dict(target_resolution=res, pixel_size=1.35, gaussian=s)),
                    ("lowpass", (xi, None, res, 1.35), {}),
                    ("highpass", (xi,), dict(fourier_pixels=c, gaussian=s)),
                    ("highpass", (xi, c, None, 7.89, s, None), {}),
                    ("highpass", (xi,), dict(target_resolution=res, pixel_size=1.35, gaussian=s)),
                    ("highpass", (xi, c), {}),
                    ("bandpass", (xi,), dict(lp_fourier_pixels=c, hp_fourier_pixels=max(1, c // 2), lp_gaussian=s, hp_gaussian=s / 2)),
                    ("bandpass", (xi, c, None, 1, None, 1.35, s, 0, None), {}),
                    ("bandpass", (xi,), dict(lp_target_resolution=res, hp_target_resolution=4 * res, pixel_size=1.35)),
                    ("bandpass", (xi, None, res, 1, None, 1.35), {}),
                    ("lowpass", (xi,), dict(target_resolution=res, gaussian=s)),  # no pixel size: ValueError in both
                    ("bandpass", (xi,), dict(lp_fourier_pixels=c)),  # no high-pass cutoff: ValueError in both
                ]
                for name, args, kw in calls:
                    o, to = compare_one(name, args, kw)
                    n += 1
                    if has_option[name] and o is not None:
                        sn, m, tn = outcome(getattr(cryomap, name), *args, print_out=False, **kw)
                        expect(sn == "ok" and same(o, m) and tn == "", f"{name} {kw} print_out=False: result changed or something printed ({tn!r})")
                        sn, m, tn = outcome(getattr(cryomap, name), *args, print_out=True, **kw)
                        expect(sn == "ok" and same(o, m) and tn == to, f"{name} {kw} print_out=True: differs from default")
        # written files (positional output_name as 7th / 10th argument)
        ORIG["lowpass"](x, 3, None, None, 2, "o_lp.em"); cryomap.lowpass(x, 3, None, None, 2, "n_lp.em")
        ORIG["highpass"](x, 3, None, None, 2, "o_hp.mrc"); cryomap.highpass(x, 3, None, None, 2, "n_hp.mrc")
        ORIG["bandpass"](x, 3, None, 1, None, None, 3, 2, "o_bp.em"); ob = open("band.em", "rb").read()
        cryomap.bandpass(x, 3, None, 1, None, None, 3, 2, "n_bp.em"); nb = open("band.em", "rb").read()
        expect(ob == nb, f"{shape}: band.em differs")
        for a, b in [("o_lp.em", "n_lp.em"), ("o_hp.mrc", "n_hp.mrc"), ("o_bp.em", "n_bp.em")]:
            expect(open(a, "rb").read() == open(b, "rb").read(), f"{shape}: written file {b} differs")
        # map read from a file
        compare_one("lowpass", ("o_lp.em",), dict(fourier_pixels=2, gaussian=1))
    return n


def check_helper(rng):
    """the new private helper (only present with the patch): DFT layout of the centred mask, inverse shift restores it"""
    helper = getattr(cryomap, "_lowpass_gain", None)
    if helper is None:
        return 0
    n = 0
    for shape in [(8, 8, 8), (9, 9, 9), (12, 10, 14), (15, 20, 11), (21, 21, 21), (7, 1, 5), (24, 18, 30)]:
        for c in range(0, shape[0] // 2 + 1):
            for s in [0, 1, 2.5, 4]:
                g = helper(shape, c, s)
                m = cryomask.spherical_mask(shape, c, gaussian=s, gaussian_outwards=False)
                n += 1
                expect(same(np.fft.fftshift(g), m), f"_lowpass_gain{shape} {c} {s}: fftshift does not give the centred mask back")
                expect(g[0, 0, 0] == m[shape[0] // 2, shape[1] // 2, shape[2] // 2], f"_lowpass_gain{shape}: zero frequency not at index 0")
                expect(same(g, ref_lowpass_gain(shape, c, s)) if s == 0 else close(g, ref_lowpass_gain(shape, c, s), 1e-12), f"_lowpass_gain{shape} {c} {s}: model")
    return n


if __name__ == "__main__":
    t0 = time.time()
    rng = np.random.default_rng(20240913)
    n_prop = check_property(cryomap, rng)
    n_cmp = compare_with_original(rng) + check_helper(rng)
    print(f"property cases: {n_prop}, old-vs-new comparisons: {n_cmp}, failures: {len(FAILS)}, {time.time() - t0:.0f} s")
    if FAILS:
        print("FAIL")
        sys.exit(1)
    print("PASS")
