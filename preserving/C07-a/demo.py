"""C07 / change a: Motl.clean_by_distance keeps a separated, dominating set per group.

Checks (1) the property against an independent brute-force computation, (2) bit-for-bit agreement of the
current Motl.clean_by_distance with a verbatim copy of the original implementation.
Run:  cd /tmp/wt6/C07 && /venv/bin/python /tmp/seedsP/C07/a/demo.py
"""
import os, sys
sys.path.insert(0, os.getcwd())
import io, contextlib
import numpy as np
import pandas as pd
from scipy.spatial.distance import cdist

from cryocat import cryomotl, geom, nnana
from cryocat.cryomotl import Motl


# ---------------------------------------------------------------- verbatim copy of the original method
def clean_by_distance_ORIG(self, distance_in_voxels, feature_id, metric_id="score", keep_greater=True, dist_mask=None):
    d_cut = distance_in_voxels
    if dist_mask is not None:
        nn_stats = nnana.get_nn_stats_within_radius(self, nn_radius=d_cut, feature=feature_id)
        nn_stats_filtered = nnana.filter_nn_radial_stats(nn_stats, dist_mask)
    features = np.unique(self.get_feature(feature_id))
    cleaned_df = pd.DataFrame()
    for f in features:
        feature_m = self.get_motl_subset(f, feature_id=feature_id, reset_index=True)
        n_temp_motl = feature_m.df.shape[0]
        pos = feature_m.get_coordinates()
        temp_scores = feature_m.df[metric_id].values
        if keep_greater:
            sort_idx = np.argsort(temp_scores)[::-1]
        else:
            sort_idx = np.argsort(temp_scores)
        temp_keep = np.ones((n_temp_motl,), dtype=bool)
        for j in sort_idx:
            if temp_keep[j]:
                if dist_mask is None:
                    dist = geom.point_pairwise_dist(pos[j, :], pos)
                    d_cut_idx = dist < d_cut
                    d_cut_idx[j] = False
                else:
                    d_cut_idx = np.arange(feature_m.df.shape[0])
                    subtomo_id = feature_m.df.loc[j, "subtomo_id"]
                    filtered_idx = nn_stats_filtered.loc[
                        nn_stats_filtered["qp_subtomo_id"] == subtomo_id, "nn_motl_idx"
                    ].values
                    d_cut_idx = np.isin(d_cut_idx, filtered_idx)
                temp_keep[d_cut_idx] = False
        cleaned_df = pd.concat((cleaned_df, feature_m.df.iloc[temp_keep, :]), ignore_index=True)
    self.df = cleaned_df


def quiet(fn, *a, **k):
    with contextlib.redirect_stdout(io.StringIO()):
        return fn(*a, **k)


# ---------------------------------------------------------------- input generation
GROUP_FIELDS = ["tomo_id", "object_id", "class", "geom1"]
METRIC_FIELDS = ["score", "geom2", "geom5"]


def make_df(rng, n, n_groups, group_field, metric_field, style):
    df = Motl.create_empty_motl_df()
    df = df.reindex(range(n)).fillna(0.0)
    n_centres = int(rng.integers(1, 6))
    centres = rng.uniform(-50, 150, size=(n_centres, 3))
    spread = rng.choice([0.5, 2.0, 8.0])
    coords = centres[rng.integers(0, n_centres, n)] + rng.normal(0, spread, size=(n, 3))
    if style == "int":  # integer voxel positions + fractional shifts
        base = np.round(coords)
        shifts = rng.uniform(-0.5, 0.5, size=(n, 3))
    elif style == "line":  # degenerate: everything on a line
        base = np.zeros((n, 3))
        base[:, 0] = coords[:, 0]
        shifts = np.zeros((n, 3))
        shifts[:, 0] = rng.uniform(-0.5, 0.5, n)
    else:
        base = coords
        shifts = np.zeros((n, 3))
    df[["x", "y", "z"]] = base
    df[["shift_x", "shift_y", "shift_z"]] = shifts
    group_values = rng.choice([-3, 0, 1, 2, 7, 11, 100], size=n_groups, replace=False).astype(float)
    df[group_field] = group_values[rng.integers(0, n_groups, n)]
    kind = rng.integers(0, 4)
    if kind == 0:
        sc = rng.normal(0, 1, n)  # negative values too
    elif kind == 1:
        sc = rng.integers(-3, 4, n).astype(float)  # many ties in the score
    elif kind == 2:
        sc = rng.uniform(0, 1, n)
    else:
        sc = np.full(n, 0.25)  # all equal
    df[metric_field] = sc
    df["subtomo_id"] = rng.permutation(n) + 1.0  # unique particle label
    for c in ("phi", "theta", "psi"):
        df[c] = rng.uniform(-180, 180, n)
    # non-default index
    idx_kind = rng.integers(0, 3)
    if idx_kind == 1:
        df.index = rng.permutation(n) + 1000
    elif idx_kind == 2:
        df.index = np.arange(n)[::-1] * 3
    return df


def tie_free(df, group_field, d, tol=1e-7):
    """quantifier: exact-distance ties excluded -> no in-group pair at distance (numerically) equal to d"""
    pos = df[["x", "y", "z"]].values + df[["shift_x", "shift_y", "shift_z"]].values
    for g in df[group_field].unique():
        p = pos[(df[group_field] == g).values]
        dm = cdist(p, p)
        if np.any(np.abs(dm - d) < tol):
            return False
    return True


# ---------------------------------------------------------------- independent property check
def check_property(df_in, df_out, d, group_field, metric_field, keep_greater):
    assert sorted(df_out.columns) == sorted(df_in.columns)
    assert list(df_out.index) == list(range(len(df_out))), "output index is 0..n-1"
    ids_in = df_in["subtomo_id"].values
    ids_out = df_out["subtomo_id"].values
    assert len(set(ids_out)) == len(ids_out) and set(ids_out) <= set(ids_in), "output is a sub-list"
    # rows survive unchanged
    a = df_in.set_index("subtomo_id").loc[ids_out].reset_index()[list(df_out.columns)]
    pd.testing.assert_frame_equal(a.astype(float), df_out.astype(float).reset_index(drop=True), check_exact=True)

    pos_in = df_in[["x", "y", "z"]].values + df_in[["shift_x", "shift_y", "shift_z"]].values
    kept_mask = np.isin(ids_in, ids_out)
    grp = df_in[group_field].values
    sc = df_in[metric_field].values
    for g in np.unique(grp):
        m = grp == g
        kp = pos_in[m & kept_mask]
        ks = sc[m & kept_mask]
        assert len(kp) >= 1, "every group keeps at least one particle"
        # separation
        dm = cdist(kp, kp)
        np.fill_diagonal(dm, np.inf)
        assert np.all(dm >= d), f"two remaining particles of group {g} closer than d"
        # domination
        rp = pos_in[m & ~kept_mask]
        rs = sc[m & ~kept_mask]
        if len(rp):
            dr = cdist(rp, kp)
            better = (ks[None, :] >= rs[:, None]) if keep_greater else (ks[None, :] <= rs[:, None])
            ok = np.any((dr < d) & better, axis=1)
            assert np.all(ok), f"removed particle of group {g} not dominated by a remaining one"


def brute_greedy_ids(df, d, group_field, metric_field, keep_greater):
    """pure-python reference, only used when the scores within each group are distinct"""
    kept = []
    for g in sorted(df[group_field].unique()):
        sub = df[df[group_field] == g]
        pts = [
            (r[metric_field], r["subtomo_id"], (r["x"] + r["shift_x"], r["y"] + r["shift_y"], r["z"] + r["shift_z"]))
            for _, r in sub.iterrows()
        ]
        pts.sort(key=lambda t: t[0], reverse=keep_greater)
        chosen = []
        for s, i, p in pts:
            if all(sum((p[k] - q[k]) ** 2 for k in range(3)) ** 0.5 >= d for _, _, q in chosen):
                chosen.append((s, i, p))
        kept.extend(i for _, i, _ in chosen)
    return set(kept)


def main():
    rng = np.random.default_rng(20260928)
    n_cases = 0
    sizes = [1, 1, 2, 2, 3, 5, 8, 13, 30, 60, 120, 250, 400]
    for rep in range(260):
        n = int(rng.choice(sizes)) if rep % 3 else int(rng.integers(1, 80))
        n_groups = int(rng.integers(1, 5))
        gf = GROUP_FIELDS[rng.integers(0, len(GROUP_FIELDS))]
        mf = METRIC_FIELDS[rng.integers(0, len(METRIC_FIELDS))]
        if mf == gf:
            mf = "score"
        keep_greater = bool(rng.integers(0, 2))
        style = ["float", "int", "line"][rng.integers(0, 3)]
        df = make_df(rng, n, n_groups, gf, mf, style)
        d = float(rng.choice([1e-3, 0.3, 1.0, 2.5, 7.0, 20.0, 1e4])) * float(rng.uniform(0.9, 1.1))
        if not tie_free(df, gf, d):
            continue
        n_cases += 1
        df_before = df.copy(deep=True)

        m = Motl(df.copy(deep=True))
        quiet(m.clean_by_distance, d, gf, metric_id=mf, keep_greater=keep_greater)
        out = m.df
        check_property(df_before, out, d, gf, mf, keep_greater)

        # identical to the original implementation (values, dtypes, order, index)
        m0 = Motl(df.copy(deep=True))
        clean_by_distance_ORIG(m0, d, gf, metric_id=mf, keep_greater=keep_greater)
        pd.testing.assert_frame_equal(out, m0.df, check_exact=True)

        # the caller's frame is not modified when a copy is not handed in
        m1 = Motl(df)
        quiet(m1.clean_by_distance, d, gf, metric_id=mf, keep_greater=keep_greater)
        pd.testing.assert_frame_equal(df, df_before, check_exact=True)
        pd.testing.assert_frame_equal(m1.df, out, check_exact=True)

        # groups never affect each other: cleaning each group alone gives the same survivors
        ids_sep = set()
        for g in df[gf].unique():
            mg = Motl(df[df[gf] == g].copy())
            quiet(mg.clean_by_distance, d, gf, metric_id=mf, keep_greater=keep_greater)
            ids_sep |= set(mg.df["subtomo_id"])
        assert ids_sep == set(out["subtomo_id"]), "cross-group leakage"
        # ... and moving one group far away / on top of another does not change the others
        if n_groups > 1:
            g0 = df[gf].unique()[0]
            df_shift = df.copy()
            df_shift.loc[df_shift[gf] != g0, ["x", "y", "z"]] = df_shift.loc[df_shift[gf] == g0, ["x", "y", "z"]].iloc[0].values
            ms = Motl(df_shift)
            if tie_free(df_shift, gf, d):
                quiet(ms.clean_by_distance, d, gf, metric_id=mf, keep_greater=keep_greater)
                assert set(ms.df.loc[ms.df[gf] == g0, "subtomo_id"]) == set(out.loc[out[gf] == g0, "subtomo_id"])

        # distinct scores -> the greedy result is unique: compare with the pure-python reference
        if all(df.loc[df[gf] == g, mf].is_unique for g in df[gf].unique()) and n <= 150:
            assert brute_greedy_ids(df, d, gf, mf, keep_greater) == set(out["subtomo_id"]), "greedy reference differs"

        # repeated call on the same object: a separated set is a fixed point
        prev = m.df.copy(deep=True)
        quiet(m.clean_by_distance, d, gf, metric_id=mf, keep_greater=keep_greater)
        pd.testing.assert_frame_equal(m.df, prev, check_exact=True)
        # and a further call with a larger radius still satisfies the property w.r.t. its own input
        d2 = d * 1.7
        if tie_free(prev, gf, d2):
            quiet(m.clean_by_distance, d2, gf, metric_id=mf, keep_greater=keep_greater)
            check_property(prev, m.df, d2, gf, mf, keep_greater)

    # hand-made adversarial cases: chain A-B-C with B best / B worst, exact strictness of "<"
    for keep_greater in (True, False):
        df = Motl.create_empty_motl_df().reindex(range(6)).fillna(0.0)
        df["x"] = [0.0, 1.0, 2.0, 0.0, 1.0, 2.0]
        df["tomo_id"] = [1, 1, 1, 2, 2, 2]
        df["score"] = [0.5, 0.9, 0.4, 0.9, 0.1, 0.8]
        df["subtomo_id"] = np.arange(1, 7.0)
        m = Motl(df.copy())
        quiet(m.clean_by_distance, 1.5, "tomo_id", keep_greater=keep_greater)
        check_property(df, m.df, 1.5, "tomo_id", "score", keep_greater)
        want = {2.0, 4.0, 6.0} if keep_greater else {1.0, 3.0, 5.0}
        assert set(m.df["subtomo_id"]) == want, (keep_greater, m.df["subtomo_id"].tolist())
        m0 = Motl(df.copy())
        clean_by_distance_ORIG(m0, 1.5, "tomo_id", keep_greater=keep_greater)
        pd.testing.assert_frame_equal(m.df, m0.df, check_exact=True)
        n_cases += 1

    assert n_cases > 150, n_cases
    print(f"checked {n_cases} particle lists")
    print("PASS")


if __name__ == "__main__":
    main()
