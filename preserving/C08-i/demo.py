"""C08 -- particle-list set algebra and identifier discipline.

Part 1: random histories of up to 10 operations (subset / remove / split / intersection / drop-duplicates /
        merge-and-renumber / merge-and-drop-duplicates / renumber particles / renumber objects) on random particle lists
        (0..200 rows, unsorted and repeated ids, non-default row labels, NaN holes in non-key fields, negative values,
        Euler poles, int and float key columns, Motl and EmMotl receivers) compared with a pure-Python row-set model.
Part 2: the helpers touched by the change are compared with a verbatim copy of the ORIGINAL helper text (kept in this
        file) on the same inputs: identical frames (values, dtypes, column order, row labels), identical aliasing.

Run:  cd /tmp/wt6/C08 && /venv/bin/python /tmp/seedsR/C08/b/demo.py      (prints PASS, exit 0)
"""
import os
import sys

sys.path.insert(0, os.getcwd())
import contextlib
import copy
import io
import math
import random
import warnings

warnings.simplefilter("ignore")
import numpy as np
import pandas as pd

from cryocat import cryomotl
from cryocat.cryomotl import Motl, EmMotl
from cryocat.exceptions import UserInputError

COLS = [
    "score", "geom1", "geom2", "subtomo_id", "tomo_id", "object_id", "subtomo_mean", "x", "y", "z",
    "shift_x", "shift_y", "shift_z", "geom3", "geom4", "geom5", "phi", "psi", "theta", "class",
]
KEYS = ["subtomo_id", "tomo_id", "object_id", "class"]
NAN_OK = ["geom1", "geom2", "geom3", "geom4", "geom5", "shift_x", "subtomo_mean"]
FAILS = []


def fail(msg):
    FAILS.append(msg)
    if len(FAILS) > 20:
        finish()


def finish():
    if FAILS:
        print("FAIL (%d)" % len(FAILS), file=sys.__stdout__)
        for f in FAILS[:20]:
            print("  -", f, file=sys.__stdout__)
        sys.exit(1)
    print("PASS", file=sys.__stdout__)
    sys.exit(0)


# ------------------------------------------------------------------------------------------------ random particle lists
def random_df(rng, n, id_pool=None, int_keys=False, nan_holes=False, shuffled_index=False, col_perm=False):
    data = {}
    for c in COLS:
        data[c] = [round(rng.uniform(-50, 50), 3) for _ in range(n)]
    data["score"] = [rng.choice([0.1, 0.25, 0.5, 0.75, -0.3]) if rng.random() < 0.5 else round(rng.random(), 4) for _ in range(n)]
    pool = id_pool if id_pool is not None else list(range(1, max(2, n) + 3))
    data["subtomo_id"] = [float(rng.choice(pool)) for _ in range(n)]  # unsorted, repeated, with holes
    tomos = rng.sample([1, 2, 3, 5, 8, 13, 40, 101], rng.randint(1, 4))
    data["tomo_id"] = [float(rng.choice(tomos)) for _ in range(n)]
    objs = rng.sample([-4, -1, 0, 1, 2, 3, 7, 9, 20], rng.randint(1, 5))
    data["object_id"] = [float(rng.choice(objs)) for _ in range(n)]
    data["class"] = [float(rng.choice([1, 2, 3])) for _ in range(n)]
    data["phi"] = [rng.choice([0.0, 180.0, -180.0, 360.0, round(rng.uniform(-180, 180), 2)]) for _ in range(n)]
    data["theta"] = [rng.choice([0.0, 180.0, 90.0, round(rng.uniform(0, 180), 2)]) for _ in range(n)]
    data["psi"] = [rng.choice([0.0, -90.0, round(rng.uniform(-180, 180), 2)]) for _ in range(n)]
    if nan_holes:
        for c in NAN_OK:
            for i in range(n):
                if rng.random() < 0.15:
                    data[c][i] = float("nan")
    cols = list(COLS)
    if col_perm:
        rng.shuffle(cols)
    df = pd.DataFrame({c: np.asarray(data[c], dtype=float) for c in cols}, columns=cols)
    if int_keys:
        for c in KEYS:
            df[c] = df[c].astype(int)
    if shuffled_index and n:
        labels = rng.sample(range(0, 3 * n + 5), n)
        df.index = labels
    return df


def rows_of(df):
    """[(label, {col: python float})] -- read column by column BY NAME"""
    labels = df.index.tolist()
    colvals = {c: [float(v) for v in df[c].tolist()] for c in COLS}
    return [(labels[i], {c: colvals[c][i] for c in COLS}) for i in range(len(labels))]


def same_val(exp, got, nan_to_zero):
    if isinstance(exp, float) and math.isnan(exp):
        return (isinstance(got, float) and math.isnan(got)) or (nan_to_zero and got == 0.0)
    return exp == got


def same_row(exp, got, nan_to_zero=True, skip=()):
    return all(same_val(exp[c], got[c], nan_to_zero) for c in COLS if c not in skip)


def check_table(tag, df, exp_rows, labels=True, nan_to_zero=True):
    """exp_rows: [(label, rowdict)]"""
    cols = list(df.columns)
    if len(cols) != 20 or sorted(cols) != sorted(COLS):
        fail("%s: table does not have exactly the 20 fields: %s" % (tag, cols))
        return False
    got = rows_of(df)
    if len(got) != len(exp_rows):
        fail("%s: %d rows, model has %d" % (tag, len(got), len(exp_rows)))
        return False
    for i, ((gl, g), (el, e)) in enumerate(zip(got, exp_rows)):
        if not same_row(e, g, nan_to_zero):
            bad = [c for c in COLS if not same_val(e[c], g[c], nan_to_zero)]
            fail("%s: row %d differs from the model in %s" % (tag, i, bad))
            return False
        if labels and gl != el:
            fail("%s: row %d has label %r, model %r" % (tag, i, gl, el))
            return False
    return True


def frames_identical(a, b):
    try:
        pd.testing.assert_frame_equal(a, b, check_dtype=True, check_index_type="equiv", check_column_type=True,
                                      check_exact=True, check_names=True)
    except AssertionError:
        return False
    return list(a.columns) == list(b.columns) and a.index.tolist() == b.index.tolist()


# ------------------------------------------------------------------------------------------------------ pure-Python model
def m_subset(rows, feature, values, reset):
    out = []
    for v in values:
        out.extend([(l, r) for (l, r) in rows if r[feature] == v])
    if reset:
        out = [(i, r) for i, (_, r) in enumerate(out)]
    return out


def m_remove(rows, feature, values):
    return [(l, r) for (l, r) in rows if not any(r[feature] == v for v in values)]


def m_split(rows, feature):
    order = []
    for _, r in rows:
        if r[feature] not in order:
            order.append(r[feature])
    return [[(l, r) for (l, r) in rows if r[feature] == v] for v in order]


def m_intersection(rows1, rows2, feature):
    ids2 = set(r[feature] for _, r in rows2)
    return [(i, r) for i, (_, r) in enumerate([x for x in rows1 if x[1][feature] in ids2])]


def m_offsets(list_of_rows):
    """the merged rows (object ids shifted, no collision), in input order, empty inputs skipped"""
    merged, add = [], 0
    for rows in list_of_rows:
        if not rows:
            continue
        objs = [r["object_id"] for _, r in rows]
        lo = min(objs)
        shift = (add - lo + 1) if lo <= add else 0
        new = []
        for _, r in rows:
            r2 = dict(r)
            r2["object_id"] = r["object_id"] + shift
            new.append(r2)
        merged.append(new)
        add = max(r["object_id"] for r in new)
    return merged


def m_renumber_objects(rows, start):
    tomos = sorted(set(r["tomo_id"] for _, r in rows))
    number, nxt = {}, start
    for t in tomos:
        for _, r in rows:
            if r["tomo_id"] == t and (t, r["object_id"]) not in number:
                number[(t, r["object_id"])] = nxt
                nxt += 1
    out = []
    for i, (_, r) in enumerate(rows):
        r2 = dict(r)
        r2["object_id"] = float(number[(r["tomo_id"], r["object_id"])])
        out.append((i, r2))
    return out


def check_dropdup(tag, df, in_rows, dup="subtomo_id", dec="score", ascending=False):
    """exactly one best row per id, ids ascending, labels 0..n-1; returns the adopted model rows"""
    got = rows_of(df)
    cols = list(df.columns)
    if len(cols) != 20 or sorted(cols) != sorted(COLS):
        fail("%s: not the 20 fields" % tag)
    ids = sorted(set(r[dup] for _, r in in_rows))
    if [g[dup] for _, g in got] != ids:
        fail("%s: ids after duplicate dropping are not the sorted unique ids" % tag)
        return got
    for k, (gl, g) in enumerate(got):
        cands = [r for _, r in in_rows if r[dup] == g[dup]]
        best = (min if ascending else max)(r[dec] for r in cands)
        if g[dec] != best:
            fail("%s: id %r kept value %r, best is %r" % (tag, g[dup], g[dec], best))
        if not any(same_row(r, g) for r in cands):
            fail("%s: kept row for id %r is not one of the input rows" % (tag, g[dup]))
        if gl != k:
            fail("%s: labels not 0..n-1" % tag)
    return got


# ------------------------------------------------------------------------------------------------------------- histories
def make_motl(rng, df):
    kind = rng.random()
    if kind < 0.6:
        return Motl(df), rows_of(df), False
    if kind < 0.8:
        m = EmMotl(df)  # copies, labels 0..n-1, NaN -> 0
        return m, [(i, r) for i, (_, r) in enumerate(rows_of(df))], True
    m = Motl.load(df)
    return m, [(i, r) for i, (_, r) in enumerate(rows_of(df))], True


def other_motl(rng, id_pool):
    n = rng.choice([0, 1, 2, 4, 9, 30])
    df = random_df(rng, n, id_pool=id_pool, nan_holes=rng.random() < 0.3, shuffled_index=rng.random() < 0.5,
                   int_keys=rng.random() < 0.15)
    m = Motl(df) if rng.random() < 0.7 else EmMotl(df)
    return m


def run_history(seed):
    rng = random.Random(seed)
    n = rng.choice([0, 0, 1, 1, 2, 3, 5, 8, 13, 30, 60, 120, 200])
    pool = list(range(1, max(3, n // rng.choice([1, 2, 3])) + 2))
    df = random_df(rng, n, id_pool=pool, int_keys=rng.random() < 0.15, nan_holes=rng.random() < 0.35,
                   shuffled_index=rng.random() < 0.5, col_perm=rng.random() < 0.2)
    if n == 0 and rng.random() < 0.5:
        m, rows = Motl(), []
    else:
        m, rows, _ = make_motl(rng, df)
    tag0 = "seed %d" % seed
    check_table(tag0 + " start", m.df, rows)  # the EmMotl constructor may have filled NaN holes with 0
    rows = rows_of(m.df)
    for step in range(rng.randint(1, 10)):
        op = rng.choice(["subset", "remove", "split", "inter", "dropdup", "merge_ren", "merge_dd", "ren_part", "ren_obj"])
        tag = "%s step %d %s" % (tag0, step, op)
        before = m.df.copy()
        cls = type(m) if type(m) in (Motl, EmMotl) else Motl
        try:
            if op in ("subset", "remove"):
                feature = rng.choice(KEYS)
                present = sorted(set(r[feature] for _, r in rows))
                k = rng.randint(0, 3)
                vals = [rng.choice(present) for _ in range(k)] if present else []
                if op == "remove":
                    vals = list(dict.fromkeys(vals))
                vals += [rng.choice([-77.0, 999.0])] if rng.random() < 0.3 else []
                if rng.random() < 0.3:
                    vals = [int(v) for v in vals]
                if op == "subset":
                    reset = rng.random() < 0.6
                    scalar = len(vals) == 1 and rng.random() < 0.5
                    arg = vals[0] if scalar else list(vals)
                    res = m.get_motl_subset(arg, feature_id=feature, reset_index=reset)
                    exp = m_subset(rows, feature, vals, reset)
                    check_table(tag, res.df, exp, nan_to_zero=False)
                    if type(res) is not Motl:
                        fail(tag + ": subset is not a Motl")
                    res2 = m.get_motl_subset(arg, feature_id=feature, reset_index=reset, return_df=True)
                    if not frames_identical(res.df, res2):
                        fail(tag + ": repeated call / return_df differ")
                    if not frames_identical(before, m.df):
                        fail(tag + ": subset changed the receiver")
                    # complement: subset(unique values) + remove(values) partition the rows
                    uvals = list(dict.fromkeys(vals))
                    m2 = copy.deepcopy(m)
                    m2.remove_feature(feature, uvals)
                    sub = m.get_motl_subset(uvals, feature_id=feature, reset_index=False) if uvals else None
                    n_sub = len(sub.df) if sub is not None else 0
                    if n_sub + len(m2.df) != len(rows):
                        fail(tag + ": subset and removal are not complementary")
                    if rng.random() < 0.6:
                        m, rows = res, exp
                else:
                    form = rng.choice(["list", "array", "scalar"])
                    if form == "scalar" and len(vals) != 1:
                        form = "list"
                    arg = vals[0] if form == "scalar" else (np.array(vals) if form == "array" else list(vals))
                    if form == "array" and len(vals) == 0:
                        arg = []
                    m.remove_feature(feature, arg)
                    rows = m_remove(rows, feature, vals)
                    check_table(tag, m.df, rows, nan_to_zero=False)
            elif op == "split":
                feature = rng.choice(KEYS)
                parts = m.split_by_feature(feature)
                exp_parts = m_split(rows, feature)
                if len(parts) != len(exp_parts):
                    fail(tag + ": %d parts, model %d" % (len(parts), len(exp_parts)))
                else:
                    for j, (p, e) in enumerate(zip(parts, exp_parts)):
                        check_table("%s part %d" % (tag, j), p.df, e, nan_to_zero=False)
                    if sum(len(p.df) for p in parts) != len(rows):
                        fail(tag + ": parts do not partition the list")
                if not frames_identical(before, m.df):
                    fail(tag + ": split changed the receiver")
                if parts and rng.random() < 0.5:
                    j = rng.randrange(len(parts))
                    m, rows = parts[j], exp_parts[j]
            elif op == "inter":
                feature = rng.choice(["subtomo_id", "subtomo_id", "tomo_id", "object_id"])
                o = other_motl(rng, pool)
                o_before = o.df.copy()
                first = rng.random() < 0.7
                a, b = (m, o) if first else (o, m)
                res = cls.get_motl_intersection(a, b, feature_id=feature)
                exp = m_intersection(rows_of(a.df), rows_of(b.df), feature)
                check_table(tag, res.df, exp, nan_to_zero=True)
                if type(res) is not cls:
                    fail(tag + ": intersection has type %s" % type(res).__name__)
                if not frames_identical(before, m.df) or not frames_identical(o_before, o.df):
                    fail(tag + ": intersection changed an input")
                m, rows = res, rows_of(res.df)
                if len(exp) == len(rows):
                    rows = [(l, {c: (g[c] if same_val(e[c], g[c], True) else e[c]) for c in COLS}) for (l, g), (_, e) in zip(rows, exp)]
            elif op == "dropdup":
                if rng.random() < 0.7:
                    kw = {}
                else:
                    kw = dict(duplicates_column=rng.choice(["subtomo_id", "object_id"]), decision_column=rng.choice(["score", "x"]),
                              decision_sort_ascending=rng.random() < 0.5)
                m.drop_duplicates(**kw)
                rows = check_dropdup(tag, m.df, rows, kw.get("duplicates_column", "subtomo_id"), kw.get("decision_column", "score"),
                                     kw.get("decision_sort_ascending", False))
            elif op in ("merge_ren", "merge_dd"):
                others = [other_motl(rng, pool) for _ in range(rng.randint(0, 2))]
                lst = others + [m] + ([m] if rng.random() < 0.2 else [])
                rng.shuffle(lst)
                befores = [x.df.copy() for x in lst]
                res = (cls.merge_and_renumber if op == "merge_ren" else cls.merge_and_drop_duplicates)(lst)
                for x, bf in zip(lst, befores):
                    if not frames_identical(bf, x.df):
                        fail(tag + ": merge changed an input")
                groups = m_offsets([rows_of(x.df) for x in lst])
                # abstract checks of the model itself: no collision across inputs, grouping kept
                seen = set()
                for g in groups:
                    objs = set(r["object_id"] for r in g)
                    if objs & seen:
                        fail(tag + ": MODEL object ids collide")
                    seen |= objs
                flat = [r for g in groups for r in g]
                if type(res) is not cls:
                    fail(tag + ": merge result has type %s" % type(res).__name__)
                if op == "merge_ren":
                    exp = []
                    for i, r in enumerate(flat):
                        r2 = dict(r)
                        r2["subtomo_id"] = float(i + 1)
                        exp.append((i, r2))
                    check_table(tag, res.df, exp, nan_to_zero=(cls is EmMotl))
                    got = rows_of(res.df)
                    if [g["subtomo_id"] for _, g in got] != [float(i) for i in range(1, len(got) + 1)]:
                        fail(tag + ": subtomogram numbers are not 1..N")
                    # object ids of rows coming from different inputs never collide
                    pos, owner = 0, {}
                    for gi, g in enumerate(groups):
                        for _ in g:
                            if pos < len(got):
                                o_id = got[pos][1]["object_id"]
                                if owner.setdefault(o_id, gi) != gi:
                                    fail(tag + ": object id %r used by two inputs" % o_id)
                            pos += 1
                    m, rows = res, rows_of(res.df) if cls is EmMotl else exp
                else:
                    rows = check_dropdup(tag, res.df, [(i, r) for i, r in enumerate(flat)])
                    m = res
            elif op == "ren_part":
                m.renumber_particles()
                rows = [(l, dict(r, subtomo_id=float(i + 1))) for i, (l, r) in enumerate(rows)]
                check_table(tag, m.df, rows, nan_to_zero=False)
            elif op == "ren_obj":
                start = rng.choice([1, 1, 1, 5, 100, 0])
                old = rows
                if start == 1 and rng.random() < 0.5:
                    m.renumber_objects_sequentially()
                else:
                    m.renumber_objects_sequentially(starting_number=start)
                rows = m_renumber_objects(rows, start)
                check_table(tag, m.df, rows, nan_to_zero=False)
                # grouping kept under consecutive numbers
                pairs = set(((o["tomo_id"], o["object_id"]), n_["object_id"]) for (_, o), (_, n_) in zip(old, rows))
                if len(pairs) != len(set(p[0] for p in pairs)) or len(pairs) != len(set(p[1] for p in pairs)):
                    fail(tag + ": MODEL grouping not bijective")
                nums = sorted(p[1] for p in pairs)
                if nums != [float(start + i) for i in range(len(nums))]:
                    fail(tag + ": MODEL numbers not consecutive")
        except Exception as exc:  # an operation inside the quantifier must not raise
            fail("%s: raised %s: %s" % (tag, type(exc).__name__, exc))
            return


def part1(n_hist=400):
    for seed in range(n_hist):
        run_history(seed)
    # fixed edge cases
    e = Motl()
    if len(e.get_motl_subset([1]).df) != 0 or e.split_by_feature("tomo_id") != []:
        fail("empty list: subset / split")
    e.remove_feature("tomo_id", [1])
    e.drop_duplicates()
    e.renumber_particles()
    e.renumber_objects_sequentially()
    check_table("empty list after operations", e.df, [])
    r = Motl.merge_and_renumber([Motl(), Motl()])
    check_table("merge of empty lists", r.df, [])
    one = Motl(random_df(random.Random(5), 1, shuffled_index=True))
    r = Motl.merge_and_renumber([one, one, one])
    if r.df["subtomo_id"].tolist() != [1.0, 2.0, 3.0] or len(set(r.df["object_id"].tolist())) != 3:
        fail("single-row merge: ids / object numbers")
    for bad in ([], None, "x"):
        try:
            Motl.merge_and_renumber(bad)
            fail("merge_and_renumber(%r) did not raise" % (bad,))
        except UserInputError:
            pass


# ------------------------------------------------------------------ Part 2: touched helpers against their original text
ORIGINAL_HELPERS = """
def __init__(self, motl_df=None):
    if motl_df is not None:
        if self.check_df_correct_format(motl_df):
            self.df = motl_df
        else:
            raise ValueError("Provided pandas.DataFrame does not have correct format.")
    else:
        self.df = Motl.create_empty_motl_df()

def get_unique_values(self, feature_id):
    return self.df.loc[:, feature_id].unique()
"""


class _Probe(Motl):
    def __init__(self):
        pass


def same_array(a, b):
    return type(a) is type(b) and a.dtype == b.dtype and a.shape == b.shape and pd.Series(a).equals(pd.Series(b))


def part2():
    ns = {"Motl": Motl, "pd": pd, "np": np}
    exec(ORIGINAL_HELPERS, ns)
    o_init, o_unique = ns["__init__"], ns["get_unique_values"]
    rng = random.Random(4711)
    frames = []
    for n in [0, 1, 2, 7, 50, 200]:
        for _ in range(6):
            frames.append(random_df(rng, n, int_keys=rng.random() < 0.3, nan_holes=rng.random() < 0.6,
                                    shuffled_index=rng.random() < 0.6, col_perm=rng.random() < 0.5))
    frames.append(Motl.create_empty_motl_df())
    frames.append(pd.DataFrame(columns=COLS))  # object-typed empty table
    good = random_df(rng, 3)
    wrong = [good.drop(columns=["geom4"]), good.assign(extra=1.0), good.rename(columns={"psi": "PSI"}), pd.DataFrame()]
    for k, df in enumerate(frames + wrong):
        tag = "helper frame %d" % k
        snap = df.copy()
        a, b, c = _Probe(), _Probe(), _Probe()
        ra = rb = rc = None
        try:
            o_init(a, df)
        except ValueError as exc:
            ra = str(exc)
        try:
            Motl.__init__(b, df)
        except ValueError as exc:
            rb = str(exc)
        try:
            Motl.__init__(c, motl_df=df)
        except ValueError as exc:
            rc = str(exc)
        if not (ra == rb == rc):
            fail("%s: Motl.__init__ outcome %r / %r, original %r" % (tag, rb, rc, ra))
            continue
        if (ra is None) != (k < len(frames)):
            fail("%s: demo expectation about accepted tables is wrong" % tag)
        if ra is not None:
            continue
        if not (a.df is df and b.df is df and c.df is df):
            fail("%s: Motl(df) no longer keeps the caller's table itself" % tag)
        if set(vars(b)) != set(vars(a)):
            fail("%s: Motl(df) has other attributes than before: %s" % (tag, sorted(vars(b))))
        m = Motl(df)
        for f in COLS:
            exp = o_unique(m, f)
            for got in (m.get_unique_values(f), m.get_unique_values(feature_id=f), Motl.get_unique_values(m, f)):
                if not same_array(exp, got):
                    fail("%s: get_unique_values(%s) differs from the original helper" % (tag, f))
            # independent computation: first occurrences, NaN counted once
            seen, has_nan = [], False
            for v in df[f].tolist():
                if isinstance(v, float) and math.isnan(v):
                    if not has_nan:
                        seen.append(v)
                    has_nan = True
                elif v not in seen:
                    seen.append(v)
            got = m.get_unique_values(f).tolist()
            if len(got) != len(seen) or not all(same_val(float(e), float(g), False) for e, g in zip(seen, got)):
                fail("%s: get_unique_values(%s) is not the list of first occurrences" % (tag, f))
        try:
            m.get_unique_values("no_such_field")
            fail("%s: unknown field accepted" % tag)
        except KeyError:
            pass
        if not frames_identical(snap, df):
            fail("%s: helpers changed the caller's table" % tag)
        # the new options (only where the patch is applied)
        try:
            own = Motl(df, copy=True)
        except TypeError:
            own = None
        if own is not None:
            if own.df is df or not frames_identical(own.df, df):
                fail("%s: copy=True does not give an equal table of its own" % tag)
            again = Motl(m)
            if again.df is not m.df:
                fail("%s: Motl(Motl) does not take the table of the given list" % tag)
            for f in KEYS + ["geom1"]:
                srt = m.get_unique_values(f, sort=True, dropna=True).tolist()
                ref = sorted(set(v for v in df[f].tolist() if v == v))
                if srt != ref:
                    fail("%s: sort/dropna options wrong for %s" % (tag, f))
    if not frames_identical(Motl().df, Motl.create_empty_motl_df()) or not frames_identical(Motl(None).df, Motl.create_empty_motl_df()):
        fail("Motl() is not the empty table")
    # the constructors of the child classes go through Motl.__init__ without arguments
    from cryocat.cryomotl import StopgapMotl, RelionMotl
    for child in (StopgapMotl, RelionMotl):
        if not frames_identical(child().df, Motl.create_empty_motl_df()):
            fail("%s() is not the empty table" % child.__name__)


if __name__ == "__main__":
    with contextlib.redirect_stdout(io.StringIO()):  # the library prints when it skips empty lists
        part1()
        part2()
    finish()
