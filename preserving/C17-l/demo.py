"""C17 / change b: error handling with identical outcomes (KeyError instead of a membership test for PriorRecordDose,
pandas' EmptyDataError kept as the cause, an explicit error for an mdoc without image sections).

Checks (1) the property: an mdoc re-reads to the header entries and the per-image table that were written; tilt and
dose loaders return the numbers of their files (angles ascending, mdoc dose = prior + exposure dose);
(2) the functions of the tree give exactly what the ORIGINAL function texts (kept below) give on the same inputs,
including the failing inputs (same exception type and message).
Run:  cd /tmp/wt7/C17 && /venv/bin/python /tmp/seedsS/C17/b/demo.py
"""
import sys, os
sys.path.insert(0, os.getcwd())
import warnings
warnings.filterwarnings("ignore")
import types, tempfile, shutil
import numpy as np
import pandas as pd
from cryocat import ioutils
from cryocat import mdoc as mdoc_module
from cryocat.mdoc import Mdoc

ORIG_MDOC = r'''
@staticmethod
def _read_mdoc(file_path):
    with open(file_path, "r") as f:
        lines = f.readlines()

        # separate first part of lines until a first occurrence of a line starting with "[ZValue"
        header = []  # list of header lines
        for line in lines:
            if line.startswith("[ZValue"):
                section_id = "ZValue"
                break
            elif line.startswith("[FrameSet"):
                section_id = "FrameSet"
                break
            # append only non-empty lines
            if line.strip():
                header.append(line.strip())

        titles, project_info = Mdoc._parse_header(header)

        # continue after header
        data = lines[lines.index(line) :]
        imgs = Mdoc._parse_images(data, section_id)

        return titles, project_info, imgs, section_id
'''
ORIG_IOUTILS = r'''
def one_value_per_line_read(file_path, data_type=np.float32):
    if not os.path.isfile(file_path):
        raise ValueError("The input file does not exist")

    try:
        data_df = pd.read_csv(file_path, header=None, dtype=data_type, sep=r"\s+")
        if data_df.empty:
            raise ValueError("The input file is empty or contains no valid data.")
    except pd.errors.EmptyDataError:
        raise ValueError("The input file is empty or contains no valid data.")

    return data_df.iloc[:, 0].values

def total_dose_load(input_dose, sort_mdoc=True):

    if isinstance(input_dose, np.ndarray):
        return input_dose
    elif isinstance(input_dose, list):
        return np.asarray(input_dose)
    elif isinstance(input_dose, str):
        if input_dose.endswith(".csv"):
            # load as panda frames
            df = pd.read_csv(input_dose, index_col=0)
            if "CorrectedDose" in df.columns:
                if "Removed" in df.columns:
                    return df.loc[df["Removed"] == False, "CorrectedDose"].astype(np.single).to_numpy()
                else:
                    return df["CorrectedDose"].astype(np.single).to_numpy()
            else:
                raise ValueError(f"The file {input_dose} does not contain column with name CorrectedDose")
        elif input_dose.endswith(".mdoc"):
            # load as mdoc
            mdoc_file = mdoc.Mdoc(input_dose)

            # sort mdoc
            if sort_mdoc:
                mdoc_file.sort_by_tilt(reset_z_value=False)

            # should always exist
            image_dose = mdoc_file.get_image_feature("ExposureDose").values

            # if PriorDose exists - it should be used
            if "PriorRecordDose" in mdoc_file.imgs:
                prior_dose = mdoc_file.get_image_feature("PriorRecordDose").values
                total_dose = image_dose + prior_dose
                return total_dose
            else:
                mdoc_file.imgs["original_order"] = range(len(mdoc_file.imgs))
                mdoc_file.imgs["DateTime"] = pd.to_datetime(mdoc_file.imgs["DateTime"])  # Convert to datetime
                sorted_df = mdoc_file.imgs.sort_values("DateTime")
                sorted_df.reset_index(drop=True, inplace=True)
                sorted_df["total_dose"] = sorted_df["ExposureDose"] * (sorted_df.index + 1)
                result_df = sorted_df.sort_values("original_order").drop(columns=["original_order"])
                return result_df["total_dose"].values

        elif input_dose.endswith(".xml"):
            total_dose = get_data_from_warp_xml(input_dose, "Dose", node_level=1)
            return total_dose
        else:
            total_dose = one_value_per_line_read(input_dose)
            return total_dose
    else:
        raise ValueError("Error: the dose has to be either ndarray or str with valid path!")

def tlt_load(input_tlt, sort_angles=True):

    if isinstance(input_tlt, np.ndarray):
        if input_tlt.size == 0:
            raise ValueError(f"The input tilt data is empty!")
        else:
            return input_tlt
    elif isinstance(input_tlt, list):
        if len(input_tlt) == 0:
            raise ValueError(f"The input tilt data is empty")
        else:
            return np.asarray(input_tlt)
    elif isinstance(input_tlt, str):
        if input_tlt.endswith(".mdoc"):
            tilt_data = mdoc.Mdoc(input_tlt)
            tilts = tilt_data.get_image_feature("TiltAngle").values
        elif input_tlt.endswith(".xml"):
            tilts = get_data_from_warp_xml(input_tlt, "Angles", node_level=1)
        else:
            tilts = one_value_per_line_read(input_tlt)

        if sort_angles:
            tilts = np.sort(tilts)

        return tilts
    else:
        raise ValueError("Error: the dose has to be either ndarray or path to csv, mdoc, or tlt file!")
'''

# ---- original functions -----------------------------------------------------------------------------------------
m_ns = dict(vars(mdoc_module))
exec(ORIG_MDOC, m_ns)
class OrigMdoc(Mdoc):
    _read_mdoc = m_ns["_read_mdoc"]            # the original reader (a staticmethod object), everything else shared
io_ns = dict(vars(ioutils))
io_ns["mdoc"] = types.SimpleNamespace(Mdoc=OrigMdoc)
exec(ORIG_IOUTILS, io_ns)
orig_io = types.SimpleNamespace(**io_ns)

FAIL = []
def check(cond, msg):
    if not cond:
        FAIL.append(msg)
        if len(FAIL) < 15:
            print("FAIL:", msg)

def outcome(f, *a, **k):
    try:
        return ("ok", f(*a, **k))
    except Exception as e:
        return ("exc", type(e).__name__, str(e))

def same_array(a, b):
    a, b = np.asarray(a), np.asarray(b)
    if a.shape != b.shape or a.dtype != b.dtype:
        return False
    for x, y in zip(a.ravel().tolist(), b.ravel().tolist()):
        if not (x == y or (isinstance(x, float) and isinstance(y, float) and x != x and y != y)):
            return False
    return True

def same_outcome(a, b, msg):
    if a[0] != b[0]:
        check(False, msg + ": %r vs %r" % (a[:2], b[:2]))
    elif a[0] == "exc":
        check(a == b, msg + ": %r vs %r" % (a, b))
    else:
        check(same_array(a[1], b[1]), msg + ": values differ %r vs %r" % (a[1], b[1]))

# ---- mdoc grammar: text + the independently known content -------------------------------------------------------
import re as _re

def expected_value(text):
    """independent statement of how an mdoc value is typed: unsigned whole number -> int, unsigned decimal -> float,
    anything else (negative numbers, several numbers, text) stays text"""
    t = text.strip()
    if _re.fullmatch(r"[0-9]+", t):
        return int(t)
    if _re.fullmatch(r"[0-9]*\.[0-9]*", t) and _re.search(r"[0-9]", t):
        return float(t)
    return t

def num_text(rng, allow_negative=True):
    k = rng.integers(0, 6)
    if k == 0:
        return str(int(rng.integers(0, 5000)))
    if k == 1:
        return "%.*f" % (int(rng.integers(1, 5)), rng.uniform(0, 900))
    if k == 2 and allow_negative:
        return "%.*f" % (int(rng.integers(1, 4)), -rng.uniform(0, 900))
    if k == 3 and allow_negative:
        return str(-int(rng.integers(0, 400)))
    if k == 4:
        return ["0", "0.0", "1", "0.5", "10", "0.0010", "007", "5.", ".5"][int(rng.integers(0, 9))]
    return "%.2f" % rng.uniform(0, 10)

TEXTS = ["TS_01.mrc", "4096 4096", "-123.4 56.7", "X:\\frames\\pos_12_003_-9.0.tif", "12-Jan-22  10:00:00", "0 0 0 0",
         "1.2.3", "1e-05", "nan", "-", "a b  c", "3,5", "SerialEM: x", "+3", "1 ", "0x10", "1_000", "--2"]
HEADER_KEYS = ["PixelSpacing", "Voltage", "ImageFile", "ImageSize", "DataMode", "Binning", "Tag", "Offset"]
IMG_KEYS = ["StagePosition", "StageZ", "Magnification", "Intensity", "SpotSize", "Defocus", "ImageShift", "RotationAngle",
            "ExposureTime", "Binning", "CameraIndex", "DividedBy2", "MinMaxMean", "TargetDefocus", "NumSubFrames", "Note"]

def gen_mdoc(rng, n, prior=True, datetime=True, exposure=True, distinct_tilts=True, section="ZValue", zorder="acq"):
    """returns text, header (dict), titles (list), images (list of dicts in file order; values as expected after reading)"""
    header = {}
    lines = []
    for k in rng.permutation(HEADER_KEYS)[: int(rng.integers(0, len(HEADER_KEYS) + 1))]:
        v = num_text(rng) if rng.integers(0, 3) else TEXTS[int(rng.integers(0, len(TEXTS)))]
        pad = " " * int(rng.integers(0, 3))
        lines.append("%s =%s%s%s" % (k, " " if rng.integers(0, 4) else "", v, pad))
        header[str(k)] = expected_value(v)
    lines.append("")
    titles = []
    for i in range(int(rng.integers(0, 4))):
        t = ["T = SerialEM: Digitized on Titan %d" % i, "T = Tilt axis angle = 85.3, binning = 1  spot = 8  camera = 0",
             "T =   padded title", "Montage"][int(rng.integers(0, 4))]
        lines.append("[%s]" % t)
        lines.append("")
        titles.append(t.strip())
    # tilt angles: dose-symmetric-like acquisition order, so the file order is not the tilt order
    if distinct_tilts:
        tilts = (rng.permutation(n) - n // 2) * 3.0 + (0.01 if rng.integers(0, 2) else 0.0)
    else:
        tilts = np.round(rng.uniform(-3, 3, n), 0)
    keys = [str(k) for k in rng.permutation(IMG_KEYS)[: int(rng.integers(0, 9))]]
    exposure_dose = "%.3f" % rng.uniform(0.5, 5) if rng.integers(0, 3) else "3"
    images = []
    zvals = list(range(n)) if zorder == "acq" else [int(z) for z in rng.permutation(n) + int(rng.integers(0, 3))]
    prior_acc = 0.0
    for i in range(n):
        img = {}
        lines.append("[%s = %d]" % (section, zvals[i]))
        img[section] = zvals[i]
        ttxt = ("%d" % tilts[i]) if (float(tilts[i]).is_integer() and rng.integers(0, 2)) else ("%.2f" % tilts[i])
        entries = [("TiltAngle", ttxt)]
        if exposure:
            e = exposure_dose if rng.integers(0, 5) else ["0", "0.0", "2.5"][int(rng.integers(0, 3))]
            entries.append(("ExposureDose", e))
        if prior:
            ptxt = "0" if i == 0 else "%.3f" % prior_acc
            entries.append(("PriorRecordDose", ptxt))
            prior_acc += float(entries[1][1]) if exposure else 1.0
        if datetime:
            entries.append(("DateTime", "12-Jan-22  %02d:%02d:%02d" % (10 + i // 3600, (i // 60) % 60, i % 60)))
        for k in keys:
            v = num_text(rng) if rng.integers(0, 3) else TEXTS[int(rng.integers(0, len(TEXTS)))]
            entries.append((k, v))
        entries.append(("SubFramePath", "X:\\frames\\ts_%03d_%.1f.tif" % (i, tilts[i])))
        for k, v in entries:                    # every section has the same keys in the same order
            lines.append("%s = %s" % (k, v))
            img[k] = float(v) if k == "TiltAngle" else expected_value(v)
        lines.append("")
        images.append(img)
    return "\n".join(lines) + "\n", header, titles, images

def same_value(a, b):
    if isinstance(a, str) or isinstance(b, str):
        return isinstance(a, str) and isinstance(b, str) and a == b
    if isinstance(a, (bool, np.bool_)) or isinstance(b, (bool, np.bool_)):
        return bool(a) == bool(b) and isinstance(a, (bool, np.bool_)) and isinstance(b, (bool, np.bool_))
    fa, fb = float(a), float(b)
    if isinstance(a, (int, np.integer)) != isinstance(b, (int, np.integer)):
        return False
    return fa == fb

def check_mdoc_content(m, header, titles, images, section, what, removed=None):
    """m: Mdoc object; images: expected rows in the expected order"""
    check(m.section_id == section, what + ": section id")
    check(m.titles == titles, what + ": titles %r vs %r" % (m.titles, titles))
    check(list(m.project_info.keys()) == list(header.keys()), what + ": header keys")
    for k in header:
        check(same_value(m.project_info[k], header[k]), what + ": header %s %r vs %r" % (k, m.project_info[k], header[k]))
    check(len(m.imgs) == len(images), what + ": number of images %d vs %d" % (len(m.imgs), len(images)))
    exp_cols = list(images[0].keys()) + ["Removed"] if images else None
    if images:
        check(list(m.imgs.columns) == exp_cols, what + ": columns %s vs %s" % (list(m.imgs.columns), exp_cols))
    for pos, img in enumerate(images[: len(m.imgs)]):
        row = m.imgs.iloc[pos]
        for k, v in img.items():
            if k == "TiltAngle":
                ok = float(row[k]) == float(v)
            else:
                ok = same_value(row[k], v)
            check(ok, what + ": image %d %s %r vs %r" % (pos, k, row[k], v))
        if removed is not None:
            check(bool(row["Removed"]) == removed[pos], what + ": removed flag of image %d" % pos)


def same_mdoc(a, b, msg):
    check(a.titles == b.titles and a.project_info == b.project_info and a.section_id == b.section_id, msg + ": header")
    check([type(v) for v in a.project_info.values()] == [type(v) for v in b.project_info.values()], msg + ": header types")
    try:
        pd.testing.assert_frame_equal(a.imgs, b.imgs, check_exact=True)
    except AssertionError as e:
        check(False, msg + ": " + str(e).replace("\n", " ")[:300])

def write_text(p, text):
    with open(p, "w") as f:
        f.write(text)
    return p

def fnum(x):
    return np.array([float(v) for v in x], dtype=float)

# ---- part 1: the mdoc reader ------------------------------------------------------------------------------------
def part_reader(rng, d):
    for case in range(48):
        n = [1, 2, 80, 3][case] if case < 4 else int(rng.integers(1, 81))
        section = "FrameSet" if case % 9 == 4 else "ZValue"
        text, header, titles, images = gen_mdoc(rng, n, prior=case % 3 != 1, datetime=case % 5 != 3, section=section,
                                                zorder="acq" if case % 4 else "mixed", distinct_tilts=case % 6 != 5)
        p = write_text(os.path.join(d, "r%03d.mdoc" % case), text)
        m = Mdoc(p)
        check_mdoc_content(m, header, titles, images, section, "read %d" % case, removed=[False] * n)
        same_mdoc(m, OrigMdoc(p), "reader vs original %d" % case)
        # written and read again: same header entries, same table
        p2 = os.path.join(d, "r%03d_out.mdoc" % case)
        m.write(p2)
        m2 = Mdoc(p2)
        check_mdoc_content(m2, header, titles, images, section, "round trip %d" % case, removed=[False] * n)
        same_mdoc(m2, OrigMdoc(p2), "round trip reader vs original %d" % case)
        p3 = os.path.join(d, "r%03d_out2.mdoc" % case)
        m2.write(p3)
        check(open(p2).read() == open(p3).read(), "second write gives the same text")
        # the low-level call
        a, b = Mdoc._read_mdoc(p), OrigMdoc._read_mdoc(p)
        check(a[0] == b[0] and a[1] == b[1] and a[3] == b[3] and a[2].equals(b[2]), "_read_mdoc tuple")

# ---- part 2: tilt and dose loaders ------------------------------------------------------------------------------
def part_loaders(rng, d):
    for case in range(48):
        n = [1, 2, 80, 3][case] if case < 4 else int(rng.integers(1, 81))
        prior = case % 3 != 1
        text, header, titles, images = gen_mdoc(rng, n, prior=prior, datetime=True, zorder="acq" if case % 4 else "mixed")
        p = write_text(os.path.join(d, "l%03d.mdoc" % case), text)
        tilts = np.array([im["TiltAngle"] for im in images])
        order = np.argsort(tilts)                                     # tilt angles are distinct here
        got = ioutils.tlt_load(p)
        check(np.array_equal(got, tilts[order]) and np.all(np.diff(got) > 0), "mdoc tilts ascending %d" % case)
        check(np.array_equal(ioutils.tlt_load(p, sort_angles=False), tilts), "mdoc tilts in file order")
        same_outcome(outcome(ioutils.tlt_load, p), outcome(orig_io.tlt_load, p), "tlt_load(mdoc) vs original")
        exposure = fnum(im["ExposureDose"] for im in images)
        if prior:
            expected = exposure + fnum(im["PriorRecordDose"] for im in images)
        else:
            expected = exposure * (np.arange(n) + 1)                  # DateTime grows with the position in the file
        for sort_mdoc in (True, False):
            got = ioutils.total_dose_load(p, sort_mdoc=sort_mdoc)
            exp = expected[order] if sort_mdoc else expected
            check(len(got) == n and np.allclose(fnum(got), exp, rtol=1e-12, atol=1e-12), "mdoc dose (prior=%s, sorted=%s) %d" % (prior, sort_mdoc, case))
            same_outcome(outcome(ioutils.total_dose_load, p, sort_mdoc), outcome(orig_io.total_dose_load, p, sort_mdoc), "total_dose_load(mdoc) vs original")
        same_outcome(outcome(ioutils.total_dose_load, p), outcome(ioutils.total_dose_load, p, True), "default sorts the mdoc")
        same_outcome(outcome(ioutils.total_dose_load, p), outcome(ioutils.total_dose_load, p), "repeated call")

        # one value per line
        vals = np.round(np.sort(rng.uniform(-70, 70, n)), 3)
        if case % 4 == 0:
            vals[int(rng.integers(0, n))] = 0.0
            vals = np.sort(vals)
        style = case % 5
        lines = [("%.3f" % v) if style != 1 else ("  %8.3f  " % v) for v in vals]
        txt = "\n".join(lines) + ("\n" if style != 2 else "") + ("\n\n" if style == 3 else "")
        pt = write_text(os.path.join(d, "l%03d.tlt" % case), txt)
        got = ioutils.tlt_load(pt)
        check(got.dtype == np.float32 and np.array_equal(got, vals.astype(np.float32)), "tilt file %d" % case)
        same_outcome(outcome(ioutils.tlt_load, pt), outcome(orig_io.tlt_load, pt), "tlt_load(file) vs original")
        same_outcome(outcome(ioutils.one_value_per_line_read, pt), outcome(orig_io.one_value_per_line_read, pt), "one_value_per_line_read vs original")
        same_outcome(outcome(ioutils.one_value_per_line_read, pt, np.float64), outcome(orig_io.one_value_per_line_read, pt, np.float64), "float64 read")
        dose = np.round(rng.permutation(n) * 2.75, 2)                 # acquisition order, contains 0
        pd_ = write_text(os.path.join(d, "l%03d_dose.txt" % case), "".join("%.2f\n" % v for v in dose))
        got = ioutils.total_dose_load(pd_)
        check(np.array_equal(got, dose.astype(np.float32)), "dose file keeps the order of the file %d" % case)
        same_outcome(outcome(ioutils.total_dose_load, pd_), outcome(orig_io.total_dose_load, pd_), "total_dose_load(file) vs original")
        # arrays and lists are taken as they are
        check(ioutils.total_dose_load(dose) is dose and np.array_equal(ioutils.total_dose_load(list(dose)), dose), "array / list dose")
        check(ioutils.tlt_load(vals) is vals and np.array_equal(ioutils.tlt_load(list(vals)), vals), "array / list tilts")
        if case % 10 == 0:
            ints = write_text(os.path.join(d, "l%03d_int.txt" % case), "".join("%d\n" % v for v in range(n)))
            same_outcome(outcome(ioutils.one_value_per_line_read, ints, int), outcome(orig_io.one_value_per_line_read, ints, int), "int read")
            check(np.array_equal(ioutils.one_value_per_line_read(ints, int), np.arange(n)), "int values")

# ---- part 3: inputs that fail (or nearly fail) ------------------------------------------------------------------
def part_failures(rng, d):
    empty_msg = "The input file is empty or contains no valid data."
    for name, content in (("e0.txt", ""), ("e1.txt", "\n"), ("e2.txt", "\n\n\n"), ("e3.txt", "   \n  \n"), ("e4.txt", " ")):
        p = write_text(os.path.join(d, name), content)
        for f, g in ((ioutils.one_value_per_line_read, orig_io.one_value_per_line_read), (ioutils.tlt_load, orig_io.tlt_load),
                     (ioutils.total_dose_load, orig_io.total_dose_load)):
            a, b = outcome(f, p), outcome(g, p)
            same_outcome(a, b, "empty file %s" % name)
            check(a[0] == "exc" and a[1] == "ValueError" and a[2] == empty_msg, "empty file %s -> %r" % (name, a))
    for name, content in (("t0.txt", "abc\n"), ("t1.txt", "1.0\nx\n"), ("t2.txt", "1.0 2.0\n3.0\n"), ("t3.txt", "1,5\n"), ("t4.txt", "nan\n1\n")):
        p = write_text(os.path.join(d, name), content)
        same_outcome(outcome(ioutils.one_value_per_line_read, p), outcome(orig_io.one_value_per_line_read, p), "odd file %s" % name)
        same_outcome(outcome(ioutils.tlt_load, p), outcome(orig_io.tlt_load, p), "odd file %s (tlt_load)" % name)
    for p in (os.path.join(d, "missing.txt"), d, os.path.join(d, "missing.mdoc")):
        same_outcome(outcome(ioutils.one_value_per_line_read, p), outcome(orig_io.one_value_per_line_read, p), "missing file")
        same_outcome(outcome(ioutils.total_dose_load, p), outcome(orig_io.total_dose_load, p), "missing file (dose)")
    for bad in (None, 3, 2.5, (1, 2)):
        same_outcome(outcome(ioutils.total_dose_load, bad), outcome(orig_io.total_dose_load, bad), "bad dose input")

    for case in range(12):
        n = int(rng.integers(1, 30))
        # neither PriorRecordDose nor DateTime / no ExposureDose: the same KeyError as before
        text, *_ = gen_mdoc(rng, n, prior=False, datetime=False)
        p = write_text(os.path.join(d, "f%03d_a.mdoc" % case), text)
        a = outcome(ioutils.total_dose_load, p)
        same_outcome(a, outcome(orig_io.total_dose_load, p), "no prior, no DateTime")
        check(a[:2] == ("exc", "KeyError") and "DateTime" in a[2], "KeyError names DateTime: %r" % (a,))
        text, *_ = gen_mdoc(rng, n, prior=bool(case % 2), datetime=True, exposure=False)
        p = write_text(os.path.join(d, "f%03d_b.mdoc" % case), text)
        a = outcome(ioutils.total_dose_load, p)
        same_outcome(a, outcome(orig_io.total_dose_load, p), "no ExposureDose")
        check(a[:2] == ("exc", "KeyError") and "ExposureDose" in a[2], "KeyError names ExposureDose: %r" % (a,))
        # PriorRecordDose only in some of the sections (holes), or only in the first one, or spelled differently
        text, _, _, images = gen_mdoc(rng, n + 2, prior=True, datetime=True)
        lines = text.split("\n")
        idx = [i for i, l in enumerate(lines) if l.startswith("PriorRecordDose")]
        drop = set(idx[1:]) if case % 3 == 0 else (set(idx[:1]) if case % 3 == 1 else set(idx[1::2]))
        p = write_text(os.path.join(d, "f%03d_c.mdoc" % case), "\n".join(l for i, l in enumerate(lines) if i not in drop))
        for s in (True, False):
            same_outcome(outcome(ioutils.total_dose_load, p, s), outcome(orig_io.total_dose_load, p, s), "holes in PriorRecordDose")
        p = write_text(os.path.join(d, "f%03d_d.mdoc" % case), text.replace("PriorRecordDose", ["priorrecorddose", "PriorRecordDose2", "PriorDose"][case % 3]))
        a = outcome(ioutils.total_dose_load, p)
        same_outcome(a, outcome(orig_io.total_dose_load, p), "other spelling of the prior dose")
        exposure = fnum(im["ExposureDose"] for im in images)
        order = np.argsort([im["TiltAngle"] for im in images])
        check(a[0] == "ok" and np.allclose(fnum(a[1]), (exposure * (np.arange(n + 2) + 1))[order]), "other spelling -> accumulated exposure")

    # files without an image section failed before and fail now (a ValueError instead of an UnboundLocalError)
    for name, content in (("n0.mdoc", ""), ("n1.mdoc", "PixelSpacing = 1.35\n\n[T = title]\n"), ("n2.mdoc", "\n\n"),
                          ("n3.mdoc", "Voltage = 300\n [ZValue = 0]\nTiltAngle = 1\n")):
        p = write_text(os.path.join(d, name), content)
        for f, g in ((Mdoc, OrigMdoc), (ioutils.tlt_load, orig_io.tlt_load), (ioutils.total_dose_load, orig_io.total_dose_load)):
            a, b = outcome(f, p), outcome(g, p)
            check(a[0] == "exc" and b[0] == "exc", "mdoc without sections must fail: %r / %r" % (a[:2], b[:2]))

def main():
    d = tempfile.mkdtemp(prefix="c17b_")
    try:
        rng = np.random.default_rng(1702)
        part_reader(rng, d)
        part_loaders(rng, d)
        part_failures(rng, d)
    finally:
        shutil.rmtree(d, ignore_errors=True)
    if FAIL:
        print("FAIL (%d checks)" % len(FAIL))
        sys.exit(1)
    print("PASS")

main()
