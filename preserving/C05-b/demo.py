"""Demo for property C05 (pose bookkeeping), change b.
Focus: shift_positions: row-wise apply replaced by one vectorised scipy rotation, inplace / copy branches merged

Part 1 checks the property against an independent model (own zxz matrices, complete position x+shift) over random
histories of up to 6 operations; part 2 compares the current implementation with verbatim copies of the original
functions on identical inputs (values, dtypes, index, column order, object identity, repeated calls).
Run: cd /tmp/wt6/C05 && /venv/bin/python /tmp/seedsP/C05/b/demo.py
"""
import sys, os

sys.path.insert(0, os.getcwd())

import copy
import decimal
import warnings

import numpy as np
import pandas as pd
from scipy.spatial.transform import Rotation as rot

from cryocat import ioutils
from cryocat.cryomotl import Motl

warnings.simplefilter("ignore")

POS = ["x", "y", "z"]
SHF = ["shift_x", "shift_y", "shift_z"]
ANG = ["phi", "theta", "psi"]
MIRROR = np.diag([1.0, 1.0, -1.0])
checks = 0


def ok(cond, msg):
    global checks
    checks += 1
    if not cond:
        print("FAIL:", msg)
        sys.exit(1)


# ----------------------------------------------------------------------------------------------------------------------
# independent model of a pose: complete position P (N x 3) and orientation matrix R (N x 3 x 3)
# ----------------------------------------------------------------------------------------------------------------------
def rz(a):
    c, s = np.cos(a), np.sin(a)
    return np.array([[c, -s, 0.0], [s, c, 0.0], [0.0, 0.0, 1.0]])


def rx(a):
    c, s = np.cos(a), np.sin(a)
    return np.array([[1.0, 0.0, 0.0], [0.0, c, -s], [0.0, s, c]])


def euler_to_matrices(angles_deg):
    """extrinsic zxz (phi, theta, psi): R = Rz(psi) Rx(theta) Rz(phi), written without scipy"""
    out = np.zeros((len(angles_deg), 3, 3))
    for i, (phi, theta, psi) in enumerate(np.deg2rad(np.asarray(angles_deg, dtype=float))):
        out[i] = rz(psi) @ rx(theta) @ rz(phi)
    return out


def observed_matrices(m):
    r = m.get_rotations()
    if isinstance(r, list):
        return np.zeros((0, 3, 3))
    return r.as_matrix()


def random_motl_df(rng, n, kind):
    cols = list(Motl.motl_columns)
    df = pd.DataFrame(np.zeros((n, len(cols))), columns=cols)
    pos = rng.uniform(-300, 300, size=(n, 3))
    shf = rng.uniform(-3, 3, size=(n, 3))
    sel = rng.integers(0, 6, size=(n, 3))
    pos = np.where(sel == 0, np.round(pos), pos)  # integer positions
    pos = np.where(sel == 1, np.round(pos) + 0.5, pos)  # half-integer positions
    shf = np.where(sel == 0, rng.choice([0.5, -0.5, 0.0, 1.5, -2.5], size=(n, 3)), shf)  # ties after adding
    shf = np.where(sel == 1, rng.choice([0.0, 1.0, -1.0, 2.0], size=(n, 3)), shf)  # ties stay ties
    shf = np.where(sel == 2, 0.0, shf)
    ang = rng.uniform(-360, 360, size=(n, 3))
    asel = rng.integers(0, 5, size=(n, 3))
    ang = np.where(asel == 0, rng.choice([0.0, 90.0, 180.0, -90.0, 360.0, -180.0], size=(n, 3)), ang)
    df[POS] = pos
    df[SHF] = shf
    df[ANG] = ang
    df["tomo_id"] = rng.choice([1, 2, 3, 7], size=n).astype(float)
    df["subtomo_id"] = np.arange(1, n + 1, dtype=float)
    df["object_id"] = rng.integers(1, 4, size=n).astype(float)
    df["score"] = rng.uniform(0, 1, size=n)
    df["class"] = 1.0
    if kind % 4 == 1:  # integer bookkeeping columns (mixed dtypes)
        for c in ("tomo_id", "subtomo_id", "object_id", "class"):
            df[c] = df[c].astype(int)
    if kind % 3 == 1 and n > 0:  # shuffled non-default index
        df.index = rng.permutation(n) + 10
    elif kind % 3 == 2 and n > 1:  # duplicated index labels
        df.index = rng.integers(0, max(1, n // 2), size=n)
    if kind % 5 == 3:  # other column order
        df = df[list(rng.permutation(cols))]
    return df


def random_dims(rng, df, form):
    """returns (argument for flip_handedness, dict tomo_id -> z dimension or a single float)"""
    tomos = [1, 2, 3, 7]
    if form in (0, 1, 2):
        d = [float(rng.integers(100, 900)), float(rng.integers(100, 900)), float(rng.choice([200, 301, 450.0, 77]))]
        arg = [d, np.array(d), pd.DataFrame([d])][form]
        return arg, {t: d[2] for t in tomos}
    order = list(rng.permutation(tomos + [11]))  # one tomogram which is not in the list, permuted rows
    table = np.array([[t, 500 + t, 600 + t, float(rng.choice([200, 301, 450, 77])) + t] for t in order], dtype=float)
    zmap = {int(r[0]): r[3] for r in table}
    if form == 3:
        return table, zmap
    if form == 4:
        return pd.DataFrame(table, columns=["a", "b", "c", "d"]), zmap
    tdf = pd.DataFrame(table, columns=["tomo_id", "x", "y", "z"])
    tdf["tomo_id"] = tdf["tomo_id"].astype(int)
    tdf.index = rng.permutation(len(tdf)) + 3
    return tdf, zmap


def compare_state(m, P, R, what):
    c = m.get_coordinates()
    ok(c.shape == P.shape, f"{what}: shape of coordinates {c.shape} vs {P.shape}")
    ok(np.allclose(c, P, rtol=1e-10, atol=1e-7), f"{what}: complete positions differ, max {np.abs(c - P).max() if len(P) else 0}")
    ok(np.allclose(m.df[POS].to_numpy(dtype=float) + m.df[SHF].to_numpy(dtype=float), P, rtol=1e-10, atol=1e-7), f"{what}: x+shift from df differs")
    Ro = observed_matrices(m)
    ok(np.allclose(Ro, R, atol=1e-8), f"{what}: orientations differ, max {np.abs(Ro - R).max() if len(R) else 0}")


def run_history(rng, n, kind, length):
    df = random_motl_df(rng, n, kind)
    m = Motl(df.copy())
    P = df[POS].to_numpy(dtype=float) + df[SHF].to_numpy(dtype=float)
    R = euler_to_matrices(df[ANG].to_numpy())
    tomo = df["tomo_id"].to_numpy()
    compare_state(m, P, R, "initial")
    trace = []
    for step in range(length):
        op = rng.choice(["update", "scale", "shift", "rotate", "flip", "shift2", "rotate2"])
        trace.append(op)
        what = f"n={n} kind={kind} history={trace}"
        if op == "update":
            m.update_coordinates()
            xyz = m.df[POS].to_numpy(dtype=float)
            ok(np.array_equal(xyz, np.round(xyz)), f"{what}: x,y,z not integer")
            ok((np.abs(m.df[SHF].to_numpy(dtype=float)) <= 0.5).all(), f"{what}: residual shift larger than 0.5")
        elif op == "scale":
            f = float(rng.choice([0.25, 0.5, 2.0, 3.0, 1.7, 0.37, rng.uniform(0.1, 5)]))
            m.scale_coordinates(f)
            P = P * f
        elif op == "shift":
            s = rng.uniform(-20, 20, size=3)
            s = [s, list(s), tuple(s), np.round(s)][int(rng.integers(0, 4))]
            m.shift_positions(s)
            P = P + np.einsum("nij,j->ni", R, np.asarray(s, dtype=float))
        elif op == "shift2":  # composition: s1 then s2 equals s1 + s2 in one call
            s1, s2 = rng.uniform(-20, 20, size=3), rng.uniform(-20, 20, size=3)
            twin = copy.deepcopy(m)
            m.shift_positions(s1)
            m.shift_positions(list(s2))
            twin.shift_positions(s1 + s2)
            ok(np.allclose(m.get_coordinates(), twin.get_coordinates(), rtol=1e-10, atol=1e-8), f"{what}: shifts do not compose")
            ok(np.allclose(observed_matrices(m), observed_matrices(twin), atol=1e-9), f"{what}: shift changed orientation")
            P = P + np.einsum("nij,j->ni", R, s1 + s2)
        elif op == "rotate":
            Q = rot.random(random_state=int(rng.integers(0, 2**31)))
            if rng.integers(0, 4) == 0:
                Q = rot.from_euler("zxz", [float(rng.choice([0, 90, 180])), float(rng.choice([0, 180, 90])), 45.0], degrees=True)
            m.apply_rotation(Q)
            R = R @ Q.as_matrix()
        elif op == "rotate2":  # composition: Q1 then Q2 equals Q1*Q2 in one call
            Q1 = rot.random(random_state=int(rng.integers(0, 2**31)))
            Q2 = rot.random(random_state=int(rng.integers(0, 2**31)))
            twin = copy.deepcopy(m)
            m.apply_rotation(Q1)
            m.apply_rotation(Q2)
            twin.apply_rotation(Q1 * Q2)
            ok(np.allclose(observed_matrices(m), observed_matrices(twin), atol=1e-9), f"{what}: rotations do not compose")
            ok(np.allclose(m.get_coordinates(), twin.get_coordinates(), rtol=0, atol=0), f"{what}: rotation moved particles")
            R = R @ Q1.as_matrix() @ Q2.as_matrix()
        elif op == "flip":
            arg, zmap = random_dims(rng, df, int(rng.integers(0, 6)))
            before = m.df.copy()
            m.flip_handedness(copy.deepcopy(arg))
            zd = np.array([zmap[int(t)] for t in tomo], dtype=float)
            P = P.copy()
            if len(P):
                P[:, 2] = zd + 1 - P[:, 2]
            R = MIRROR @ R @ MIRROR
            compare_state(m, P, R, what)
            # twice restores the list
            twice = copy.deepcopy(m)
            twice.flip_handedness(copy.deepcopy(arg))
            ok(list(twice.df.columns) == list(before.columns) and twice.df.index.equals(before.index), f"{what}: flip changed labels")
            ok(np.allclose(twice.df.to_numpy(dtype=float), before.to_numpy(dtype=float), rtol=1e-12, atol=1e-9), f"{what}: double flip does not restore")
            if rng.integers(0, 2):  # sometimes really continue from the doubly flipped and flipped again list
                twice.flip_handedness(copy.deepcopy(arg))
                m = twice
        compare_state(m, P, R, what)


# ----------------------------------------------------------------------------------------------------------------------
# copies of the original implementations (text of the unmodified tree), used as reference on identical inputs
# ----------------------------------------------------------------------------------------------------------------------
def orig_update_coordinates(self):
    def round_and_recenter(row):
        new_row = row.copy()
        shifted_x = row["x"] + row["shift_x"]
        shifted_y = row["y"] + row["shift_y"]
        shifted_z = row["z"] + row["shift_z"]
        new_row["x"] = float(decimal.Decimal(shifted_x).to_integral_value(rounding=decimal.ROUND_HALF_UP))
        new_row["y"] = float(decimal.Decimal(shifted_y).to_integral_value(rounding=decimal.ROUND_HALF_UP))
        new_row["z"] = float(decimal.Decimal(shifted_z).to_integral_value(rounding=decimal.ROUND_HALF_UP))
        new_row["shift_x"] = shifted_x - new_row["x"]
        new_row["shift_y"] = shifted_y - new_row["y"]
        new_row["shift_z"] = shifted_z - new_row["z"]
        return new_row

    self.df = self.df.apply(round_and_recenter, axis=1)
    warnings.warn("The coordinates for subtomogram extraction were changed, new extraction is necessary!")


def orig_shift_positions(self, shift, inplace=True):
    def shift_coords(row):
        v = np.array(shift)
        euler_angles = np.array([[row["phi"], row["theta"], row["psi"]]])
        orientations = rot.from_euler(seq="zxz", angles=euler_angles, degrees=True)
        rshifts = orientations.apply(v)

        row["shift_x"] = row["shift_x"] + rshifts[0][0]
        row["shift_y"] = row["shift_y"] + rshifts[0][1]
        row["shift_z"] = row["shift_z"] + rshifts[0][2]
        return row

    if inplace:
        self.df = self.df.apply(shift_coords, axis=1).reset_index(drop=True)
    else:
        new_motl = copy.deepcopy(self)
        new_motl.df = new_motl.df.apply(shift_coords, axis=1).reset_index(drop=True)
        return new_motl


def orig_flip_handedness(self, tomo_dimensions=None):
    self.df.loc[:, "theta"] = -self.df.loc[:, "theta"]

    # Position flip
    if tomo_dimensions is not None:
        dims = ioutils.dimensions_load(tomo_dimensions)
        if dims.shape == (1, 3):
            z_dim = float(dims["z"].iloc[0]) + 1
            self.df.loc[:, "z"] = z_dim - self.df.loc[:, "z"]
            self.df.loc[:, "shift_z"] = -self.df.loc[:, "shift_z"]
        else:
            tomos = dims["tomo_id"].unique()
            for t in tomos:
                z_dim = float(dims.loc[dims["tomo_id"] == t, "z"].iloc[0]) + 1
                self.df.loc[self.df["tomo_id"] == t, "z"] = z_dim - self.df.loc[self.df["tomo_id"] == t, "z"]
                self.df.loc[self.df["tomo_id"] == t, "shift_z"] = -self.df.loc[self.df["tomo_id"] == t, "shift_z"]


def orig_get_coordinates(self, tomo_number=None):
    if tomo_number is None:
        coord = self.df.loc[:, ["x", "y", "z"]].values + self.df.loc[:, ["shift_x", "shift_y", "shift_z"]].values
    else:
        coord = (
            self.df.loc[self.df.loc[:, "tomo_id"] == tomo_number, ["x", "y", "z"]].values
            + self.df.loc[
                self.df.loc[:, "tomo_id"] == tomo_number,
                ["shift_x", "shift_y", "shift_z"],
            ].values
        )

    return coord


def orig_scale_coordinates(self, scaling_factor):
    for coord in ("x", "y", "z"):
        self.df[coord] = self.df[coord] * scaling_factor
        shift_column = "shift_" + coord
        self.df[shift_column] = self.df[shift_column] * scaling_factor


def same_frame(a, b, what, exact=True):
    ok(list(a.columns) == list(b.columns), f"{what}: columns differ")
    ok(a.index.equals(b.index) and type(a.index) is type(b.index), f"{what}: index differs {a.index} vs {b.index}")
    ok(list(a.dtypes) == list(b.dtypes), f"{what}: dtypes differ\n{a.dtypes}\n{b.dtypes}")
    av, bv = a.to_numpy(dtype=float), b.to_numpy(dtype=float)
    if exact:
        ok(np.array_equal(av, bv, equal_nan=True), f"{what}: values differ, max {np.nanmax(np.abs(av - bv)) if av.size else 0}")
        ok(np.array_equal(np.signbit(av), np.signbit(bv)), f"{what}: sign of zero differs")
    else:
        ok(np.allclose(av, bv, rtol=1e-13, atol=1e-11, equal_nan=True), f"{what}: values differ, max {np.nanmax(np.abs(av - bv)) if av.size else 0}")


def run_reference_comparisons(rng):
    bitwise_shift = True
    for trial in range(260):
        n = int(rng.choice([0, 1, 2, 5, 17, 40]))
        kind = trial
        df = random_motl_df(rng, n, kind)
        if n and trial % 7 == 0:  # nasty values for rounding
            nasty = np.array([0.49999999999999994, -0.49999999999999994, 0.5, -0.5, 1.5, -1.5, 2.5, -2.5, -0.3, 0.3, 0.0, -0.0,
                              4503599627370496.5, 1e15 + 0.5, -1e15 - 0.5, 123456789.5, -1e-320, 1e-320, 2.0**53, -(2.0**53) - 2])
            df[POS] = rng.choice(nasty, size=(n, 3))
            df[SHF] = rng.choice([0.0, -0.0, 0.5, -0.5, 0.25, 1e-17], size=(n, 3))

        # update_coordinates -------------------------------------------------------------------------------------------
        m_ref, m_cur = Motl(df.copy()), Motl(df.copy())
        held_ref, held_cur = m_ref.df, m_cur.df
        orig_update_coordinates(m_ref)
        with warnings.catch_warnings(record=True) as w:
            warnings.simplefilter("always")
            m_cur.update_coordinates()
        ok(len(w) == 1 and "new extraction is necessary" in str(w[0].message), "update_coordinates: warning changed")
        same_frame(m_ref.df, m_cur.df, f"update_coordinates trial {trial}")
        ok(held_cur.equals(df) and held_ref.equals(df), "update_coordinates: previously assigned frame was modified")
        ok((m_cur.df is held_cur) == (m_ref.df is held_ref), "update_coordinates: identity of df differs")
        orig_update_coordinates(m_ref)  # repeated call on the same objects
        m_cur.update_coordinates()
        same_frame(m_ref.df, m_cur.df, f"update_coordinates twice trial {trial}")

        if trial % 7 == 0:
            continue  # the huge values are only meant for the rounding

        # shift_positions ----------------------------------------------------------------------------------------------
        s = rng.uniform(-30, 30, size=3)
        s = [s, list(s), tuple(s), np.array([1.0, 0.0, 0.0]), [0, 0, 0], np.array([[2.0, -3.0, 4.5]])][trial % 6]
        m_ref, m_cur = Motl(df.copy()), Motl(df.copy())
        m_ref.extra, m_cur.extra = {"k": [1, 2]}, {"k": [1, 2]}
        held_cur = m_cur.df
        if trial % 2:
            r_ref = orig_shift_positions(m_ref, s)
            r_cur = m_cur.shift_positions(s)
            ok(r_ref is None and r_cur is None, "shift_positions: inplace call returned something")
            ok(held_cur.equals(df), "shift_positions: previously assigned frame was modified")
        else:
            r_ref = orig_shift_positions(m_ref, s, inplace=False)
            r_cur = m_cur.shift_positions(s, inplace=False)
            ok(type(r_cur) is type(r_ref) and r_cur.extra == {"k": [1, 2]} and r_cur.extra is not m_cur.extra, "shift_positions: returned object differs")
            same_frame(m_ref.df, m_cur.df, f"shift_positions untouched self, trial {trial}")
            ok(m_cur.df is held_cur and m_cur.df.equals(df), "shift_positions(inplace=False) modified self")
            m_ref, m_cur = r_ref, r_cur
        same_frame(m_ref.df, m_cur.df, f"shift_positions trial {trial}", exact=False)
        bitwise_shift &= np.array_equal(m_ref.df.to_numpy(), m_cur.df.to_numpy())
        orig_shift_positions(m_ref, [1.5, -2, 3])
        m_cur.shift_positions([1.5, -2, 3])
        same_frame(m_ref.df, m_cur.df, f"shift_positions twice trial {trial}", exact=False)

        # flip_handedness ----------------------------------------------------------------------------------------------
        for form in range(7):
            if form == 6:
                arg = None
            else:
                arg, _ = random_dims(rng, df, form)
            if form == 3 and trial % 3 == 0:  # table which misses tomograms and repeats one (first entry counts)
                arg = np.array([[2, 10, 10, 150.0], [7, 10, 10, 99.5], [2, 10, 10, 999.0]])
            if form == 4 and trial % 3 == 0:  # table with a single row
                arg = np.array([[3.0, 10, 10, 64]])
            m_ref, m_cur = Motl(df.copy()), Motl(df.copy())
            held_cur = m_cur.df
            a1, a2 = copy.deepcopy(arg), copy.deepcopy(arg)
            orig_flip_handedness(m_ref, a1)
            m_cur.flip_handedness(a2)
            same_frame(m_ref.df, m_cur.df, f"flip_handedness form {form} trial {trial}")
            ok(m_cur.df is held_cur, "flip_handedness: df object was replaced")
            if isinstance(a1, pd.DataFrame):
                ok(a1.equals(a2) and list(a1.columns) == list(a2.columns), "flip_handedness: dimension table treated differently")
            orig_flip_handedness(m_ref, a1)
            m_cur.flip_handedness(a2)
            same_frame(m_ref.df, m_cur.df, f"flip_handedness twice form {form} trial {trial}")

        # get_coordinates / scale_coordinates --------------------------------------------------------------------------
        m_ref, m_cur = Motl(df.copy()), Motl(df.copy())
        for t in (None, 1, 2.0, 7, 5, np.int64(3)):
            c_ref, c_cur = orig_get_coordinates(m_ref, t), m_cur.get_coordinates(t)
            ok(c_ref.shape == c_cur.shape and c_ref.dtype == c_cur.dtype and np.array_equal(c_ref, c_cur), f"get_coordinates({t}) differs")
        for f in (2.0, 0.37, 3, np.float64(1.25)):
            held_cur = m_cur.df
            orig_scale_coordinates(m_ref, f)
            m_cur.scale_coordinates(f)
            same_frame(m_ref.df, m_cur.df, f"scale_coordinates({f}) trial {trial}")
            ok(m_cur.df is held_cur, "scale_coordinates: df object was replaced")
    return bitwise_shift


def main():
    rng = np.random.default_rng(20260928)
    # 1. the property itself, against the independent model, over random histories of up to 6 operations
    for trial in range(220):
        n = int(rng.choice([1, 2, 3, 8, 25]))
        run_history(rng, n, trial, int(rng.integers(1, 7)))
    run_history(rng, 0, 0, 3)  # empty list
    # 2. current implementation against the text of the original implementation on identical inputs
    bitwise = run_reference_comparisons(rng)
    print(f"checks: {checks}; shift_positions bitwise identical to the original: {bitwise}")
    print("PASS")


if __name__ == "__main__":
    main()
