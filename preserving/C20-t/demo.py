"""C20 demo (change a): membrane thickness pairs are one-to-one, forward, within range and cone, greedy by distance,
invariant under rigid motion, scale with the voxel size, '2to1' swaps the roles of the surfaces.

Checks the property of cryocat.memthick.measure_thickness_cpu / process_matches_cpu2cpu / find_matches_parallel
against an independent brute-force computation on many random and edge-case inputs, compares the functions of the
tree with the ORIGINAL function texts kept below, and checks that the caller's inputs are left untouched.

run:  cd /tmp/wt11/C20 && /venv/bin/python /tmp/seedsV/C20/a/demo.py
"""
import os
import sys

sys.path.insert(0, os.getcwd())

import contextlib
import io
import itertools

import numpy as np
from scipy.spatial.transform import Rotation

import cryocat.memthick as mt

VARIANT = "a"

# ----------------------------------------------------------------------------------------------------------------
# original function texts (tree at d4d8304), executed in a copy of the module namespace
# ----------------------------------------------------------------------------------------------------------------
ORIGINAL = r'''
def measure_thickness_cpu(
    points,
    normals,
    surface1_mask,
    surface2_mask,
    voxel_size,
    max_thickness_nm=8.0,
    max_angle_degrees=5.0,
    direction="1to2",
    num_threads=None,
    logger=None,
    max_matches_per_point=25,
):
    """CPU-based thickness measurement with parallelization."""
    log_msg = lambda msg: logger.info(msg) if logger else print(msg)

    # Set number of threads if specified
    if num_threads is not None:
        numba.set_num_threads(num_threads)
        log_msg(f"Using {num_threads} CPU threads")
    else:
        log_msg(f"Using all available CPU threads (numba default)")

    # Switch source and target surfaces if direction is 2to1
    if direction == "2to1":
        log_msg("Measuring thickness from surface 2 to surface 1...")
        source_mask, target_mask = surface2_mask, surface1_mask
    else:
        log_msg("Measuring thickness from surface 1 to surface 2...")
        source_mask, target_mask = surface1_mask, surface2_mask

    n_points = len(points)
    max_angle_cos = np.cos(np.radians(max_angle_degrees))

    # Convert max thickness from nm to voxels
    max_thickness_voxels = max_thickness_nm / voxel_size

    log_msg(f"Starting CPU thickness measurement with {n_points} points...")
    log_msg(f"Source points: {np.sum(source_mask)}, Target points: {np.sum(target_mask)}")
    log_msg(f"Max thickness: {max_thickness_nm} nm ({max_thickness_voxels:.2f} voxels)")
    log_msg(f"Max angle: {max_angle_degrees} degrees")

    # Get indices of target points
    target_indices = np.where(target_mask)[0]
    log_msg(f"Number of target points: {len(target_indices)}")

    # Get target points
    target_points = points[target_indices]

    # Get source points and indices
    source_indices = np.where(source_mask)[0]
    source_points = points[source_indices]

    log_msg(f"Number of source points: {len(source_points)}")

    # Use SciPy's KDTree for CPU implementation
    log_msg("Using SciPy KDTree implementation with query_ball_point")

    # Build KD-tree
    log_msg("Building KD-tree for target points...")
    target_tree = ScipyKDTree(target_points)

    # Pre-filter matches using ball query
    log_msg("Pre-filtering potential matches using KD-tree query_ball_point...")
    start_time = time.time()

    # Query ball point for each source point
    log_msg(f"Querying KD-tree for {len(source_points)} source points...")
    neighbor_lists = target_tree.query_ball_point(source_points, max_thickness_voxels)

    # Process the results
    flat_matches = []
    for i, neighbors in enumerate(neighbor_lists):
        source_idx = source_indices[i]
        source_normal = normals[source_idx]
        source_point = points[source_idx]

        valid_matches = 0

        for n in neighbors:
            # Get original index
            target_idx = target_indices[n]
            target_point = points[target_idx]

            # Vector from source to target
            dx = target_point[0] - source_point[0]
            dy = target_point[1] - source_point[1]
            dz = target_point[2] - source_point[2]

            # Distance
            dist = np.sqrt(dx * dx + dy * dy + dz * dz)

            # Project vector onto normal
            proj = dx * source_normal[0] + dy * source_normal[1] + dz * source_normal[2]

            # Only consider points in the direction of the normal
            if proj > 0:
                # Calculate lateral distance
                lateral_dx = dx - proj * source_normal[0]
                lateral_dy = dy - proj * source_normal[1]
                lateral_dz = dz - proj * source_normal[2]
                lateral_dist_sq = lateral_dx**2 + lateral_dy**2 + lateral_dz**2

                # Check if within cone angle
                if proj > max_angle_cos * dist:
                    flat_matches.append((dist, source_idx, target_idx))
                    valid_matches += 1

                    # Limit matches per point
                    if valid_matches >= max_matches_per_point:
                        break

    log_msg(f"KD-tree pre-filtering completed in {time.time() - start_time:.2f} seconds")
    log_msg(f"Found {len(flat_matches)} potential matches across all source points")

    # Process matches to ensure one-to-one matching
    log_msg("Processing matches to ensure one-to-one matching...")
    thickness_results, valid_mask, point_pairs = process_matches_cpu2cpu(flat_matches, n_points, voxel_size)

    log_msg(f"Found {np.sum(valid_mask)} valid thickness measurements")
    if np.sum(valid_mask) > 0:
        log_msg(f"Mean thickness: {np.mean(thickness_results[valid_mask]):.2f} nm")
        log_msg(
            f"Min: {np.min(thickness_results[valid_mask]):.2f} nm, Max: {np.max(thickness_results[valid_mask]):.2f} nm"
        )

    return thickness_results, valid_mask, point_pairs


def process_matches_cpu2cpu(flat_matches, n_points, voxel_size):
    # Create arrays for final results (still in voxel units)
    thickness_results = np.zeros(n_points, dtype=np.float32)
    valid_mask = np.zeros(n_points, dtype=np.bool_)
    point_pairs = np.zeros(n_points, dtype=np.int32)

    # Sort matches by distance
    flat_matches.sort()

    # Track assigned points
    source_assigned = set()
    target_assigned = set()

    # Assign matches
    for dist, source_idx, target_idx in flat_matches:
        if source_idx not in source_assigned and target_idx not in target_assigned:
            # Assign match (still in voxel units)
            thickness_results[source_idx] = dist
            valid_mask[source_idx] = True
            point_pairs[source_idx] = target_idx

            source_assigned.add(source_idx)
            target_assigned.add(target_idx)

    # Convert thickness results to physical units before returning
    thickness_results = thickness_results * voxel_size

    return thickness_results, valid_mask, point_pairs
'''

_ns = dict(vars(mt))
exec(compile(ORIGINAL, "<original memthick text>", "exec"), _ns)
orig_measure = _ns["measure_thickness_cpu"]
orig_process = _ns["process_matches_cpu2cpu"]
assert orig_measure is not mt.measure_thickness_cpu and orig_process is not mt.process_matches_cpu2cpu
assert orig_measure.__globals__["process_matches_cpu2cpu"] is orig_process

FAILURES = []
COUNTS = {}


def fail(msg):
    FAILURES.append(msg)
    if len(FAILURES) <= 20:
        print("FAIL:", msg)


def count(key, n=1):
    COUNTS[key] = COUNTS.get(key, 0) + n


class Log:
    """stand-in for logging.Logger that keeps the lines"""

    def __init__(self):
        self.lines = []

    def info(self, msg):
        self.lines.append(str(msg))

    warning = error = debug = info


def same_result(r1, r2):
    return all(a.dtype == b.dtype and a.shape == b.shape and np.array_equal(a, b) for a, b in zip(r1, r2))


# ----------------------------------------------------------------------------------------------------------------
# input generation: two roughly parallel sheets (curved or tilted) with jitter, unit normals with angular noise
# ----------------------------------------------------------------------------------------------------------------
def unit(v):
    return v / np.linalg.norm(v, axis=-1, keepdims=True)


def make_sheets(rng, n, kind, gap, extent, jitter, noise_deg, labelling):
    n1 = n // 2 + int(rng.integers(-n // 8, n // 8 + 1))
    n2 = n - n1
    a, b, c = rng.normal(0, 0.004, 3) if kind == "curved" else (0.0, 0.0, 0.0)
    tx, ty = rng.normal(0, 0.3, 2) if kind == "tilted" else (0.0, 0.0)

    def height(x, y):
        return a * x * x + b * y * y + c * x * y + tx * x + ty * y

    def grad(x, y):
        return np.stack([2 * a * x + c * y + tx, 2 * b * y + c * x + ty], axis=-1)

    pts, nrm, sheet = [], [], []
    for k, m in ((0, n1), (1, n2)):
        xy = rng.uniform(0, extent, (m, 2))
        z = height(xy[:, 0], xy[:, 1])
        g = grad(xy[:, 0], xy[:, 1])
        up = unit(np.concatenate([-g, np.ones((m, 1))], axis=1))  # normal of the sheet pointing to +z
        p = np.concatenate([xy, z[:, None]], axis=1) + (gap * up if k == 1 else 0.0)
        p = p + rng.normal(0, jitter, p.shape)
        nn = up if k == 0 else -up  # each sheet looks at the other one
        # angular noise: rotate about a random axis by N(0, noise_deg)
        rot = Rotation.from_rotvec(unit(rng.normal(size=(m, 3))) * np.radians(rng.normal(0, noise_deg, (m, 1))))
        nn = unit(rot.apply(nn))
        pts.append(p)
        nrm.append(nn)
        sheet.append(np.full(m, k))
    points = np.concatenate(pts)
    normals = np.concatenate(nrm)
    sheet = np.concatenate(sheet)
    perm = rng.permutation(n)
    points, normals, sheet = points[perm], normals[perm], sheet[perm]
    s1 = sheet == 0
    s2 = sheet == 1
    if labelling == "swapped":
        s1, s2 = s2, s1
    elif labelling == "holes":  # some points belong to neither surface
        drop = rng.random(n) < 0.15
        s1, s2 = s1 & ~drop, s2 & ~drop
    elif labelling == "both":  # some points carry both labels
        both = rng.random(n) < 0.1
        s1, s2 = s1 | both, s2 | both
    elif labelling == "random":  # labels unrelated to the sheets
        lab = rng.integers(0, 3, n)
        s1, s2 = lab == 0, lab == 1
    return np.ascontiguousarray(points), np.ascontiguousarray(normals), s1.copy(), s2.copy()


# ----------------------------------------------------------------------------------------------------------------
# independent computation
# ----------------------------------------------------------------------------------------------------------------
def admissible_pairs(points, normals, src_mask, tgt_mask, max_vox, max_angle_deg):
    """brute force: distance matrix, forward test, cone test -- returns (src idx, tgt idx, D, A, borderline)"""
    src = np.flatnonzero(src_mask)
    tgt = np.flatnonzero(tgt_mask)
    d = points[tgt][None, :, :] - points[src][:, None, :]
    dx, dy, dz = d[..., 0], d[..., 1], d[..., 2]
    D = np.sqrt(dx * dx + dy * dy + dz * dz)
    nn = normals[src]
    proj = dx * nn[:, None, 0] + dy * nn[:, None, 1] + dz * nn[:, None, 2]
    cosm = np.cos(np.radians(max_angle_deg))
    A = (D <= max_vox) & (proj > 0) & (proj > cosm * D)
    border = (np.abs(D - max_vox) < 1e-9 * max(1.0, max_vox)) | (
        (np.abs(proj - cosm * D) < 1e-9 * D) & (D > 0) & (D <= max_vox * (1 + 1e-9))
    )  # D == 0 (a point carrying both labels, coincident points) gives proj == 0 exactly: never forward
    return src, tgt, D, A, bool(border.any())


def greedy_by_argmin(src, tgt, D, A, n_points):
    """independent greedy: repeatedly take the globally closest admissible pair of two free points"""
    W = np.where(A, D, np.inf)
    pair = np.full(n_points, -1, dtype=np.int64)
    dist = np.zeros(n_points)
    if W.size == 0:
        return pair, dist
    while True:
        k = int(np.argmin(W))  # first minimum in (source, target) order == tuple order of (dist, s, t)
        i, j = divmod(k, W.shape[1])
        if not np.isfinite(W[i, j]):
            break
        pair[src[i]] = tgt[j]
        dist[src[i]] = W[i, j]
        W[i, :] = np.inf
        W[:, j] = np.inf
    return pair, dist


def check_property(tag, points, normals, src_mask, tgt_mask, voxel, max_nm, max_angle, result):
    thick, valid, pairs = result
    n = len(points)
    max_vox = max_nm / voxel
    src, tgt, D, A, border = admissible_pairs(points, normals, src_mask, tgt_mask, max_vox, max_angle)
    if border:
        count("borderline configurations skipped")
        return False
    if A.size and A.sum(axis=1).max() >= 25:
        count("configurations with >= 25 candidates skipped")
        return False
    ok = True

    def bad(msg):
        nonlocal ok
        ok = False
        fail(f"{tag}: {msg}")

    if thick.shape != (n,) or valid.shape != (n,) or pairs.shape != (n,):
        bad("result shapes")
        return True
    if thick.dtype != np.float32 or valid.dtype != np.bool_ or pairs.dtype != np.int32:
        bad(f"result dtypes {thick.dtype} {valid.dtype} {pairs.dtype}")
    vs = np.flatnonzero(valid)
    vt = pairs[vs].astype(np.int64)
    # at most one target per source (by construction of the arrays), sources are sources, targets are targets
    if not src_mask[vs].all():
        bad("a paired point is not a source point")
    if not tgt_mask[vt].all():
        bad("a partner is not a target point")
    if len(np.unique(vt)) != len(vt):
        bad("a target is used twice")
    if np.any(thick[~valid] != 0) or np.any(pairs[~valid] != 0):
        bad("unpaired entries are not zero")
    # thickness = Euclidean distance * voxel size, within range
    eu = np.linalg.norm(points[vt] - points[vs], axis=1)
    if not np.allclose(thick[vs], eu * voxel, rtol=1e-6, atol=0):
        bad("thickness is not distance * voxel size")
    if np.any(thick[vs] > max_nm * (1 + 1e-6)):
        bad("thickness exceeds the maximum")
    # forward and inside the cone (angle computed with arctan2 instead of the cosine test)
    dvec = points[vt] - points[vs]
    along = np.einsum("ij,ij->i", dvec, normals[vs])
    lateral = np.linalg.norm(dvec - along[:, None] * normals[vs], axis=1)
    ang = np.degrees(np.arctan2(lateral, along))
    if np.any(along <= 0):
        bad("a target lies behind its source")
    if np.any(ang > max_angle + 1e-6):
        bad(f"a pair is outside the cone: {ang.max():.4f} > {max_angle}")
    # greedy completeness
    src_pos = {s: i for i, s in enumerate(src)}
    tgt_pos = {t: j for j, t in enumerate(tgt)}
    free_s = np.array([not valid[s] for s in src], dtype=bool)
    used_t = np.zeros(len(tgt), dtype=bool)
    used_t[[tgt_pos[t] for t in vt if t in tgt_pos]] = True
    if A.size:
        if (A & free_s[:, None] & ~used_t[None, :]).any():
            bad("an admissible pair of two unmatched points is left over")
        for s, t in zip(vs, vt):
            if s in src_pos and t in tgt_pos:
                i = src_pos[s]
                closer = A[i] & ~used_t & (D[i] < D[i, tgt_pos[t]])
                if closer.any():
                    bad("a matched source has a closer admissible unmatched target")
                if not A[i, tgt_pos[t]]:
                    bad("a chosen pair is not admissible")
    # full independent greedy
    gp, gd = greedy_by_argmin(src, tgt, D, A, n)
    if not np.array_equal(gp >= 0, valid):
        bad(f"set of paired sources differs from independent greedy ({(gp >= 0).sum()} vs {valid.sum()})")
    elif not np.array_equal(gp[valid], vt):
        bad("partners differ from independent greedy")
    elif not np.array_equal((gd.astype(np.float32) * voxel).astype(np.float32), thick):
        if not np.allclose(gd * voxel, thick, rtol=1e-6, atol=0):
            bad("thickness differs from independent greedy")
    count("pairs checked", int(valid.sum()))
    return True


def run_numba_kernel(points, normals, src_mask, tgt_mask, max_vox, max_angle, max_matches=25):
    n = len(points)
    md = np.zeros((n, max_matches), dtype=np.float64)
    mi = np.zeros((n, max_matches), dtype=np.int64)
    mc = np.zeros(n, dtype=np.int64)
    tgt_idx = np.flatnonzero(tgt_mask).astype(np.int64)
    mt.find_matches_parallel(
        points, normals, src_mask, tgt_mask, tgt_idx, float(max_vox), float(np.cos(np.radians(max_angle))), md, mi, mc
    )
    flat = [(md[i, k], i, mi[i, k]) for i in range(n) for k in range(mc[i])]
    return flat, mc


def snapshot(*arrays):
    return [(a.copy(), a.dtype, a.shape, a.flags.writeable) for a in arrays]


def untouched(snap, *arrays):
    return all(
        np.array_equal(s[0], a) and s[1] == a.dtype and s[2] == a.shape and s[3] == a.flags.writeable
        for s, a in zip(snap, arrays)
    )


# lines the original writes (minus the one with the wall-clock time) must appear, in order, in the log of the tree
def is_subsequence(small, big):
    it = iter(big)
    return all(any(x == y for y in it) for x in small)


def strip_time(lines):
    return [l for l in lines if "pre-filtering completed in" not in l]


# ----------------------------------------------------------------------------------------------------------------
def main():
    rng = np.random.default_rng(20_2024)
    kinds = ["flat", "curved", "tilted"]
    labellings = ["plain", "swapped", "holes", "both", "random"]
    n_conf = 0
    n_checked = 0
    for it in range(210):
        n = int(rng.choice([20, 21, 35, 60, 120, 250, 400, 600]))
        kind = kinds[it % 3]
        labelling = labellings[(it // 3) % 5]
        voxel = float(rng.choice([0.5, 0.78, 1.0, 1.33, 2.17, 7.84]))
        gap = float(rng.uniform(3.0, 6.0))  # in voxels
        extent = float(np.sqrt(n / 2) * rng.uniform(1.4, 3.0))  # about one point per 2..9 square voxels
        max_angle = float(rng.choice([1, 2, 5, 7.5, 10, 15, 20, 30]))
        if n >= 250 and extent < np.sqrt(n / 2) * 2.0 and max_angle > 20:
            max_angle = 15.0
        max_nm = float(gap * voxel * rng.choice([0.7, 1.05, 1.3, 1.6]))
        direction = "1to2" if rng.random() < 0.6 else "2to1"
        jitter = float(rng.choice([0.0, 0.05, 0.3]))
        noise = float(rng.choice([0.0, 1.0, 4.0]))
        points, normals, s1, s2 = make_sheets(rng, n, kind, gap, extent, jitter, noise, labelling)
        tag = f"conf {it} n={n} {kind} {labelling} vox={voxel} max={max_nm:.2f} ang={max_angle} {direction}"
        snap = snapshot(points, normals, s1, s2)
        n_conf += 1

        log = Log()
        res = mt.measure_thickness_cpu(points, normals, s1, s2, voxel, max_nm, max_angle, direction, logger=log)
        if not untouched(snap, points, normals, s1, s2):
            fail(f"{tag}: inputs were modified")
        src_mask, tgt_mask = (s1, s2) if direction == "1to2" else (s2, s1)
        if check_property(tag, points, normals, src_mask, tgt_mask, voxel, max_nm, max_angle, res):
            n_checked += 1

        # repeated call on the same objects
        res_again = mt.measure_thickness_cpu(points, normals, s1, s2, voxel, max_nm, max_angle, direction, logger=Log())
        if not same_result(res, res_again):
            fail(f"{tag}: second call on the same objects differs")

        # same as the original text, outputs and (original) log lines
        olog = Log()
        ores = orig_measure(points, normals, s1, s2, voxel, max_nm, max_angle, direction, logger=olog)
        if not same_result(res, ores):
            fail(f"{tag}: result differs from the original function")
        if not is_subsequence(strip_time(olog.lines), strip_time(log.lines)):
            fail(f"{tag}: log lines of the original are not kept")
        if not untouched(snap, points, normals, s1, s2):
            fail(f"{tag}: inputs were modified (2)")

        # direction '2to1' swaps the roles of the surfaces
        other = "2to1" if direction == "1to2" else "1to2"
        res_sw = mt.measure_thickness_cpu(points, normals, s2, s1, voxel, max_nm, max_angle, other, logger=Log())
        if not same_result(res, res_sw):
            fail(f"{tag}: direction does not swap the roles of the surfaces")

        # rigid motion of all points and normals
        if it % 2 == 0:
            R = Rotation.random(random_state=int(rng.integers(1 << 30)))
            shift = rng.uniform(-50, 50, 3)
            p2 = np.ascontiguousarray(R.apply(points) + shift)
            n2 = np.ascontiguousarray(R.apply(normals))
            res_m = mt.measure_thickness_cpu(p2, n2, s1, s2, voxel, max_nm, max_angle, direction, logger=Log())
            if not (np.array_equal(res_m[1], res[1]) and np.array_equal(res_m[2], res[2])):
                fail(f"{tag}: pairing changes under rigid motion")
            elif not np.allclose(res_m[0], res[0], rtol=1e-5, atol=0):
                fail(f"{tag}: thickness changes under rigid motion")
            count("rigid motions")

        # voxel size: same geometry in voxels, thickness scales
        for k in (2.0, 0.25, 1.7):
            res_v = mt.measure_thickness_cpu(
                points, normals, s1, s2, voxel * k, max_nm * k, max_angle, direction, logger=Log()
            )
            if not (np.array_equal(res_v[1], res[1]) and np.array_equal(res_v[2], res[2])):
                fail(f"{tag}: pairing changes with the voxel size (k={k})")
            elif not np.allclose(res_v[0], res[0] * k, rtol=1e-6, atol=0):
                fail(f"{tag}: thickness does not scale with the voxel size (k={k})")

        # numba candidate kernel: same candidates as brute force, same pairs after the one-to-one step
        if it % 3 == 0:
            max_vox = max_nm / voxel
            flat, mc = run_numba_kernel(points, normals, src_mask, tgt_mask, max_vox, max_angle)
            src, tgt, D, A, border = admissible_pairs(points, normals, src_mask, tgt_mask, max_vox, max_angle)
            if not border and (A.size == 0 or A.sum(axis=1).max() < 25):
                want = {(int(src[i]), int(tgt[j])) for i, j in zip(*np.nonzero(A))}
                got = {(int(s), int(t)) for _, s, t in flat}
                if want != got or len(got) != len(flat):
                    fail(f"{tag}: numba kernel candidates differ from brute force")
                if np.any(mc[~src_mask] != 0):
                    fail(f"{tag}: numba kernel reports candidates for a non-source point")
                res_k = mt.process_matches_cpu2cpu(flat, n, voxel)
                if not same_result(res_k, res):
                    fail(f"{tag}: numba kernel + one-to-one step differs from measure_thickness_cpu")
                count("numba kernel configurations")
            if not untouched(snap, points, normals, s1, s2):
                fail(f"{tag}: inputs were modified by the numba kernel")

    # ------------------------------------------------------------------------------------------------------------
    # tree vs original text on inputs at and beyond the edge of the quantifier (exceptions compared as well)
    # ------------------------------------------------------------------------------------------------------------
    def outcome(f, *args, **kw):
        buf = io.StringIO()
        try:
            with contextlib.redirect_stdout(buf):
                r = f(*args, **kw)
            return ("ok", r, buf.getvalue())
        except Exception as e:  # noqa: BLE001
            return ("exc", type(e).__name__, buf.getvalue())

    edge = 0
    for it in range(40):
        n = int(rng.choice([20, 40, 90]))
        points, normals, s1, s2 = make_sheets(rng, n, kinds[it % 3], 4.0, np.sqrt(n) * 1.2, 0.2, 2.0, labellings[it % 5])
        voxels = [1.0, np.float64(1.3), np.float32(0.7), 2, np.int64(3), np.array(1.5)]
        voxel = voxels[it % len(voxels)]
        kw = dict(max_thickness_nm=[0.01, 4.0, 6.0, 25.0][it % 4], max_angle_degrees=[1, 5.0, 30, 60, 90, 0][it % 6])
        kw["direction"] = ["1to2", "2to1", "other"][it % 3]
        kw["max_matches_per_point"] = [25, 1, 3, 1000][it % 4]
        if it % 7 == 0:
            points = points.astype(np.float32)
        if it % 7 == 1:
            normals = np.asfortranarray(normals)
        if it % 7 == 2:
            s1 = np.zeros(n, dtype=bool)  # no source / no target at all
        if it % 7 == 3:
            s2 = np.zeros(n, dtype=bool)
        if it % 7 == 4:
            s1, s2 = s1.astype(np.int64), s2.astype(np.uint8)
        if it % 7 == 5:
            points = points.copy()
            points[n // 2 :] = points[: n - n // 2]  # coincident points
        if it % 2 == 0:
            kw["logger"] = Log()
        if it % 5 == 0:
            kw["num_threads"] = 1
        snap = snapshot(points, normals, s1, s2)
        kw_o = dict(kw)
        if "logger" in kw:
            kw_o["logger"] = Log()
        got = outcome(mt.measure_thickness_cpu, points, normals, s1, s2, voxel, **kw)
        exp = outcome(orig_measure, points, normals, s1, s2, voxel, **kw_o)
        if got[0] != exp[0]:
            fail(f"edge {it}: {got[0]} {got[1] if got[0] == 'exc' else ''} vs original {exp[0]} {exp[1] if exp[0] == 'exc' else ''}")
        elif got[0] == "exc":
            if got[1] != exp[1]:
                fail(f"edge {it}: exception {got[1]} vs original {exp[1]}")
            count("edge inputs raising in both")
        else:
            if not same_result(got[1], exp[1]):
                fail(f"edge {it}: result differs from the original function")
            lines_t = kw["logger"].lines if "logger" in kw else got[2].splitlines()
            lines_o = kw_o["logger"].lines if "logger" in kw else exp[2].splitlines()
            if not is_subsequence(strip_time(lines_o), strip_time(lines_t)):
                fail(f"edge {it}: log lines of the original are not kept")
        if not untouched(snap, points, normals, s1, s2):
            fail(f"edge {it}: inputs were modified")
        edge += 1

    # process_matches_cpu2cpu called directly: ties, duplicates, unsorted input, empty list, several scalar types
    direct = 0
    for it in range(300):
        n = int(rng.integers(1, 30))
        m = int(rng.integers(0, 60))
        if it % 3 == 0:
            dists = rng.integers(1, 5, m).astype(np.float64)  # many ties
        else:
            dists = rng.uniform(0.5, 9.0, m)
        ss = rng.integers(0, n, m)
        ts = rng.integers(0, n, m)
        if it % 4 == 0:
            flat = [(float(d), int(s), int(t)) for d, s, t in zip(dists, ss, ts)]
        else:
            flat = [(d, s, t) for d, s, t in zip(dists, ss, ts)]
        if it % 5 == 0 and flat:
            flat = flat + flat[: len(flat) // 2]
        voxel = [1.0, 0.37, np.float64(2.5), np.float32(1.1), 3, np.array(0.5)][it % 6]
        f1, f2 = list(flat), list(flat)
        r1 = mt.process_matches_cpu2cpu(f1, n, voxel)
        r2 = orig_process(f2, n, voxel)
        if not same_result(r1, r2):
            fail(f"direct {it}: process_matches_cpu2cpu differs from the original function")
        if len(f1) != len(f2) or any(x is not y for x, y in zip(f1, f2)):
            fail(f"direct {it}: the match list is left in a different state than by the original function")
        r3 = mt.process_matches_cpu2cpu(f1, n, voxel)  # again on the (now sorted) list
        if not same_result(r1, r3):
            fail(f"direct {it}: second call differs")
        # independent: one-to-one, greedy over the sorted order
        th, va, pa = r1
        vs = np.flatnonzero(va)
        if len(set(pa[vs].tolist())) != len(vs):
            fail(f"direct {it}: a target is used twice")
        used_s, used_t = set(vs.tolist()), set(pa[vs].tolist())
        for d, s, t in flat:
            if int(s) not in used_s and int(t) not in used_t:
                fail(f"direct {it}: a pair of two free points is left over")
                break
            if int(s) in used_s and int(t) not in used_t and np.float32(d) * 1.0 < np.float32(th[s] / voxel) * (1 - 1e-5):
                fail(f"direct {it}: a matched source has a closer free target")
                break
        direct += 1

    print(f"variant {VARIANT}: configurations {n_conf} (property checked on {n_checked}), edge inputs {edge}, direct calls {direct}")
    for k in sorted(COUNTS):
        print(f"  {k}: {COUNTS[k]}")
    if n_checked < 150 or COUNTS.get("pairs checked", 0) < 2000:
        fail("too few configurations / pairs were actually checked")
    if FAILURES:
        print(f"FAIL ({len(FAILURES)} problems)")
        return 1
    print("PASS")
    return 0


if __name__ == "__main__":
    sys.exit(main())
