import sys, os

sys.path.insert(0, os.getcwd())
import re
import math
import shutil
import tempfile
import warnings

warnings.simplefilter("ignore")
import numpy as np
import pandas as pd

from cryocat import cryomotl
from cryocat.cryomotl import RelionMotl, Motl

FAILS = []
NCHECK = [0]


def check(cond, msg):
    NCHECK[0] += 1
    if not cond:
        FAILS.append(msg)
        if len(FAILS) <= 15:
            print("FAIL:", msg)


# ---------------------------------------------------------------- independent statement of the conventions
def Rx(a):
    a = math.radians(a)
    c, s = math.cos(a), math.sin(a)
    return np.array([[1, 0, 0], [0, c, -s], [0, s, c]])


def Ry(a):
    a = math.radians(a)
    c, s = math.cos(a), math.sin(a)
    return np.array([[c, 0, s], [0, 1, 0], [-s, 0, c]])


def Rz(a):
    a = math.radians(a)
    c, s = math.cos(a), math.sin(a)
    return np.array([[c, -s, 0], [s, c, 0], [0, 0, 1]])


def particle_matrix(phi, theta, psi):
    # cryoCAT: extrinsic zxz (first about z by phi, then about x by theta, then about z by psi)
    return Rz(psi) @ Rx(theta) @ Rz(phi)


def relion_matrix(rot_, tilt, psi):
    # RELION triplet read as intrinsic ZYZ
    return Rz(rot_) @ Ry(tilt) @ Rz(psi)


def mats_close(a, b, tol):
    return np.abs(a - b).max() < tol


# ---------------------------------------------------------------- input generators
THETA_EDGES = [0.0, 180.0, -180.0, 360.0, 0.0, 180.0, 90.0, -90.0, 540.0, 1e-9]


def make_motl_df(rng, n, halfsets=True):
    df = Motl.create_empty_motl_df().reindex(range(n)).fillna(0.0)
    df[["x", "y", "z"]] = np.round(rng.uniform(-500, 2000, (n, 3)), 0)
    df[["shift_x", "shift_y", "shift_z"]] = rng.uniform(-8, 8, (n, 3))
    ang = rng.uniform(-720, 720, (n, 3))
    # gimbal lock and out of range tilt angles
    k = min(n, len(THETA_EDGES))
    idx = rng.choice(n, size=k, replace=False)
    ang[idx, 1] = np.array(THETA_EDGES)[:k]
    if n > 3:
        ang[rng.integers(0, n), :] = 0.0
    df["phi"], df["theta"], df["psi"] = ang[:, 0], ang[:, 1], ang[:, 2]
    df["tomo_id"] = np.sort(rng.integers(1, 60, n)).astype(float)
    sub = np.sort(rng.choice(np.arange(1, 5 * n + 5), size=n, replace=False)).astype(float)
    if not halfsets:
        sub = sub * 2.0 + 1.0  # only odd numbers
    df["subtomo_id"] = sub
    df["class"] = rng.integers(1, 6, n).astype(float)
    df["object_id"] = rng.integers(1, 4, n).astype(float)
    df["geom2"] = rng.integers(1, 9, n).astype(float)
    df["score"] = rng.uniform(0, 1, n)
    return df


FORMATS = {
    3.0: [("", ""), ("/data/tomo/$xxx.rec", "/sub/$xxx/$xxx_$yyyyy_3.2A.mrc"), ("$xxxx_bin4.mrc", "sub/$xx_$yyy_1.0A.mrc")],
    3.1: [("", ""), ("/data/tomo/$xxxx.rec", "/sub/$xxxx/$xxxx_$yyyyyy_3.2A.mrc"), ("/t/$xx/$xxx.rec", "s/$xxx_$yy_$yyyy_2A.mrc")],
    4.0: [("", ""), ("TS_$xxx", "TS_$xxx/$yyyyy"), ("TS_$xx", "TS_$xx/$y")],
}


def first_number(s):
    return float(re.search(r"\d+", s.rsplit("/", 1)[-1]).group())


def name_ids(version, tomo_entry, subtomo_entry):
    """Independent reading of the generated names -> (tomo id, subtomo id)."""
    if isinstance(tomo_entry, str):
        t = first_number(tomo_entry)
    else:
        t = float(tomo_entry)
    if isinstance(subtomo_entry, str):
        last = subtomo_entry.rsplit("/", 1)[-1]
        if version >= 4.0:
            s = float(last)
        else:
            s = float(re.findall(r"\d+", last)[1])
    else:
        s = float(subtomo_entry)
    return t, s


def expected_name(fmt, letter, value):
    seqs = sorted(re.findall(r"\$" + letter + "+", fmt), key=len)
    if not seqs:
        return fmt
    seq = seqs[-1]
    return fmt.replace(seq, str(int(value)).zfill(len(seq) - 1))


# ---------------------------------------------------------------- export checks
def check_export_table(tag, df, rdf, version, pixel_size, tomo_format, subtomo_format, atol=1e-6, angtol=1e-6):
    n = df.shape[0]
    check(rdf.shape[0] == n, f"{tag}: number of rows")
    pos = df[["x", "y", "z"]].to_numpy() + df[["shift_x", "shift_y", "shift_z"]].to_numpy()
    got = rdf[["rlnCoordinateX", "rlnCoordinateY", "rlnCoordinateZ"]].to_numpy(dtype=float)
    check(np.allclose(got, pos, atol=atol, rtol=0), f"{tag}: rlnCoordinate != x+shift")
    onames = ["rlnOriginX", "rlnOriginY", "rlnOriginZ"] if version < 3.1 else ["rlnOriginXAngst", "rlnOriginYAngst", "rlnOriginZAngst"]
    check(all(c in rdf.columns for c in onames), f"{tag}: origin columns missing")
    check(np.all(rdf[onames].to_numpy(dtype=float) == 0.0), f"{tag}: origins not zero")
    ra = rdf[["rlnAngleRot", "rlnAngleTilt", "rlnAnglePsi"]].to_numpy(dtype=float)
    ok = True
    for i in range(n):
        P = particle_matrix(df["phi"].iloc[i], df["theta"].iloc[i], df["psi"].iloc[i])
        Rr = relion_matrix(*ra[i])
        if not mats_close(Rr, P.T, angtol):
            ok = False
            break
    check(ok, f"{tag}: ZYZ rotation is not the inverse of the zxz rotation")
    check(np.array_equal(rdf["rlnClassNumber"].to_numpy(dtype=float), df["class"].to_numpy()), f"{tag}: class lost")
    tcol = "rlnTomoName" if version >= 4.0 else "rlnMicrographName"
    scol = "rlnTomoParticleName" if version >= 4.0 else "rlnImageName"
    tvals, svals = rdf[tcol].tolist(), rdf[scol].tolist()
    ok_t = ok_s = ok_n = True
    for i in range(n):
        t, s = name_ids(version, tvals[i], svals[i])
        ok_t &= t == df["tomo_id"].iloc[i]
        ok_s &= s == df["subtomo_id"].iloc[i]
        if tomo_format != "":
            ok_n &= tvals[i] == expected_name(tomo_format, "x", df["tomo_id"].iloc[i])
        if subtomo_format != "":
            e = expected_name(subtomo_format, "y", df["subtomo_id"].iloc[i])
            e = expected_name(e, "x", df["tomo_id"].iloc[i])
            ok_n &= svals[i] == e
    check(ok_t, f"{tag}: tomogram number lost in names")
    check(ok_s, f"{tag}: subtomogram number lost in names")
    check(ok_n, f"{tag}: name padding differs from the format")
    hs = rdf["rlnRandomSubset"].to_numpy(dtype=float)
    exp = np.where(df["subtomo_id"].to_numpy() % 2 == 1, 1.0, 2.0)
    check(np.array_equal(hs, exp), f"{tag}: half-set != odd/even subtomogram number")
    if version < 4.0:
        check(np.allclose(rdf["rlnPixelSize"].to_numpy(dtype=float), pixel_size), f"{tag}: rlnPixelSize")


# ---------------------------------------------------------------- independent RELION data and STAR text
def make_relion_input(rng, n, version, pixel_size, two_halves=True, unique_sub=True):
    """Independent RELION particle table (dict of columns) + the ground truth."""
    coords = np.round(rng.uniform(-300, 3000, (n, 3)), 3)
    origin = np.round(rng.uniform(-12, 12, (n, 3)), 4)
    ang = np.round(rng.uniform(-360, 360, (n, 3)), 4)
    k = min(n, 6)
    idx = rng.choice(n, size=k, replace=False)
    ang[idx, 1] = np.array([0.0, 180.0, -180.0, 0.0, 90.0, 360.0])[:k]
    tomo = np.sort(rng.integers(1, 80, n))
    if unique_sub:
        sub = np.sort(rng.choice(np.arange(1, 4 * n + 4), size=n, replace=False))
    else:
        sub = rng.integers(1, max(2, n // 2 + 1), n)
        if n > 1:
            sub[-1] = sub[0]
    cls = rng.integers(1, 7, n)
    if two_halves and n >= 2:
        half = rng.integers(1, 3, n)
        half[0], half[1] = (1, 2) if rng.random() < 0.5 else (2, 1)
    else:
        half = np.ones(n, dtype=int)
    cols = {}
    if version >= 4.0:
        cols["rlnTomoName"] = [f"TS_{t:03d}" for t in tomo]
        cols["rlnTomoParticleName"] = [f"TS_{t:03d}/{s}" for t, s in zip(tomo, sub)]
    else:
        cols["rlnMicrographName"] = [f"/data/tomos/{t:04d}_{pixel_size:.2f}A.rec" for t in tomo]
        cols["rlnImageName"] = [f"/data/sub/{t:04d}/{t:04d}_{s:06d}_{pixel_size:.2f}A.mrc" for t, s in zip(tomo, sub)]
    for j, c in enumerate("XYZ"):
        cols["rlnCoordinate" + c] = coords[:, j]
    cols["rlnAngleRot"], cols["rlnAngleTilt"], cols["rlnAnglePsi"] = ang[:, 0], ang[:, 1], ang[:, 2]
    for j, c in enumerate("XYZ"):
        cols["rlnOrigin" + c + ("Angst" if version >= 3.1 else "")] = origin[:, j]
    cols["rlnClassNumber"] = cls
    cols["rlnRandomSubset"] = half
    if version >= 3.1:
        cols["rlnOpticsGroup"] = np.ones(n, dtype=int)
    truth = dict(coords=coords, origin=origin, ang=ang, tomo=tomo, sub=sub, cls=cls, half=half)
    return cols, truth


def write_star_independent(path, cols, version, pixel_size, optics):
    lines = []
    if optics and version >= 3.1:
        lines += ["", "# version 30001", "", "data_optics", "", "loop_"]
        onames = ["rlnOpticsGroup", "rlnOpticsGroupName", "rlnImagePixelSize", "rlnImageDimensionality"]
        for i, c in enumerate(onames, 1):
            lines.append(f"_{c} #{i}")
        lines.append(f"1 opticsGroup1 {pixel_size!r} 3")
        lines.append("")
    lines += ["", "data_" if version < 3.1 else "data_particles", "", "loop_"]
    names = list(cols.keys())
    for i, c in enumerate(names, 1):
        lines.append(f"_{c} #{i}")
    n = len(cols[names[0]])
    for r in range(n):
        lines.append("  ".join(str(cols[c][r]) if isinstance(cols[c][r], str) else repr(float(cols[c][r])) if isinstance(cols[c][r], (float, np.floating)) else str(int(cols[c][r])) for c in names))
    lines.append("")
    with open(path, "w") as f:
        f.write("\n".join(lines))


def parse_star_independent(path):
    """Minimal independent STAR reader -> {specifier: (columns, rows-as-strings)}."""
    out = {}
    spec, cols, rows, in_loop = None, [], [], False
    with open(path) as f:
        for raw in f:
            line = raw.split("#")[0].strip() if not raw.lstrip().startswith("_") else raw.strip()
            if raw.lstrip().startswith("_"):
                cols.append(raw.strip().split()[0][1:])
                continue
            if not line:
                continue
            if line.startswith("data_"):
                if spec is not None:
                    out[spec] = (cols, rows)
                spec, cols, rows = line, [], []
                continue
            if line == "loop_":
                continue
            rows.append(line.split())
    if spec is not None:
        out[spec] = (cols, rows)
    return out


def star_to_df(block):
    cols, rows = block
    df = pd.DataFrame(rows, columns=cols)
    for c in df.columns:
        try:
            df[c] = pd.to_numeric(df[c])
        except (ValueError, TypeError):
            pass
    return df


# ---------------------------------------------------------------- import checks
def check_import(tag, m, truth, version, pixel_size, atol=1e-6, angtol=1e-6):
    df = m.df
    n = len(truth["tomo"])
    check(df.shape[0] == n, f"{tag}: number of rows")
    check(np.allclose(df[["x", "y", "z"]].to_numpy(dtype=float), truth["coords"], atol=atol, rtol=0), f"{tag}: x,y,z != rlnCoordinate")
    exp_shift = -truth["origin"] / (pixel_size if version >= 3.1 else 1.0)
    check(np.allclose(df[["shift_x", "shift_y", "shift_z"]].to_numpy(dtype=float), exp_shift, atol=atol, rtol=0), f"{tag}: shift != -origin(/pixel size)")
    ok = True
    for i in range(n):
        P = particle_matrix(df["phi"].iloc[i], df["theta"].iloc[i], df["psi"].iloc[i])
        Rr = relion_matrix(*truth["ang"][i])
        if not mats_close(P, Rr.T, angtol):
            ok = False
            break
    check(ok, f"{tag}: zxz rotation is not the inverse of the RELION rotation")
    check(np.array_equal(df["tomo_id"].to_numpy(dtype=float), truth["tomo"].astype(float)), f"{tag}: tomo_id")
    check(np.array_equal(df["class"].to_numpy(dtype=float), truth["cls"].astype(float)), f"{tag}: class")
    check(np.array_equal(df["geom3"].to_numpy(dtype=float), truth["sub"].astype(float)), f"{tag}: geom3 != subtomogram number")
    sid = df["subtomo_id"].to_numpy(dtype=float)
    check(len(np.unique(sid)) == n, f"{tag}: subtomo_id not unique")
    if len(np.unique(truth["half"])) == 2:
        check(np.array_equal(sid % 2, truth["half"] % 2), f"{tag}: half-set 1/2 != odd/even subtomo_id")
        check(np.all(np.diff(sid) > 0), f"{tag}: renumbered subtomo_id not increasing")
    elif len(np.unique(truth["sub"])) == n:
        check(np.array_equal(sid, truth["sub"].astype(float)), f"{tag}: subtomo_id != subtomogram number")
    else:
        check(np.array_equal(sid, np.arange(1, n + 1, dtype=float)), f"{tag}: renumbering 1..n")


def check_same_pose(tag, df0, df1, atol, angtol):
    p0 = df0[["x", "y", "z"]].to_numpy() + df0[["shift_x", "shift_y", "shift_z"]].to_numpy()
    p1 = df1[["x", "y", "z"]].to_numpy(dtype=float) + df1[["shift_x", "shift_y", "shift_z"]].to_numpy(dtype=float)
    check(np.allclose(p0, p1, atol=atol, rtol=0), f"{tag}: position after round trip")
    ok = True
    for i in range(df0.shape[0]):
        A = particle_matrix(df0["phi"].iloc[i], df0["theta"].iloc[i], df0["psi"].iloc[i])
        B = particle_matrix(df1["phi"].iloc[i], df1["theta"].iloc[i], df1["psi"].iloc[i])
        if not mats_close(A, B, angtol):
            ok = False
            break
    check(ok, f"{tag}: orientation after round trip")
    check(np.array_equal(df0["tomo_id"].to_numpy(), df1["tomo_id"].to_numpy(dtype=float)), f"{tag}: tomo_id after round trip")
    check(np.array_equal(df0["class"].to_numpy(), df1["class"].to_numpy(dtype=float)), f"{tag}: class after round trip")
    check(np.array_equal(df0["subtomo_id"].to_numpy(), df1["geom3"].to_numpy(dtype=float)), f"{tag}: subtomogram number (geom3) after round trip")
    check(np.array_equal(df0["subtomo_id"].to_numpy() % 2, df1["subtomo_id"].to_numpy(dtype=float) % 2), f"{tag}: half-set parity after round trip")


# ---------------------------------------------------------------- the property, run over many inputs
def run_property(seed=1234, sizes=(1, 2, 3, 7, 40, 300), file_sizes=(1, 5, 60)):
    rng = np.random.default_rng(seed)
    tmp = tempfile.mkdtemp(prefix="c03demo_")
    try:
        for version in (3.0, 3.1, 4.0):
            for n in sizes:
                for fi, (tf, sf) in enumerate(FORMATS[version]):
                    ps = float(np.round(rng.uniform(0.4, 12.0), 3))
                    halves = bool(rng.random() < 0.8)
                    df = make_motl_df(rng, n, halfsets=halves)
                    tag = f"export v{version} n={n} fmt{fi}"
                    m = RelionMotl(df.copy(), version=version, pixel_size=ps, binning=1.0)
                    rdf = m.create_relion_df(tomo_format=tf, subtomo_format=sf)
                    check_export_table(tag, df, rdf, version, ps, tf, sf)
                    check(m.df[Motl.motl_columns].equals(df[Motl.motl_columns]), f"{tag}: export changed the particle list")
                    # second call on the same object, other options given explicitly, after an in-place edit
                    m.df.loc[:, "shift_x"] = m.df["shift_x"] + 1.5
                    m.df.loc[:, "phi"] = m.df["phi"] - 33.0
                    df2 = m.df.copy()
                    rdf2 = m.create_relion_df(tomo_format=tf, subtomo_format=sf, version=version, pixel_size=ps, binning=1.0)
                    check_export_table(tag + " (2nd call, edited)", df2, rdf2, version, ps, tf, sf)
                    # export in another version from the same object (call order / option must not leak)
                    other = {3.0: 4.0, 3.1: 3.0, 4.0: 3.1}[version]
                    tfo, sfo = FORMATS[other][1]
                    rdf3 = m.create_relion_df(tomo_format=tfo, subtomo_format=sfo, version=other, pixel_size=ps, binning=1.0)
                    check_export_table(tag + f" (as v{other})", df2, rdf3, other, ps, tfo, sfo)
                    rdf4 = m.create_relion_df(tomo_format=tf, subtomo_format=sf)
                    check_export_table(tag + " (3rd call)", df2, rdf4, version, ps, tf, sf)
                    # in-memory round trip (names must be parseable: not for empty format of 3.x subtomo names)
                    back = RelionMotl(rdf2.copy(), version=version, pixel_size=ps)
                    check_same_pose(tag + " memory round trip", df2, back.df, 1e-6, 1e-6)
                    check(np.allclose(back.df[["shift_x", "shift_y", "shift_z"]].to_numpy(dtype=float), 0.0), f"{tag}: shifts after re-import")

                # wrapper
                df = make_motl_df(rng, n)
                ps = float(np.round(rng.uniform(0.4, 12.0), 3))
                tf, sf = FORMATS[version][1]
                w = cryomotl.emmotl2relion(df.copy(), relion_version=version, pixel_size=ps, binning=1.0)
                rdfw = w.create_relion_df(tomo_format=tf, subtomo_format=sf)
                check_export_table(f"emmotl2relion v{version} n={n}", df, rdfw, version, ps, tf, sf)

                # import of independent RELION tables
                for two_halves, unique_sub in ((True, True), (False, True), (False, False), (True, False)):
                    ps = float(np.round(rng.uniform(0.4, 12.0), 3))
                    cols, truth = make_relion_input(rng, n, version, ps, two_halves, unique_sub)
                    rin = pd.DataFrame(cols)
                    tag = f"import v{version} n={n} halves={two_halves} unique={unique_sub}"
                    mi = RelionMotl(rin.copy(), version=version, pixel_size=ps)
                    check_import(tag, mi, truth, version, ps)
                    # version detected from the columns
                    mi2 = RelionMotl(rin.copy(), pixel_size=ps)
                    check(mi2.version == version, f"{tag}: version detected {mi2.version}")
                    check_import(tag + " (auto version)", mi2, truth, version, ps)
                    # second conversion on the same object with an edited table
                    rin2 = rin.copy()
                    ocols = [c for c in rin2.columns if c.startswith("rlnOrigin")]
                    rin2[ocols] = rin2[ocols] * -2.0
                    rin2["rlnAngleTilt"] = rin2["rlnAngleTilt"] + 10.0
                    truth2 = dict(truth)
                    truth2["origin"] = truth["origin"] * -2.0
                    truth2["ang"] = truth["ang"].copy()
                    truth2["ang"][:, 1] += 10.0
                    mi.convert_to_motl(rin2)
                    check_import(tag + " (2nd conversion)", mi, truth2, version, ps)
                    em = cryomotl.relion2emmotl(rin.copy(), relion_version=version, pixel_size=ps)
                    check_import(tag + " relion2emmotl", em, truth, version, ps)

            # through STAR files
            for n in file_sizes:
                for optics in (False, True):
                    ps = float(np.round(rng.uniform(0.4, 12.0), 3))
                    cols, truth = make_relion_input(rng, n, version, ps, True, True)
                    p = os.path.join(tmp, f"in_{version}_{n}_{int(optics)}.star")
                    write_star_independent(p, cols, version, ps, optics)
                    tag = f"file import v{version} n={n} optics={optics}"
                    mf = RelionMotl(p, pixel_size=ps)
                    check(mf.version == version, f"{tag}: version detected {mf.version}")
                    check_import(tag, mf, truth, version, ps)
                    if optics and version >= 3.1:
                        mo = RelionMotl(p)  # pixel size from the optics block
                        check_import(tag + " (pixel size from optics)", mo, truth, version, ps)
                    sg = cryomotl.relion2stopgap(p)
                    if version < 3.1:
                        check(np.allclose(sg.df[["shift_x", "shift_y", "shift_z"]].to_numpy(dtype=float), -truth["origin"], atol=1e-6), f"{tag}: relion2stopgap shifts")
                    check(np.allclose(sg.df[["x", "y", "z"]].to_numpy(dtype=float), truth["coords"], atol=1e-6), f"{tag}: relion2stopgap coordinates")

                    df = make_motl_df(rng, n)
                    tf, sf = FORMATS[version][1]
                    q = os.path.join(tmp, f"out_{version}_{n}_{int(optics)}.star")
                    write_optics = optics and version >= 3.1
                    cryomotl.emmotl2relion(
                        df.copy(), output_motl_path=q, relion_version=version, pixel_size=ps, binning=1.0,
                        tomo_format=tf, subtomo_format=sf, write_optics=write_optics,
                    )
                    blocks = parse_star_independent(q)
                    spec = "data_" if version < 3.1 else "data_particles"
                    check(spec in blocks, f"file export v{version}: block {spec} missing ({list(blocks)})")
                    check(("data_optics" in blocks) == write_optics, f"file export v{version}: optics block on/off")
                    rdf = star_to_df(blocks[spec])
                    check_export_table(f"file export v{version} n={n} optics={optics}", df, rdf, version, ps, tf, sf, atol=1e-5, angtol=1e-5)
                    backf = RelionMotl(q, pixel_size=ps)
                    check(backf.version == version, f"file round trip v{version}: version detected {backf.version}")
                    check_same_pose(f"file round trip v{version} n={n} optics={optics}", df, backf.df, 1e-5, 1e-5)
    finally:
        shutil.rmtree(tmp, ignore_errors=True)


# ---------------------------------------------------------------- change-specific part: convert_shifts signature
import inspect


def orig_convert_shifts(self, relion_df):
    # text of RelionMotl.convert_shifts before the change
    for motl_column, rln_column in zip(("shift_x", "shift_y", "shift_z"), self.shifts_id_names):
        self.assign_column(relion_df, {motl_column: rln_column})

        # conversions of shifts - emmotl stores shifts for the reference, relion for the subtomo
        self.df[motl_column] = -self.df[motl_column].values

        if self.version >= 3.1:
            self.df[motl_column] = self.df[motl_column].values / self.pixel_size

        self.df[motl_column].fillna(0, inplace=True)


def same_frame(a, b):
    return a.shape == b.shape and list(a.columns) == list(b.columns) and all(
        np.array_equal(a[c].to_numpy(dtype=float), b[c].to_numpy(dtype=float), equal_nan=True) for c in a.columns
    )


def run_specific(seed=77):
    rng = np.random.default_rng(seed)
    params = inspect.signature(RelionMotl.convert_shifts).parameters
    has_kw = "version" in params and "pixel_size" in params
    print("convert_shifts parameters:", list(params))
    for version in (3.0, 3.1, 4.0):
        for n in (1, 2, 9, 120):
            for ps_kind in ("scalar", "array", "one"):
                if ps_kind == "scalar":
                    ps = float(np.round(rng.uniform(0.3, 15.0), 3))
                elif ps_kind == "array":
                    ps = np.round(rng.uniform(0.3, 15.0, n), 3)
                else:
                    ps = 1.0
                cols, truth = make_relion_input(rng, n, version, 2.0)
                rin = pd.DataFrame(cols)
                new = RelionMotl(version=version, pixel_size=ps)
                old = RelionMotl(version=version, pixel_size=ps)
                tag = f"convert_shifts v{version} n={n} ps={ps_kind}"
                for rep in range(3):
                    new.convert_shifts(rin.copy())
                    orig_convert_shifts(old, rin.copy())
                    check(same_frame(new.df, old.df), f"{tag}: call {rep} differs from the original function")
                    exp = -truth["origin"] / (np.asarray(ps).reshape(-1, 1) if version >= 3.1 and ps_kind == "array" else (ps if version >= 3.1 else 1.0))
                    check(np.allclose(new.df[["shift_x", "shift_y", "shift_z"]].to_numpy(dtype=float), exp, atol=1e-9), f"{tag}: call {rep} != -origin(/pixel size)")
                    if has_kw:
                        kw = RelionMotl(version=version, pixel_size=ps)
                        kw.convert_shifts(rin.copy(), version=version, pixel_size=ps)
                        check(same_frame(kw.df, old.df), f"{tag}: keyword call {rep} differs")
                        kw2 = RelionMotl(version=version, pixel_size=ps)
                        kw2.convert_shifts(rin.copy(), pixel_size=None, version=None)
                        check(same_frame(kw2.df, old.df), f"{tag}: None keyword call {rep} differs")
                        check(kw.version == version and kw2.version == version, f"{tag}: object version changed")
                        check(np.array_equal(np.asarray(kw.pixel_size), np.asarray(ps)), f"{tag}: object pixel size changed")
                    # edit the input in place and the object's pixel size between calls
                    ocols = [c for c in rin.columns if c.startswith("rlnOrigin")]
                    rin[ocols] = rin[ocols] * 1.5 - 0.25
                    truth["origin"] = truth["origin"] * 1.5 - 0.25
                    ps = ps * 2.0
                    new.pixel_size = ps
                    old.pixel_size = ps
                # full conversion against the original shift function plugged into a twin object
                full_new = RelionMotl(rin.copy(), version=version, pixel_size=ps)
                twin = RelionMotl(version=version, pixel_size=ps)
                twin.convert_shifts = lambda r, **k: orig_convert_shifts(twin, r)
                twin.convert_to_motl(rin.copy())
                check(same_frame(full_new.df, twin.df), f"{tag}: convert_to_motl differs from the original")


if __name__ == "__main__":
    run_property()
    run_specific()
    print("checks:", NCHECK[0], "failures:", len(FAILS))
    print("PASS" if not FAILS else "FAIL")
    sys.exit(0 if not FAILS else 1)
