import sys, os

sys.path.insert(0, os.getcwd())

import copy
import random
import re
import shutil
import string
import tempfile
import warnings

import numpy as np
import pandas as pd

from cryocat import starfileio
from cryocat.starfileio import Starfile, Token, TokenType

warnings.simplefilter("ignore")
SEED = int(os.environ.get("DEMO_SEED", "20260928"))
TMP = tempfile.mkdtemp(prefix="c02demo_")
CHECKS = {"n": 0}


def ok(cond, msg):
    CHECKS["n"] += 1
    if not cond:
        print("FAIL:", msg)
        shutil.rmtree(TMP, ignore_errors=True)
        sys.exit(1)


# ---------------------------------------------------------------------------------------------------------------------
# independent reading of a STAR text: line based, regular expressions, no code shared with cryocat
# ---------------------------------------------------------------------------------------------------------------------
INT_RE = re.compile(r"^[+-]?[0-9]+$")
NUM_RE = re.compile(r"^[+-]?([0-9]+\.?[0-9]*|\.[0-9]+)([eE][+-]?[0-9]+)?$")


def ref_parse(raw):
    """raw bytes of a STAR file -> list of dicts(name, labels, label_comments, rows) ; rows are lists of string tokens"""
    text = raw.decode("ascii").replace("\r\n", "\n")
    blocks, state, cur = [], "block", None
    for line in text.split("\n"):
        body, hash_, comment = line.partition("#")
        toks = re.findall(r"[^ \t]+", body)
        if state == "block":
            if not toks:
                continue
            assert len(toks) == 1 and toks[0].startswith("data_"), line
            cur = {"name": toks[0], "labels": [], "label_comments": [], "rows": []}
            blocks.append(cur)
            state = "loop"
        elif state == "loop":
            if not toks:
                continue
            assert toks == ["loop_"] and not hash_, line
            state = "labels"
        elif state == "labels" and toks and toks[0].startswith("_"):
            assert len(toks) == 1, line
            cur["labels"].append(toks[0][1:])
            cur["label_comments"].append(comment.strip() if hash_ else None)
        elif state in ("labels", "gap") and not toks:
            assert cur["labels"], line
            state = "gap"
        elif not toks:  # state rows: a blank / comment line closes the block
            state = "block"
        else:
            assert len(toks) == len(cur["labels"]) and not hash_, line
            cur["rows"].append(toks)
            state = "rows"
    return blocks


def column_kind(tokens):
    if tokens and all(INT_RE.match(t) for t in tokens):
        return "int"
    if tokens and all(NUM_RE.match(t) for t in tokens):
        return "float"
    return "text"


def check_frames_against_blocks(frames, specifiers, blocks, where):
    """what Starfile.read returned against what the independent tokenizer found"""
    ok(isinstance(frames, list) and isinstance(specifiers, list), f"{where}: list results")
    ok(specifiers == [b["name"] for b in blocks], f"{where}: block names {specifiers} vs {[b['name'] for b in blocks]}")
    ok(len(frames) == len(blocks), f"{where}: number of frames")
    for k, (f, b) in enumerate(zip(frames, blocks)):
        w = f"{where} block {k} ({b['name']})"
        ok(isinstance(f, pd.DataFrame), f"{w}: frame type")
        ok(list(f.columns) == b["labels"], f"{w}: labels {list(f.columns)} vs {b['labels']}")
        ok(len(f) == len(b["rows"]), f"{w}: number of rows {len(f)} vs {len(b['rows'])}")
        ok(list(f.index) == list(range(len(b["rows"]))), f"{w}: rows numbered 0..n-1")
        for j, label in enumerate(b["labels"]):
            tokens = [r[j] for r in b["rows"]]
            col = f.iloc[:, j]
            kind = column_kind(tokens)
            if not tokens:
                continue
            if kind == "int":
                ok(col.dtype.kind in "iu", f"{w} column {label}: integer column read as {col.dtype}")
                ok([int(v) for v in col.tolist()] == [int(t) for t in tokens], f"{w} column {label}: integer values")
            elif kind == "float":
                ok(col.dtype.kind == "f", f"{w} column {label}: float column read as {col.dtype}")
                want = np.array([float(t) for t in tokens])
                got = col.to_numpy(dtype=float)
                ok(np.all(np.abs(got - want) <= 1e-12 * np.abs(want)), f"{w} column {label}: float values")
            else:
                ok(col.dtype.kind not in "iufb", f"{w} column {label}: text column read as {col.dtype}")
                vals = col.tolist()
                ok(all(type(v) is str for v in vals) and vals == tokens, f"{w} column {label}: text values {vals[:3]}")


# ---------------------------------------------------------------------------------------------------------------------
# random tables
# ---------------------------------------------------------------------------------------------------------------------
TEXT_ALPHABET = string.ascii_letters + string.digits + "._-/:+*@~[](),;=!?%&|^<>'\"\\$"


def is_number(tok):
    try:
        float(tok)
        return True
    except ValueError:
        return False


def rand_text_token(rng):
    if rng.random() < 0.08:
        return rng.choice(["True", "False", "NA", "null", "None", "N/A", "data_x", "x_", "a", "-", "+", ".", "e5", "1.5e",
                           "1,5", "0x1A", "--1", "12a", "TS_01/tomo.mrc", "000001@stack.mrcs", "loop", "data"])
    while True:
        t = "".join(rng.choice(TEXT_ALPHABET) for _ in range(rng.randint(1, 14)))
        if t[0] != "_" and not is_number(t):
            return t


def rand_label(rng, used):
    while True:
        t = rng.choice(["rln", "", "x", "tomo_", "Col"]) + "".join(
            rng.choice(string.ascii_letters + string.digits + "_") for _ in range(rng.randint(1, 16))
        )
        if t[0] != "_" and t not in used:
            used.add(t)
            return t


def rand_float(rng):
    r = rng.random()
    if r < 0.45:
        return rng.uniform(-1000.0, 1000.0)
    if r < 0.55:
        return float(rng.randint(-50, 50))
    if r < 0.62:
        return rng.choice([0.0, -0.0, 1.0, -1.0, 0.5, 1e-6, -1e-6, 0.1234565, 2.5e-7, 4.9e-7, 180.0, -180.0, 360.0])
    if r < 0.75:
        return rng.uniform(-1, 1) * 10 ** rng.randint(-9, -3)
    if r < 0.9:
        return rng.uniform(-1, 1) * 10 ** rng.randint(4, 15)
    return round(rng.uniform(-10, 10), rng.randint(0, 8))


def rand_int(rng):
    r = rng.random()
    if r < 0.6:
        return rng.randint(-1000, 1000)
    if r < 0.7:
        return 0
    if r < 0.85:
        return rng.randint(-(2**31), 2**31)
    return rng.randint(-(2**62), 2**62)


def rand_column(rng, n):
    """-> (kind, pandas Series without name / default index)"""
    r = rng.random()
    if r < 0.3:
        sub = rng.random()
        if sub < 0.6:
            return "int", pd.Series([rand_int(rng) for _ in range(n)], dtype=np.int64)
        if sub < 0.75:
            return "int", pd.Series([rng.randint(-(2**31), 2**31 - 1) for _ in range(n)], dtype=np.int32)
        if sub < 0.85:
            return "int", pd.Series([rng.randint(-128, 127) for _ in range(n)], dtype=np.int8)
        if sub < 0.95:
            return "int", pd.Series([rng.randint(0, 65535) for _ in range(n)], dtype=np.uint16)
        return "int", pd.Series([rand_int(rng) for _ in range(n)], dtype=object)  # Python ints in an object column
    if r < 0.65:
        if rng.random() < 0.85:
            return "float", pd.Series([rand_float(rng) for _ in range(n)], dtype=np.float64)
        return "float32", pd.Series([rng.uniform(-1000, 1000) for _ in range(n)], dtype=np.float32)
    tokens = [rand_text_token(rng) for _ in range(n)]
    if rng.random() < 0.3:  # numeric-looking tokens in a text column (at least one token stays non-numeric)
        for i in range(1, n):
            if rng.random() < 0.7:
                tokens[i] = rng.choice(["12", "3.50", "007", "-1", "1e5", "+4", "0"])
    if rng.random() < 0.5:
        return "text", pd.Series(tokens, dtype=object)
    return "text", pd.Series(tokens)  # the default string dtype of the installed pandas


def rand_index(rng, n):
    r = rng.random()
    if r < 0.4:
        return pd.RangeIndex(n)
    if r < 0.55:
        return pd.RangeIndex(5, 5 + 3 * n, 3)
    if r < 0.7:
        p = list(range(n))
        rng.shuffle(p)
        return pd.Index(p)
    if r < 0.8:
        return pd.Index([f"r{rng.randint(0, 3)}" for _ in range(n)])  # repeated text labels
    if r < 0.9:
        return pd.Index([rng.randint(-5, 5) for _ in range(n)])  # repeated / negative integer labels
    return pd.Index(np.linspace(0.5, 9.5, n)) if n else pd.Index([], dtype=float)


def rand_table(rng, nrows=None, ncols=None):
    n = nrows if nrows is not None else rng.choice([1, 1, 2, 3, 5, 10, rng.randint(1, 60), rng.randint(1, 200)])
    m = ncols if ncols is not None else rng.choice([1, 1, 2, 3, 5, rng.randint(1, 12), rng.randint(1, 30)])
    used, kinds, data, labels = set(), [], [], []
    for _ in range(m):
        kind, col = rand_column(rng, n)
        kinds.append(kind)
        data.append(col)
        labels.append(rand_label(rng, used))
    df = pd.concat(data, axis=1)
    df.columns = labels
    df.index = rand_index(rng, n)
    if n == 0 and rng.random() < 0.5:
        df = pd.DataFrame(columns=labels)
    return df, kinds


BLOCK_NAMES = ["data_", "data_particles", "data_optics", "data_stopgap_motivelist", "data_stopgap_wedgelist", "data_general"]


def rand_block_name(rng):
    if rng.random() < 0.1:
        return "data_stopgap_" + "".join(rng.choice(string.ascii_lowercase) for _ in range(rng.randint(1, 8)))
    return rng.choice(BLOCK_NAMES)


def rand_tables(rng):
    nb = rng.choice([1, 1, 2, 3, 4])
    tables, kinds, names = [], [], []
    for b in range(nb):
        empty_last = b == nb - 1 and rng.random() < 0.15
        t, k = rand_table(rng, nrows=0 if empty_last else None)
        tables.append(t)
        kinds.append(k)
        names.append(rand_block_name(rng))
    return tables, kinds, names


def check_written_text(raw, tables, kinds, names, number_columns, where):
    """the text of the written file, read by the independent tokenizer, against the tables that were written"""
    blocks = ref_parse(raw)
    ok([b["name"] for b in blocks] == names, f"{where}: block names in the text")
    for k, (b, t, kd) in enumerate(zip(blocks, tables, kinds)):
        w = f"{where} text block {k} ({b['name']})"
        ok(b["labels"] == list(t.columns), f"{w}: labels")
        numbered = number_columns and "stopgap" not in b["name"]
        want = [str(i + 1) for i in range(t.shape[1])] if numbered else [None] * t.shape[1]
        ok(b["label_comments"] == want, f"{w}: header style {b['label_comments'][:3]}")
        ok(len(b["rows"]) == len(t), f"{w}: rows {len(b['rows'])} vs {len(t)}")
        for j in range(t.shape[1]):
            tokens = [r[j] for r in b["rows"]]
            vals = t.iloc[:, j].tolist()
            if kd[j] == "text":
                ok(tokens == vals, f"{w} column {j}: text tokens")
            elif kd[j] == "int":
                ok(all(INT_RE.match(x) for x in tokens) and [int(x) for x in tokens] == [int(v) for v in vals], f"{w} column {j}: int tokens")
            else:
                rel = 1e-12 if kd[j] == "float" else 1e-6
                for x, v in zip(tokens, vals):
                    ok(NUM_RE.match(x) is not None, f"{w} column {j}: float token {x}")
                    ok(abs(float(x) - float(v)) <= 0.5e-6 * (1 + 1e-9) + rel * abs(float(v)), f"{w} column {j}: {x} vs {v!r}")
    return blocks


def check_read_against_tables(frames, tables, kinds, where):
    for k, (f, t, kd) in enumerate(zip(frames, tables, kinds)):
        w = f"{where} frame {k}"
        ok(list(f.columns) == list(t.columns) and len(f) == len(t), f"{w}: shape / labels")
        for j in range(t.shape[1]):
            got, vals = f.iloc[:, j].tolist(), t.iloc[:, j].tolist()
            if kd[j] == "text":
                ok(got == vals, f"{w} column {j}: text unchanged")
            elif kd[j] == "int":
                ok(len(t) == 0 or f.iloc[:, j].dtype.kind in "iu", f"{w} column {j}: integer dtype")
                ok([int(g) for g in got] == [int(v) for v in vals], f"{w} column {j}: integers unchanged")
            else:
                rel = 1e-12 if kd[j] == "float" else 1e-6
                ok(len(t) == 0 or f.iloc[:, j].dtype.kind == "f", f"{w} column {j}: float dtype")
                ok(all(abs(float(g) - float(v)) <= 0.5e-6 * (1 + 1e-9) + rel * abs(float(v)) for g, v in zip(got, vals)), f"{w} column {j}: floats to 6 decimals")


def roundtrip_case(rng, write=None, read=None, tag="rt"):
    write = write or Starfile.write
    read = read or Starfile.read
    tables, kinds, names = rand_tables(rng)
    number_columns = rng.random() < 0.5
    path = os.path.join(TMP, f"{tag}.star")
    arg = [t.copy() for t in tables]
    if rng.random() < 0.5:
        write(arg, path, specifiers=list(names), number_columns=number_columns)
    else:
        write(arg, path, list(names), None, number_columns)  # positional form
    with open(path, "rb") as fh:
        raw = fh.read()
    blocks = check_written_text(raw, tables, kinds, names, number_columns, tag)
    frames, specifiers, comments = read(path)
    check_frames_against_blocks(frames, specifiers, blocks, tag)
    check_read_against_tables(frames, tables, kinds, tag)
    ok(comments == [[] for _ in names], f"{tag}: no comments come back from a file written without comments")
    # repeated call on the same objects (the list handed over now holds the rounded tables) gives the same text
    write(arg, path, specifiers=list(names), number_columns=number_columns)
    with open(path, "rb") as fh:
        ok(fh.read() == raw, f"{tag}: second write of the same list gives the same text")
    return tables, kinds, names, number_columns, raw


# ---------------------------------------------------------------------------------------------------------------------
# hand-built STAR texts
# ---------------------------------------------------------------------------------------------------------------------
NUMERIC_FORMS = ["{:d}", "{:+d}", "{:03d}", "{:.3f}", "{:.6f}", "{:e}", "{:E}", "{:g}", "{:.1f}"]


def rand_ws(rng, allow_empty=False):
    n = rng.randint(0 if allow_empty else 1, 4)
    return "".join(rng.choice(" \t") if rng.random() < 0.6 else " " * rng.randint(1, 5) for _ in range(n))


def filler_lines(rng, lo, hi):
    out = []
    for _ in range(rng.randint(lo, hi)):
        r = rng.random()
        if r < 0.35:
            out.append("")
        elif r < 0.5:
            out.append(rand_ws(rng))
        elif r < 0.6:
            out.append("#")
        elif r < 0.8:
            out.append("# " + rng.choice(["version 30001", "created by relion", "_notAlabel #3", "data_fake", "loop_", "1 2 3"]))
        else:
            out.append(rand_ws(rng) + "#" + rand_ws(rng, True) + "indented comment # with a second hash" + rand_ws(rng, True))
    return out


def separator_lines(rng):
    """at least one blank or comment line"""
    out = filler_lines(rng, 0, 2)
    out.insert(rng.randint(0, len(out)), rng.choice(["", "  ", "\t", "# next block", "#"]))
    return out


def rand_star_text(rng):
    nb = rng.choice([1, 1, 2, 3, 4])
    lines, expect = [], []
    lines += filler_lines(rng, 0, 3)
    for b in range(nb):
        name = rand_block_name(rng)
        ncols = rng.choice([1, 2, 3, 5, rng.randint(1, 30)])
        empty = b == nb - 1 and rng.random() < 0.25
        nrows = 0 if empty else rng.choice([1, 1, 2, 5, rng.randint(1, 40)])
        used = set()
        labels = [rand_label(rng, used) for _ in range(ncols)]
        cols = []
        for _ in range(ncols):
            r = rng.random()
            if r < 0.3:
                form = rng.choice(NUMERIC_FORMS[:3])
                cols.append([form.format(rand_int(rng) if "03" not in form else rng.randint(0, 99)) for _ in range(nrows)])
            elif r < 0.6:
                cols.append([_fmt(rng, rand_float(rng)) for _ in range(nrows)])
            else:
                col = [rand_text_token(rng) for _ in range(nrows)]
                for i in range(1, nrows):
                    if rng.random() < 0.3:
                        col[i] = rng.choice(["12", "3.50", "007", "-1", "1e5"])
                cols.append(col)
        rows = [[c[i] for c in cols] for i in range(nrows)]
        expect.append({"name": name, "labels": labels, "rows": rows})
        lines.append(rand_ws(rng, True) * (rng.random() < 0.2) + name + rand_ws(rng, True) * (rng.random() < 0.4))
        lines += filler_lines(rng, 0, 2)
        lines.append(rand_ws(rng, True) * (rng.random() < 0.2) + "loop_" + rand_ws(rng, True) * (rng.random() < 0.4))
        style = rng.choice(["numbered", "plain", "mixed"])
        for i, lab in enumerate(labels):
            s = rand_ws(rng, True) * (rng.random() < 0.1) + "_" + lab
            if style == "numbered" or (style == "mixed" and rng.random() < 0.5):
                s += rng.choice([" ", "\t", "", "   "]) + "#" + rng.choice(["", " "]) + str(i + 1)
            lines.append(s + rand_ws(rng, True) * (rng.random() < 0.3))
        lines += filler_lines(rng, 0, 2) if rng.random() < 0.5 else []
        for row in rows:
            s = rand_ws(rng, True) * (rng.random() < 0.3)
            s += "".join(tok + (rand_ws(rng) if i < len(row) - 1 else "") for i, tok in enumerate(row))
            lines.append(s + rand_ws(rng, True) * (rng.random() < 0.4))
        if b < nb - 1:
            lines += separator_lines(rng)
    lines += filler_lines(rng, 0, 3)
    eol = rng.choice(["\n", "\n", "\r\n"])
    text = eol.join(lines) + (eol if rng.random() < 0.6 else "")
    return text.encode("ascii"), expect


def _fmt(rng, v):
    form = rng.choice(NUMERIC_FORMS[3:])
    s = form.format(v)
    if rng.random() < 0.1 and "." in s and "e" not in s.lower():
        s = s.rstrip("0") or "0"  # forms like '5.' ; '.5' comes from stripping a leading zero below
    if rng.random() < 0.05 and s.startswith("0."):
        s = s[1:]
    return s


def handbuilt_case(rng, read=None, tag="hb"):
    read = read or Starfile.read
    raw, expect = rand_star_text(rng)
    blocks = ref_parse(raw)
    # the generator's own bookkeeping and the independent tokenizer agree on what the text holds
    ok([(b["name"], b["labels"], b["rows"]) for b in blocks] == [(e["name"], e["labels"], e["rows"]) for e in expect], f"{tag}: reference tokenizer vs generator")
    path = os.path.join(TMP, f"{tag}.star")
    with open(path, "wb") as fh:
        fh.write(raw)
    frames, specifiers, comments = read(path)
    check_frames_against_blocks(frames, specifiers, blocks, tag)
    ok(len(comments) == len(blocks) and all(isinstance(c, list) for c in comments), f"{tag}: one comment list per block")
    return raw, path, blocks


FIXED_TEXTS = [
    b"data_\n\nloop_\n_a #1\n_b #2\n1 2\n3 4\n",
    b"data_\n\nloop_\n_a #1\n_b #2\n1 2\n3 4",  # no final newline
    b"data_\nloop_\n_a\n",  # empty only block
    b"data_\nloop_\n_a",  # ... without final newline
    b"data_\nloop_\n_a #1",  # ... label comment at the very end of the text
    b"data_optics\n\nloop_\n_x #1\n1\n\ndata_particles\n\nloop_\n_y #1\n_z #2\n",  # empty last block after a full one
    b"\n\n# c\ndata_stopgap_motivelist\n\nloop_\n_motl_idx\n_class\n\n1\tA\n2\tB\n\n",
    b"data_\r\n\r\nloop_\r\n_a #1\r\n_b #2\r\n1.5\tx\r\n2.5\ty\r\n",
    b"data_\r\n\r\nloop_\r\n_a #1\r\n_b #2\r\n1.5\tx\r\n2.5\ty",
    b"  data_  \n \t \n  loop_\t\n  _a#1\n\t_b\t#2  \n# rows follow\n   1    2   \n\t3\t\t4\t\n#end\ndata_\nloop_\n_q\nq1\n",
    b"data_\nloop_\n_a\n-0.0\n+5.\n.5\n1E3\n",
    b"data_\nloop_\n_a\n007\n+3\n-0\n",
]


# ---------------------------------------------------------------------------------------------------------------------
# the original Starfile.read (text as in the unmodified tree; Token is the module's, which this change does not touch)
# ---------------------------------------------------------------------------------------------------------------------
def orig_read(file_path, data_id=None):
    with open(file_path, mode="r") as file:
        raw_starfile = file.read()

    tokens = Token.tokenize(raw_starfile)
    frames = []
    comments = []
    specifiers = []
    while Token.lookahead(tokens, TokenType.LITERAL, [TokenType.NEWLINE, TokenType.COMMENT]):
        specifier_comments, specifier = Token.parse_specifier(tokens)
        column_comments, columns = Token.parse_columns(tokens)
        rows_comments, data = Token.parse_rows(tokens, columns)
        comments.append(specifier_comments + column_comments + rows_comments)
        specifiers.append(specifier)
        frames.append(data)
    Token.parse_newline_or_comments(tokens)
    if len(tokens) > 0:
        raise IOError(f"Expected a specifier or an end of token but got {tokens[0].token_type}")

    def to_numeric_if_possible(column):
        try:
            return pd.to_numeric(column)
        except (ValueError, TypeError):
            return column

    for i, f in enumerate(frames):
        frames[i] = f.apply(to_numeric_if_possible)

    if data_id is not None:
        return frames[data_id], specifiers[data_id], comments[data_id]
    else:
        return frames, specifiers, comments


def same_frame(x, y, tag):
    ok(type(x) is type(y) is pd.DataFrame, f"{tag}: frame types")
    ok(x.shape == y.shape, f"{tag}: shapes {x.shape} vs {y.shape}")
    ok(type(x.index) is type(y.index) and x.index.equals(y.index), f"{tag}: row index {x.index!r} vs {y.index!r}")
    ok(type(x.columns) is type(y.columns) and list(x.columns) == list(y.columns) and x.columns.dtype == y.columns.dtype, f"{tag}: columns")
    ok([str(d) for d in x.dtypes] == [str(d) for d in y.dtypes], f"{tag}: dtypes {list(x.dtypes)} vs {list(y.dtypes)}")
    for j in range(x.shape[1]):
        a, b = x.iloc[:, j].tolist(), y.iloc[:, j].tolist()
        ok(len(a) == len(b) and all(type(p) is type(q) and (p == q or (p != p and q != q)) for p, q in zip(a, b)), f"{tag}: column {j} values")
    pd.testing.assert_frame_equal(x, y, check_exact=True, check_index_type="equiv", check_column_type=True)


def same_read(path, tag):
    """current reader and original reader on one file: same frames (values, dtypes, labels, row index), names, comments"""
    res = []
    for fn in (Starfile.read, orig_read):
        try:
            res.append(("ok", fn(path)))
        except Exception as e:  # noqa
            res.append(("err", (type(e), str(e))))
    ok(res[0][0] == res[1][0], f"{tag}: outcome {res[0]} vs {res[1]}")
    if res[0][0] == "err":
        ok(res[0][1] == res[1][1], f"{tag}: error {res[0][1]} vs {res[1][1]}")
        return
    (fa, sa, ca), (fb, sb, cb) = res[0][1], res[1][1]
    ok(sa == sb and ca == cb and len(fa) == len(fb), f"{tag}: names / comments")
    for k, (x, y) in enumerate(zip(fa, fb)):
        same_frame(x, y, f"{tag} block {k}")
    for data_id in (0, -1, len(fa) - 1) if fa else ():
        (x, s1, c1), (y, s2, c2) = Starfile.read(path, data_id), orig_read(path, data_id=data_id)
        same_frame(x, y, f"{tag} data_id={data_id}")
        ok(s1 == s2 == sa[data_id] and c1 == c2, f"{tag} data_id={data_id}: name / comments")
    # the Starfile object built from the file holds the same three lists
    obj = Starfile(path)
    ok(obj.specifiers == sb and obj.comments == cb and len(obj.frames) == len(fb), f"{tag}: Starfile(path)")
    for x, y in zip(obj.frames, fb):
        same_frame(x, y, f"{tag} Starfile(path)")


def main():
    rng = random.Random(SEED)
    for k, raw in enumerate(FIXED_TEXTS):
        p = os.path.join(TMP, "fx.star")
        with open(p, "wb") as fh:
            fh.write(raw)
        fr, sp, co = Starfile.read(p)
        check_frames_against_blocks(fr, sp, ref_parse(raw), f"fixed{k}")
        same_read(p, f"fixed{k}")
    for i in range(160):
        roundtrip_case(rng, tag=f"rt{i}")
        same_read(os.path.join(TMP, f"rt{i}.star"), f"rt{i}/cmp")
    for i in range(300):
        raw, path, blocks = handbuilt_case(rng, tag=f"hb{i}")
        same_read(path, f"hb{i}/cmp")
        if i % 10 == 0:  # reading the same file again gives the same thing (no state kept between calls)
            same_read(path, f"hb{i}/again")

    # texts at and beyond the edge of the quantifier: the two readers must still agree on every one of them
    extra = [
        b"data_\nloop_\n_a #1\n_a #2\n_b #3\n1 x 2.5\n2 y 3.5\n",  # repeated label, one copy numeric and one text
        b"data_\nloop_\n_a #1\n_a #2\n1 2\n",
        b"data_\nloop_\n_big\n9223372036854775808\n1\n",  # beyond int64
        b"data_\nloop_\n_big\n-9223372036854775809\n1\n",  # python integers in an object column
        b"data_\nloop_\n_v\n1e400\n-1e400\n",  # overflow to inf
        b"data_\nloop_\n_v _w\n1 2\n",  # malformed label line
        b"data_\nloop_\n_v\nnan\n1.5\n",
        b"data_\nloop_\n_v\nNaN\ninf\n",
        b"data_\nloop_\n_v\nTrue\nFalse\n",
        b"data_\nloop_\n_v\n1_0\n2_0\n",
        b"data_\nloop_\n_v\n1\n2.5\nx\n",
        b"data_\nloop_\n\n_v\n1\n",  # blank line between loop_ and the labels: rejected
        b"data_\nloop_\n_a\n_b\n1 2 3\n",  # a row that is too long: rejected
        b"loop_\n_a\n1\n",
        b"",
        b"\n\n# nothing but a comment\n",
        b"data_a\nloop_\n_x\n\n\ndata_b\nloop_\n_y\n1\n",  # empty block that is not the last one
    ]
    for k, raw in enumerate(extra):
        p = os.path.join(TMP, f"extra{k}.star")
        with open(p, "wb") as fh:
            fh.write(raw)
        same_read(p, f"extra{k}")

    print(f"PASS ({CHECKS['n']} checks)")
    shutil.rmtree(TMP, ignore_errors=True)


main()
