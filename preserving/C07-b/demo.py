"""C07 / change b: geom.point_pairwise_dist (distance kernel of Motl.clean_by_distance).

(1) point_pairwise_dist agrees bit-for-bit (values, dtype, shape, type) with a verbatim copy of the original on
    many shapes / dtypes / container types, and with an independent math.dist computation;
(2) the C07 property of Motl.clean_by_distance (separated + dominating set per group, no cross-group influence)
    holds against an independent brute-force check, and the result equals the one obtained with the original
    distance function patched in.
Run:  cd /tmp/wt6/C07 && /venv/bin/python /tmp/seedsP/C07/b/demo.py
"""
import os, sys
sys.path.insert(0, os.getcwd())
import io, contextlib, math
import numpy as np
import pandas as pd
from scipy.spatial.distance import cdist

from cryocat import geom
from cryocat.cryomotl import Motl


# ---------------------------------------------------------------- verbatim copy of the original function
def point_pairwise_dist_ORIG(coord_1, coord_2):
    if coord_1.shape[0] == 1 and coord_2.shape[0] != 1:
        coord_1 = np.tile(coord_1, (coord_2.shape[0], 1))

    coord_1 = np.atleast_2d(coord_1)
    coord_2 = np.atleast_2d(coord_2)
    # Squares of the distances
    pairwise_dist = np.linalg.norm(coord_1 - coord_2, axis=1)

    pairwise_dist = np.where(isinstance(pairwise_dist, complex), 0.0, pairwise_dist)

    return pairwise_dist


def quiet(fn, *a, **k):
    with contextlib.redirect_stdout(io.StringIO()):
        return fn(*a, **k)


def same(a, b):
    assert type(a) is type(b), (type(a), type(b))
    assert a.dtype == b.dtype, (a.dtype, b.dtype)
    assert a.shape == b.shape, (a.shape, b.shape)
    assert np.array_equal(a, b, equal_nan=True), (a, b)
    assert a.flags.writeable and b.flags.writeable


def check_kernel(rng):
    n = 0
    dtypes = [np.float64, np.float32, np.float16, np.int64, np.int32, np.int8, np.uint8, np.complex128, bool]
    for rep in range(1500):
        D = int(rng.choice([1, 2, 3, 3, 3, 4, 7]))
        M = int(rng.choice([1, 2, 3, 5, 17, 400]))
        dt1 = dtypes[rng.integers(0, len(dtypes))]
        dt2 = dtypes[rng.integers(0, len(dtypes))] if rng.integers(0, 3) == 0 else dt1
        scale = float(rng.choice([1.0, 100.0, 1e-3]))

        def mk(shape, dt):
            a = rng.normal(0, 1, size=shape) * scale
            if dt is bool:
                return a > 0
            if np.issubdtype(dt, np.unsignedinteger):
                return np.abs(a * 10).astype(dt)
            if np.issubdtype(dt, np.integer):
                return np.clip(a * 10, -100, 100).astype(dt)
            if dt is np.complex128:
                return a + 1j * rng.normal(0, 1, size=shape)
            return a.astype(dt)

        shape_kind = rng.integers(0, 7)
        if shape_kind == 0:  # the call made by clean_by_distance: 1-D point vs (M, D)
            c1, c2 = mk((D,), dt1), mk((M, D), dt2)
        elif shape_kind == 1:  # (1, D) vs (M, D)
            c1, c2 = mk((1, D), dt1), mk((M, D), dt2)
        elif shape_kind == 2:  # (M, D) vs (M, D)
            c1, c2 = mk((M, D), dt1), mk((M, D), dt2)
        elif shape_kind == 3:  # (M, D) vs (1, D) and (M, D) vs (D,)
            c1, c2 = mk((M, D), dt1), (mk((1, D), dt2) if rng.integers(0, 2) else mk((D,), dt2))
        elif shape_kind == 4:  # 1-D vs 1-D, incl. length-1 vectors
            c1, c2 = mk((D,), dt1), mk((D,), dt2)
        elif shape_kind == 5:  # (1, D) vs 1-D (D,)  [rows are tiled D times in the original]
            c1, c2 = mk((1, D), dt1), mk((D,), dt2)
        else:  # length-1 1-D vector vs (M, D) / (M,)
            c1, c2 = mk((1,), dt1), (mk((M, D), dt2) if rng.integers(0, 2) else mk((M,), dt2))
        if c1.dtype == bool and c2.dtype == bool:
            continue  # boolean subtract is not defined in numpy (raises in both versions)
        # non-contiguous / pandas inputs
        wrap = rng.integers(0, 5)
        if wrap == 1 and c2.ndim == 2:
            c2 = np.asfortranarray(c2)
        elif wrap == 2 and c1.ndim == 1 and c2.ndim == 1 and not np.iscomplexobj(c1):
            c1, c2 = pd.Series(c1), pd.Series(c2)  # as in geom.py spline code
        elif wrap == 3 and c2.ndim == 2:
            c2 = np.concatenate([c2, c2], axis=1)[:, : c2.shape[1]]  # a strided view
        c1_before = np.array(c1, copy=True)
        c2_before = np.array(c2, copy=True)
        try:
            want = point_pairwise_dist_ORIG(c1, c2)
        except Exception as e:  # shape mismatch etc.: the new version must raise the same kind of error
            try:
                geom.point_pairwise_dist(c1, c2)
            except Exception as e2:
                assert type(e2) is type(e), (e, e2)
                continue
            raise AssertionError(f"original raised {e!r}, current version did not")
        got = geom.point_pairwise_dist(c1, c2)
        same(got, want)
        assert np.array_equal(np.asarray(c1), c1_before, equal_nan=True) and np.array_equal(np.asarray(c2), c2_before, equal_nan=True)
        # independent value check for the documented real-valued cases
        if shape_kind in (0, 1, 2) and dt1 in (np.float64, np.int64, np.int32) and dt2 == dt1 and wrap != 2:
            a = np.broadcast_to(np.atleast_2d(c1), c2.shape)
            ref = np.array([math.dist([float(v) for v in a[i]], [float(v) for v in c2[i]]) for i in range(c2.shape[0])])
            assert np.allclose(got, ref, rtol=1e-12, atol=0), (got, ref)
        n += 1
    # special values
    c2 = np.array([[0.0, 0, 0], [np.nan, 0, 0], [np.inf, 0, 0], [1e308, 1e308, 0], [1e-320, 0, 0], [-0.0, 0, 0]])
    with np.errstate(all="ignore"):
        same(geom.point_pairwise_dist(c2[0], c2), point_pairwise_dist_ORIG(c2[0], c2))
        same(geom.point_pairwise_dist(c2[:1], c2), point_pairwise_dist_ORIG(c2[:1], c2))
    # 0-d second argument is only touched when the first one has a single row
    same(geom.point_pairwise_dist(np.array([1.0, 2.0, 3.0]), np.array(5.0)), point_pairwise_dist_ORIG(np.array([1.0, 2.0, 3.0]), np.array(5.0)))
    return n


# ---------------------------------------------------------------- property check for clean_by_distance
GROUP_FIELDS = ["tomo_id", "object_id", "class", "geom3"]
METRIC_FIELDS = ["score", "geom2"]


def make_df(rng, n, n_groups, gf, mf):
    df = Motl.create_empty_motl_df().reindex(range(n)).fillna(0.0)
    k = int(rng.integers(1, 6))
    centres = rng.uniform(-30, 200, size=(k, 3))
    coords = centres[rng.integers(0, k, n)] + rng.normal(0, float(rng.choice([0.7, 3.0, 10.0])), size=(n, 3))
    if rng.integers(0, 2):
        df[["x", "y", "z"]] = np.round(coords)
        df[["shift_x", "shift_y", "shift_z"]] = rng.uniform(-0.5, 0.5, size=(n, 3))
    else:
        df[["x", "y", "z"]] = coords
    gv = rng.choice([-2, 0, 1, 3, 8, 50], size=n_groups, replace=False).astype(float)
    df[gf] = gv[rng.integers(0, n_groups, n)]
    sc = [rng.normal(0, 1, n), rng.integers(-2, 3, n).astype(float), -rng.uniform(0, 5, n)][rng.integers(0, 3)]
    df[mf] = sc
    df["subtomo_id"] = rng.permutation(n) + 1.0
    if rng.integers(0, 2):
        df.index = rng.permutation(n) * 2 + 7
    return df


def group_positions(df, gf):
    pos = df[["x", "y", "z"]].values + df[["shift_x", "shift_y", "shift_z"]].values
    return pos, df[gf].values


def tie_free(df, gf, d, tol=1e-7):
    pos, grp = group_positions(df, gf)
    return all(not np.any(np.abs(cdist(pos[grp == g], pos[grp == g]) - d) < tol) for g in np.unique(grp))


def check_property(df_in, df_out, d, gf, mf, keep_greater):
    ids_in, ids_out = df_in["subtomo_id"].values, df_out["subtomo_id"].values
    assert len(set(ids_out)) == len(ids_out) and set(ids_out) <= set(ids_in)
    pos, grp = group_positions(df_in, gf)
    sc = df_in[mf].values
    kept = np.isin(ids_in, ids_out)
    for g in np.unique(grp):
        m = grp == g
        kp, ks = pos[m & kept], sc[m & kept]
        assert len(kp) >= 1
        dm = cdist(kp, kp)
        np.fill_diagonal(dm, np.inf)
        assert np.all(dm >= d), "remaining particles closer than d"
        rp, rs = pos[m & ~kept], sc[m & ~kept]
        if len(rp):
            better = (ks[None, :] >= rs[:, None]) if keep_greater else (ks[None, :] <= rs[:, None])
            assert np.all(np.any((cdist(rp, kp) < d) & better, axis=1)), "removed particle not dominated"


def check_cleaning(rng):
    n_cases = 0
    for rep in range(150):
        n = int(rng.choice([1, 2, 3, 7, 20, 50, 150, 400]))
        ng = int(rng.integers(1, 5))
        gf = GROUP_FIELDS[rng.integers(0, 4)]
        mf = METRIC_FIELDS[rng.integers(0, 2)]
        kg = bool(rng.integers(0, 2))
        df = make_df(rng, n, ng, gf, mf)
        d = float(rng.choice([0.01, 0.8, 2.0, 6.0, 25.0, 1e5])) * float(rng.uniform(0.9, 1.1))
        if not tie_free(df, gf, d):
            continue
        n_cases += 1
        m = Motl(df.copy(deep=True))
        quiet(m.clean_by_distance, d, gf, metric_id=mf, keep_greater=kg)
        check_property(df, m.df, d, gf, mf, kg)
        # same run with the original distance kernel patched in
        current = geom.point_pairwise_dist
        geom.point_pairwise_dist = point_pairwise_dist_ORIG
        try:
            m0 = Motl(df.copy(deep=True))
            quiet(m0.clean_by_distance, d, gf, metric_id=mf, keep_greater=kg)
        finally:
            geom.point_pairwise_dist = current
        pd.testing.assert_frame_equal(m.df, m0.df, check_exact=True)
        # no cross-group influence
        ids = set()
        for g in df[gf].unique():
            mg = Motl(df[df[gf] == g].copy())
            quiet(mg.clean_by_distance, d, gf, metric_id=mf, keep_greater=kg)
            ids |= set(mg.df["subtomo_id"])
        assert ids == set(m.df["subtomo_id"]), "cross-group leakage"
        # repeated call: fixed point
        prev = m.df.copy(deep=True)
        quiet(m.clean_by_distance, d, gf, metric_id=mf, keep_greater=kg)
        pd.testing.assert_frame_equal(m.df, prev, check_exact=True)
    return n_cases


def main():
    rng = np.random.default_rng(7_2026)
    nk = check_kernel(rng)
    nc = check_cleaning(rng)
    assert nk > 1000 and nc > 100, (nk, nc)
    print(f"kernel comparisons: {nk}; cleaned particle lists: {nc}")
    print("PASS")


if __name__ == "__main__":
    main()
