"""C07 demo (change a): score-ranked distance suppression keeps a separated, dominating set.

Run as:  cd /tmp/wt7/C07 && /venv/bin/python /tmp/seedsS/C07/a/demo.py

Part 1  Motl.clean_by_distance  -- property checked against an independent computation (scipy cdist + own greedy
        reference), plus comparison with a verbatim copy of the ORIGINAL method on the same inputs.
Part 2  tmana.scores_extract_particles -- property checked with exact integer arithmetic on the voxel lattice, plus
        comparison with a verbatim copy of the ORIGINAL function on the same inputs.
Part 3  boundary inputs the idiom of this change is notorious for (truth-value tests on masks, index arrays and sets: nobody in reach, everybody in reach, no / one voxel above the threshold, score 0 and group 0 as data).
Prints PASS and exits 0 when everything holds.
"""
import sys, os

sys.path.insert(0, os.getcwd())

import io
import gc
import re
import copy
import inspect
import tempfile
import warnings
import contextlib

import numpy as np
import pandas as pd
from scipy.spatial import KDTree
from scipy.spatial.distance import cdist
from sklearn.cluster import DBSCAN

from cryocat import cryomotl, tmana, cryomap, geom, ioutils, nnana

assert os.path.abspath(cryomotl.__file__).startswith(os.getcwd()), cryomotl.__file__

CHANGE = "a"
RNG = np.random.default_rng(20260928)
FAIL = []


def check(cond, msg):
    if not cond:
        FAIL.append(msg)
        if len(FAIL) < 20:
            print("FAIL:", msg)


@contextlib.contextmanager
def quiet():
    with contextlib.redirect_stdout(io.StringIO()):
        yield


# --------------------------------------------------------------------------------------------------------------
# verbatim copies of the ORIGINAL code (HEAD of the worktree)
# --------------------------------------------------------------------------------------------------------------
def orig_clean_by_distance(
    self,
    distance_in_voxels,
    feature_id,
    metric_id="score",
    keep_greater=True,
    dist_mask=None,
):
    # Distance cutoff (pixels)
    d_cut = distance_in_voxels

    # Load mask if provided
    if dist_mask is not None:
        nn_stats = nnana.get_nn_stats_within_radius(self, nn_radius=d_cut, feature=feature_id)
        nn_stats_filtered = nnana.filter_nn_radial_stats(nn_stats, dist_mask)

    # Parse tomograms
    features = np.unique(self.get_feature(feature_id))

    # Initialize clean motl
    cleaned_df = pd.DataFrame()

    # Loop through and clean
    for f in features:
        # Parse tomogram
        feature_m = self.get_motl_subset(f, feature_id=feature_id, reset_index=True)
        n_temp_motl = feature_m.df.shape[0]

        # Parse positions
        pos = feature_m.get_coordinates()

        # Parse scores
        temp_scores = feature_m.df[metric_id].values

        # prepare scores
        if keep_greater:
            # Sort scores
            sort_idx = np.argsort(temp_scores)[::-1]
        else:  # lower than
            # Sort scores
            sort_idx = np.argsort(temp_scores)

        # Temporary keep index
        temp_keep = np.ones((n_temp_motl,), dtype=bool)

        # Loop through in order of score
        for j in sort_idx:
            if temp_keep[j]:

                # classic radius-based cleaning
                if dist_mask is None:
                    # Calculate distances
                    dist = geom.point_pairwise_dist(pos[j, :], pos)
                    # Find cutoff
                    d_cut_idx = dist < d_cut

                    # Keep current entry
                    d_cut_idx[j] = False
                else:
                    d_cut_idx = np.arange(feature_m.df.shape[0])
                    subtomo_id = feature_m.df.loc[j, "subtomo_id"]
                    filtered_idx = nn_stats_filtered.loc[
                        nn_stats_filtered["qp_subtomo_id"] == subtomo_id, "nn_motl_idx"
                    ].values
                    d_cut_idx = np.isin(d_cut_idx, filtered_idx)

                # Remove other entries
                temp_keep[d_cut_idx] = False

        # Add entries to main list
        cleaned_df = pd.concat((cleaned_df, feature_m.df.iloc[temp_keep, :]), ignore_index=True)

    print(f"Cleaned {self.df.shape[0] - cleaned_df.shape[0]} particles.")
    self.df = cleaned_df


def orig_scores_extract_particles(
    scores_map,
    angles_map,
    angles_list,
    tomo_id,
    particle_diameter,
    object_id=None,
    scores_threshold=None,
    sigma_threshold=None,
    cluster_size=None,
    n_particles=None,
    output_path=None,
    output_type="emmotl",
    angles_order="zxz",
    symmetry="c1",
    angles_numbering=0,
    tomo_mask=None,
):
    compute_scores_map_threshold_triangle = tmana.compute_scores_map_threshold_triangle

    if symmetry.lower().startswith("c"):
        symmetry = int(re.findall(r"\d+", symmetry)[-1])
    else:
        warnings.warn(
            f"Only C symmetry is supported. Provided {symmetry} is currently not supported and will be ignored."
        )
        symmetry = 1

    # load the scores map
    scores_map = cryomap.read(scores_map)

    # load the angles map
    angles_map = cryomap.read(angles_map)

    # Read angle list.
    anglist = ioutils.rot_angles_load(angles_list, angles_order=angles_order)

    # load and apply a tomogram mask if any:
    if tomo_mask is not None:
        tomo_mask = cryomap.read(tomo_mask)
        scores_map = scores_map * tomo_mask

    if object_id is None:
        object_id = 1

    if scores_threshold is not None:
        threshold = scores_threshold
    elif sigma_threshold is None:
        threshold = compute_scores_map_threshold_triangle(scores_map)
    else:
        # Set threshold by sigma value
        score_mean = scores_map.mean()
        score_std = scores_map.std(ddof=1)
        threshold = score_mean + sigma_threshold * score_std

    # Threshold and sort indices/scores
    t_idx = np.where(scores_map > threshold)

    k = len(t_idx[0])

    # Check for early termination
    if k == 0:
        return None

    k = min(k, len(scores_map[t_idx])) - 1
    s_idx = np.argpartition(-scores_map[t_idx], k)[: k + 1]
    s_idx = s_idx[np.argsort(-scores_map[t_idx][s_idx])]  # Sort for later

    # Sorted indices. s_ind[0] = x, s_ind[1] = y, s_ind[2] = z
    s_ind = np.array([t_idx[0][s_idx], t_idx[1][s_idx], t_idx[2][s_idx]])

    # Create a list of tuples where each tuple is (coord, score) and sort it by score in descending order
    scored_coords = sorted(zip(s_ind.T, scores_map[s_ind[0], s_ind[1], s_ind[2]]), key=lambda x: x[1], reverse=True)

    # Build a KD-tree with the coordinates
    tree = KDTree([coord for coord, score in scored_coords])

    # Remove any points that are within the specified particle diameter of a higher score point
    coord_to_score = {tuple(coord): score for coord, score in scored_coords}
    remaining_coords = set(coord_to_score.keys())
    filtered_coords = []

    for coord, score in scored_coords:
        if tuple(coord) not in remaining_coords:
            continue
        filtered_coords.append((coord, score))
        nearby_coords = tree.query_ball_point(coord, particle_diameter)
        for nearby_coord in nearby_coords:
            nearby_coord_tuple = tuple(scored_coords[nearby_coord][0])
            if nearby_coord_tuple in remaining_coords and coord_to_score[nearby_coord_tuple] <= score:
                remaining_coords.remove(nearby_coord_tuple)

    # Extract the coordinates from the filtered_coords list
    filtered_coords, filtered_scores = zip(*filtered_coords)
    filtered_coords = np.array(filtered_coords)
    filtered_scores = np.array(filtered_scores)

    # Use DBSCAN to cluster points
    clusterer = DBSCAN(eps=particle_diameter / 2, min_samples=1)
    cluster_labels = clusterer.fit_predict(filtered_coords)

    # Keep track of hits in case of number of particles
    filtered_hit_idx = np.zeros(len(filtered_coords), dtype=bool)

    # Count number of hits
    c = 0
    for cluster_id in np.unique(cluster_labels):
        if cluster_id == -1:
            continue

        # Check cluster size
        if cluster_size is not None:
            c_size = np.sum(cluster_labels == cluster_id)
            if c_size < cluster_size:
                continue

        filtered_hit_idx[cluster_labels == cluster_id] = True
        c += np.sum(cluster_labels == cluster_id)

    # Remaining positions
    rpos = filtered_coords[filtered_hit_idx]
    filtered_scores = filtered_scores[filtered_hit_idx]
    if n_particles is not None:
        rpos = rpos[0 : min(rpos.shape[0], n_particles), :]
        filtered_scores = filtered_scores[0 : min(rpos.shape[0], n_particles)]

    # Fill orientation and scores
    # Parse angle index
    ang_idx = angles_map[rpos[:, 0], rpos[:, 1], rpos[:, 2]].astype(int) - angles_numbering

    phi = anglist[ang_idx, 0]
    theta = anglist[ang_idx, 1]
    psi = anglist[ang_idx, 2]

    if symmetry > 1:
        add_phi = np.linspace(0, 360, symmetry + 1)
        add_phi = add_phi[:-1]
        phi = phi + np.random.choice(add_phi, size=phi.shape[0])

    print("Generating motivelist...")

    motl = cryomotl.Motl()
    motl.fill(
        {
            "x": rpos[:, 0] + 1,
            "y": rpos[:, 1] + 1,
            "z": rpos[:, 2] + 1,
            "score": filtered_scores,
            "class": 1,
            "tomo_id": tomo_id,
            "object_id": object_id,
            "phi": phi,
            "theta": theta,
            "psi": psi,
            "subtomo_id": np.arange(1, rpos.shape[0] + 1),
        }
    )

    del s_ind, scored_coords
    gc.collect()

    if output_path is not None:
        if output_type == "emmotl":
            motl.write_out(output_path)
        elif output_type == "stopgap":
            sg_motl = cryomotl.StopgapMotl(motl.df)
            sg_motl.write_out(output_path=output_path)
        elif output_type == "relion":
            rel_motl = cryomotl.RelionMotl(motl.df)
            rel_motl.write_out(output_path=output_path)
        else:
            raise ValueError(f"The output motl type {output_type} is not currently supported.")

    return motl


def frames_identical(a, b):
    """Bitwise identical tables: same columns, order, index, dtypes and values (NaN == NaN)."""
    try:
        pd.testing.assert_frame_equal(a, b, check_exact=True, check_dtype=True)
        return True
    except AssertionError as e:
        return False


# --------------------------------------------------------------------------------------------------------------
# Part 1: clean_by_distance
# --------------------------------------------------------------------------------------------------------------
GROUP_FIELDS = ["tomo_id", "object_id", "class", "geom1", "geom3", "subtomo_mean"]
METRIC_FIELDS = ["score", "geom2", "geom5"]


def make_motl(n, n_groups, group_field, metric_field, rng, layout="clusters", index_mode="default", negative=False):
    df = cryomotl.Motl.create_empty_motl_df()
    if layout == "clusters":
        n_c = max(1, n // 6)
        centres = rng.uniform(-40 if negative else 5, 60, size=(n_c, 3))
        pos = centres[rng.integers(0, n_c, size=n)] + rng.normal(0, 3.0, size=(n, 3))
    elif layout == "uniform":
        pos = rng.uniform(0, 30, size=(n, 3))
    elif layout == "chain":  # chain with spacing 1.0 +- jitter: every particle has close neighbours on both sides
        pos = np.zeros((n, 3))
        pos[:, 0] = np.arange(n) * 1.0 + rng.uniform(-0.2, 0.2, size=n)
        pos[:, 1] = rng.uniform(-0.2, 0.2, size=n)
    else:
        raise ValueError(layout)
    xyz = np.round(pos)
    shifts = pos - xyz
    data = {c: np.zeros(n) for c in cryomotl.Motl.motl_columns}
    data["x"], data["y"], data["z"] = xyz[:, 0], xyz[:, 1], xyz[:, 2]
    data["shift_x"], data["shift_y"], data["shift_z"] = shifts[:, 0], shifts[:, 1], shifts[:, 2]
    data["subtomo_id"] = rng.permutation(n).astype(float) + 1
    data["tomo_id"] = np.ones(n)
    data["object_id"] = np.ones(n)
    data["class"] = np.ones(n)
    data["phi"] = rng.uniform(-180, 180, n)
    data["theta"] = rng.choice([0.0, 180.0, 37.5, 90.0], n)
    data["psi"] = rng.uniform(-180, 180, n)
    # group labels: arbitrary values, zero and negative ids included, not sorted, group 0 is legitimate
    labels = rng.choice([0.0, 3.0, -2.0, 17.0, 5.5, 100.0], size=n_groups, replace=False)
    g = labels[rng.integers(0, n_groups, size=n)]
    g[rng.integers(0, n)] = labels[0]
    data[group_field] = g
    # distinct scores, zeros and negatives included
    sc = rng.permutation(n).astype(float) - n // 2
    sc = sc * rng.choice([1.0, 0.01, 1e-3])
    data[metric_field] = sc
    df = pd.DataFrame(data)[cryomotl.Motl.motl_columns]
    if index_mode == "shuffled":
        df.index = rng.permutation(n) * 3 + 7
    elif index_mode == "reversed":
        df.index = np.arange(n)[::-1]
    return cryomotl.Motl(df)


def safe_radius(coords_by_group, rng, lo=0.3, hi=9.0):
    """A radius d > 0 that is not (nearly) equal to any within-group pairwise distance: exact ties are excluded."""
    for _ in range(100):
        d = float(rng.uniform(lo, hi))
        ok = True
        for c in coords_by_group:
            if len(c) > 1:
                dm = cdist(c, c)
                if np.any(np.abs(dm - d) < 1e-7):
                    ok = False
                    break
        if ok:
            return d
    raise RuntimeError("no safe radius")


def reference_greedy(coords, scores, d, keep_greater):
    """Independent O(n^2) greedy suppression on a full distance matrix; returns the boolean keep mask."""
    n = len(scores)
    dm = cdist(coords, coords)
    order = sorted(range(n), key=lambda i: (-scores[i] if keep_greater else scores[i]))
    alive = [True] * n
    for i in order:
        if alive[i]:
            for k in range(n):
                if k != i and dm[i, k] < d:
                    alive[k] = False
    return np.array(alive, dtype=bool)


def check_clean_property(before, after, d, group_field, metric_field, keep_greater, tag):
    b = before.df.reset_index(drop=True)
    a = after.df
    coords_b = b[["x", "y", "z"]].values + b[["shift_x", "shift_y", "shift_z"]].values
    kept_ids = set(a["subtomo_id"].values.tolist())
    check(len(kept_ids) == a.shape[0], f"{tag}: duplicated rows after cleaning")
    check(kept_ids <= set(b["subtomo_id"].values.tolist()), f"{tag}: invented rows")
    kept_mask = b["subtomo_id"].isin(kept_ids).values
    # rows that stayed are unchanged, in the order: ascending group value, original order inside the group
    exp_rows = []
    for gval in np.unique(b[group_field].values):
        sel = (b[group_field].values == gval) & kept_mask
        exp_rows.append(b.loc[sel])
    exp = pd.concat(exp_rows, ignore_index=True)
    check(frames_identical(exp, a), f"{tag}: surviving rows altered / reordered")
    for gval in np.unique(b[group_field].values):
        gi = np.where(b[group_field].values == gval)[0]
        c = coords_b[gi]
        s = b[metric_field].values[gi]
        km = kept_mask[gi]
        dm = cdist(c, c)
        # separated
        sub = dm[np.ix_(km, km)]
        iu = np.triu_indices(sub.shape[0], 1)
        check(np.all(sub[iu] >= d), f"{tag}: group {gval}: two survivors closer than d")
        check(km.any(), f"{tag}: group {gval}: no survivor")
        # dominating
        for r in np.where(~km)[0]:
            near = km & (dm[r] < d)
            better = (s >= s[r]) if keep_greater else (s <= s[r])
            check(np.any(near & better), f"{tag}: group {gval}: removed particle without a better survivor within d")
        # equals the independent greedy run on the group alone -> other groups had no influence
        ref = reference_greedy(c, s, d, keep_greater)
        check(np.array_equal(ref, km), f"{tag}: group {gval}: differs from the independent greedy reference")


def run_clean_case(m, d, group_field, metric_field, keep_greater, tag, how="kw"):
    before = cryomotl.Motl(m.df.copy())
    m_new = cryomotl.Motl(m.df.copy())
    m_old = cryomotl.Motl(m.df.copy())
    with quiet():
        if how == "kw":
            m_new.clean_by_distance(d, group_field, metric_id=metric_field, keep_greater=keep_greater)
        elif how == "pos":
            m_new.clean_by_distance(d, group_field, metric_field, keep_greater)
        elif how == "defaults":
            assert metric_field == "score" and keep_greater
            m_new.clean_by_distance(d, feature_id=group_field)
        elif how == "none":  # only with the None-sentinel signature
            assert metric_field == "score"
            m_new.clean_by_distance(d, group_field, metric_id=None, keep_greater=keep_greater)
        orig_clean_by_distance(m_old, d, group_field, metric_id=metric_field, keep_greater=keep_greater)
    check(frames_identical(before.df, m.df), f"{tag}: input object touched")
    check(frames_identical(m_old.df, m_new.df), f"{tag}: current method differs from the ORIGINAL method")
    check_clean_property(before, m_new, d, group_field, metric_field, keep_greater, tag)
    # groups alone: cleaning one group on its own gives that group's rows of the joint result
    gvals = np.unique(before.df[group_field].values)
    if len(gvals) > 1:
        gv = gvals[RNG.integers(0, len(gvals))]
        alone = cryomotl.Motl(before.df.loc[before.df[group_field] == gv].copy())
        with quiet():
            alone.clean_by_distance(d, group_field, metric_id=metric_field, keep_greater=keep_greater)
        joint = m_new.df.loc[m_new.df[group_field] == gv].reset_index(drop=True)
        check(frames_identical(alone.df, joint), f"{tag}: group {gv} cleaned alone differs from joint result")
    # repeated call on the same object: a cleaned list is a fixed point
    again = cryomotl.Motl(m_new.df.copy())
    with quiet():
        again.clean_by_distance(d, group_field, metric_id=metric_field, keep_greater=keep_greater)
    check(frames_identical(again.df, m_new.df), f"{tag}: second cleaning changed a cleaned list")
    return m_new


def part1():
    n_cases = 0
    sizes = [1, 1, 2, 2, 3, 5, 8, 13, 40, 77, 150, 400]
    for rep in range(4):
        for n in sizes:
            n_groups = int(RNG.integers(1, min(4, n) + 1))
            gf = GROUP_FIELDS[int(RNG.integers(0, len(GROUP_FIELDS)))]
            mf = METRIC_FIELDS[int(RNG.integers(0, len(METRIC_FIELDS)))]
            kg = bool(RNG.integers(0, 2))
            layout = ["clusters", "uniform", "chain"][int(RNG.integers(0, 3))]
            im = ["default", "shuffled", "reversed"][int(RNG.integers(0, 3))]
            m = make_motl(n, n_groups, gf, mf, RNG, layout=layout, index_mode=im, negative=bool(rep % 2))
            coords = m.get_coordinates()
            groups = [coords[m.df[gf].values == g] for g in np.unique(m.df[gf].values)]
            for d in (safe_radius(groups, RNG), safe_radius(groups, RNG, 0.01, 0.4), safe_radius(groups, RNG, 50, 500)):
                run_clean_case(m, d, gf, mf, kg, f"clean n={n} g={n_groups} {gf}/{mf} kg={kg} {layout} {im} d={d:.4f}")
                n_cases += 1
    # defaults / positional spelling of the optional arguments
    for n in (1, 2, 9, 60):
        m = make_motl(n, min(n, 3), "tomo_id", "score", RNG, index_mode="shuffled")
        coords = m.get_coordinates()
        groups = [coords[m.df["tomo_id"].values == g] for g in np.unique(m.df["tomo_id"].values)]
        d = safe_radius(groups, RNG)
        r1 = run_clean_case(m, d, "tomo_id", "score", True, f"clean defaults n={n}", how="defaults")
        r2 = run_clean_case(m, d, "tomo_id", "score", True, f"clean positional n={n}", how="pos")
        check(frames_identical(r1.df, r2.df), "defaults vs positional")
        n_cases += 2
    return n_cases


# --------------------------------------------------------------------------------------------------------------
# Part 2: scores_extract_particles
# --------------------------------------------------------------------------------------------------------------
def make_maps(shape, n_ang, numbering, rng, dtype=np.float32):
    nvox = int(np.prod(shape))
    # plateau-free: a permutation of distinct values (exactly representable in float32)
    vals = (rng.permutation(nvox).astype(np.float64) + 1.0) / 1024.0
    if rng.integers(0, 2):
        vals = vals - float(rng.integers(0, nvox)) / 1024.0  # negative scores and (maybe) an exact zero
    scores = vals.reshape(shape).astype(dtype)
    assert len(np.unique(scores)) == nvox
    angles_map = (rng.integers(0, n_ang, size=shape) + numbering).astype(np.float32)
    # make sure first and last entries of the list are pointed to
    flat = angles_map.reshape(-1)
    flat[rng.integers(0, nvox)] = numbering
    flat[rng.integers(0, nvox)] = n_ang - 1 + numbering
    anglist = np.column_stack(
        [rng.uniform(-180, 180, n_ang), rng.choice([0.0, 180.0, 12.5, 90.0, 133.0], n_ang), rng.uniform(-180, 180, n_ang)]
    )
    anglist = np.round(anglist, 3)
    anglist[0] = [0.0, 0.0, 0.0]
    return scores, angles_map, anglist


def expected_peaks(scores, threshold, diameter):
    """Independent greedy suppression on the lattice; integer squared distances, so <= diameter is exact."""
    idx = np.argwhere(scores > threshold)
    if len(idx) == 0:
        return None, None
    sc = scores[idx[:, 0], idx[:, 1], idx[:, 2]]
    order = np.argsort(-sc.astype(np.float64), kind="stable")
    idx, sc = idx[order], sc[order]
    alive = np.ones(len(idx), dtype=bool)
    peaks = []
    r2 = diameter * diameter
    for i in range(len(idx)):
        if not alive[i]:
            continue
        peaks.append(i)
        d2 = np.sum((idx - idx[i]) ** 2, axis=1)
        alive[(d2 <= r2) & (sc <= sc[i])] = False
    return idx[peaks], sc[peaks]


def check_peaks_property(motl, scores, angles_map, anglist_eff, threshold, diameter, numbering, tomo_id, object_id, tag):
    df = motl.df
    pos = df[["x", "y", "z"]].values
    check(np.all(pos == np.round(pos)), f"{tag}: non-integer positions")
    v = pos.astype(int) - 1  # 1-based -> voxel
    check(np.all(v >= 0) and np.all(v < np.array(scores.shape)), f"{tag}: positions outside the map")
    sc = scores[v[:, 0], v[:, 1], v[:, 2]]
    check(np.array_equal(df["score"].values, sc.astype(df["score"].values.dtype)), f"{tag}: score is not the voxel's score")
    check(np.all(sc > threshold), f"{tag}: peak not above threshold")
    # separated (strictly farther than the diameter)
    d2 = np.sum((v[:, None, :] - v[None, :, :]) ** 2, axis=2)
    iu = np.triu_indices(len(v), 1)
    check(np.all(d2[iu] > diameter * diameter), f"{tag}: two peaks within the diameter")
    # dominating
    idx = np.argwhere(scores > threshold)
    s_all = scores[idx[:, 0], idx[:, 1], idx[:, 2]]
    dd = np.sum((idx[:, None, :] - v[None, :, :]) ** 2, axis=2)
    ok = ((dd <= diameter * diameter) & (sc[None, :] >= s_all[:, None])).any(axis=1)
    check(np.all(ok), f"{tag}: supra-threshold voxel without a dominating peak within the diameter")
    # angles
    ai = angles_map[v[:, 0], v[:, 1], v[:, 2]].astype(int) - numbering
    check(np.all(ai >= 0), f"{tag}: negative angle index in the test itself")
    check(np.array_equal(df["phi"].values, anglist_eff[ai, 0]), f"{tag}: phi")
    check(np.array_equal(df["theta"].values, anglist_eff[ai, 1]), f"{tag}: theta")
    check(np.array_equal(df["psi"].values, anglist_eff[ai, 2]), f"{tag}: psi")
    # bookkeeping
    check(np.all(df["tomo_id"].values == tomo_id), f"{tag}: tomo_id")
    check(np.all(df["object_id"].values == (1 if object_id is None else object_id)), f"{tag}: object_id")
    check(np.all(df["class"].values == 1), f"{tag}: class")
    check(np.array_equal(df["subtomo_id"].values, np.arange(1, len(df) + 1)), f"{tag}: subtomo_id")
    check(np.all(np.diff(df["score"].values) < 0), f"{tag}: peaks not in descending score order")
    # exact set predicted by the independent greedy computation
    ev, es = expected_peaks(scores, threshold, diameter)
    check(ev is not None and np.array_equal(ev, v), f"{tag}: peak set differs from the independent greedy computation")


def run_extract_case(scores, angles_map, anglist, tag, *, threshold, diameter, numbering, order, tomo_id=7, object_id=None,
                     as_file=False, tmpdir=None, extra=None, use_defaults=False, none_defaults=False):
    extra = dict(extra or {})
    ang_in = anglist
    anglist_eff = anglist
    if as_file:
        p = os.path.join(tmpdir, f"angles_{abs(hash(tag)) % 10**9}.csv")
        pd.DataFrame(anglist).to_csv(p, header=False, index=False)
        ang_in = p
        if order == "zzx":  # file columns are phi, psi, theta
            anglist_eff = pd.read_csv(p, header=None).values[:, [0, 2, 1]]
        else:
            anglist_eff = pd.read_csv(p, header=None).values
    kw = dict(scores_threshold=threshold, object_id=object_id)
    kw_new = dict(kw)
    if use_defaults:
        assert order == "zxz" and numbering == 0
    elif none_defaults:
        assert order == "zxz" and numbering == 0
        kw_new.update(angles_order=None, angles_numbering=None)
    else:
        kw_new.update(angles_order=order, angles_numbering=numbering)
    kw.update(angles_order=order, angles_numbering=numbering)
    kw.update(extra)
    kw_new.update(extra)
    s_in, a_in, l_in = scores.copy(), angles_map.copy(), (anglist.copy() if not as_file else None)
    with quiet(), warnings.catch_warnings():
        warnings.simplefilter("ignore")
        new = tmana.scores_extract_particles(scores, angles_map, ang_in, tomo_id, diameter, **kw_new)
        old = orig_scores_extract_particles(scores, angles_map, ang_in, tomo_id, diameter, **kw)
    check(np.array_equal(s_in, scores) and np.array_equal(a_in, angles_map), f"{tag}: input maps touched")
    if l_in is not None:
        check(np.array_equal(l_in, anglist), f"{tag}: angle list touched")
    if old is None or new is None:
        check(old is None and new is None, f"{tag}: None vs Motl (current vs ORIGINAL)")
        check(not np.any(scores > threshold), f"{tag}: None returned although voxels exceed the threshold")
        return None
    check(frames_identical(old.df, new.df), f"{tag}: current function differs from the ORIGINAL function")
    if not extra:
        check_peaks_property(new, scores, angles_map, anglist_eff, threshold, diameter, numbering, tomo_id, object_id, tag)
    return new


def part2(tmpdir):
    n_cases = 0
    shapes = [(1, 1, 1), (2, 2, 2), (3, 4, 5), (7, 7, 7), (8, 8, 8), (9, 6, 11), (12, 12, 12), (15, 14, 13), (20, 21, 10)]
    for rep in range(3):
        for shape in shapes:
            numbering = int(RNG.integers(0, 2))
            order = ["zxz", "zzx"][int(RNG.integers(0, 2))]
            as_file = bool(RNG.integers(0, 2))
            n_ang = int(RNG.integers(1, 40))
            dtype = [np.float32, np.float64][int(RNG.integers(0, 2))]
            scores, amap, alist = make_maps(shape, n_ang, numbering, RNG, dtype=dtype)
            srt = np.sort(scores, axis=None)
            nv = len(srt)
            # thresholds: quantiles, exactly a voxel's value (that voxel is then NOT above), below all, max (-> None)
            thr = [float(srt[int(0.5 * (nv - 1))]), float(srt[int(0.9 * (nv - 1))]), float(srt[0]) - 1.0, float(srt[-1])]
            if nv > 1:
                thr.append(float(srt[-2]))  # exactly one voxel above
                thr.append(float((srt[-1] + srt[-2]) / 2))
            # diameters: integers (exact lattice ties 3-4-5, 1, 2), non-lattice floats, tiny, huge
            dias = [1.0, 2.0, 3.0, 5.0, float(RNG.uniform(0.05, 0.9)), float(RNG.uniform(1.05, 6.5)) + 1e-4 * np.pi, 100.0]
            for t in thr:
                for dia in [dias[i] for i in RNG.choice(len(dias), size=3, replace=False)]:
                    oid = [None, 0, 4][int(RNG.integers(0, 3))]
                    tid = [0, 7, 133][int(RNG.integers(0, 3))]
                    tag = f"extract {shape} {np.dtype(dtype).name} thr={t:.5f} dia={dia:.5f} num={numbering} {order} file={as_file} oid={oid}"
                    run_extract_case(scores, amap, alist, tag, threshold=t, diameter=dia, numbering=numbering, order=order,
                                     tomo_id=tid, object_id=oid, as_file=as_file, tmpdir=tmpdir)
                    n_cases += 1
    # one full-size map (40^3), high threshold
    scores, amap, alist = make_maps((40, 40, 40), 50, 1, RNG)
    t = float(np.sort(scores, axis=None)[-1500])
    for dia in (4.0, 7.3):
        run_extract_case(scores, amap, alist, f"extract 40^3 dia={dia}", threshold=t, diameter=dia, numbering=1, order="zzx",
                         as_file=True, tmpdir=tmpdir)
        n_cases += 1
    return n_cases


# --------------------------------------------------------------------------------------------------------------
# Part 3: boundary inputs of the idioms
# --------------------------------------------------------------------------------------------------------------
def part3(tmpdir):
    n_cases = 0
    # --- clean_by_distance ---------------------------------------------------------------------------------
    # (i) nobody in reach of anybody (the "nothing to remove" mask is all False for every particle)
    # (ii) everybody in reach of the best one (only one survivor per group; the set of survivors shrinks to one)
    # (iii) two particles: the worse one is the LAST in the ranking and is / is not in reach
    # (iv) chains where the last-ranked particle is still alive and has (already removed) neighbours within d
    for kg in (True, False):
        for n in (1, 2, 3, 4, 7, 30):
            m = make_motl(n, 1, "tomo_id", "score", RNG, layout="chain", index_mode="shuffled")
            # chain spacing ~1: d = 0.3 nobody, d = 1.5 neighbours, d = 2.5 second neighbours, d = 1e6 everybody
            for d in (0.3, 1.5, 2.5, 1e6):
                run_clean_case(m, d, "tomo_id", "score", kg, f"chain n={n} kg={kg} d={d}")
                n_cases += 1
            # ranking along the chain: best at one end, so the last-ranked particle sits at the other end; with d=1.5
            # every second particle survives and for even/odd n the last-ranked one is removed/alive
            for direction in (1, -1):
                mm = cryomotl.Motl(m.df.copy())
                order = np.argsort(mm.df["x"].values + mm.df["shift_x"].values)
                sc = np.empty(n)
                sc[order] = np.arange(n)[::direction] * 0.5 - 1.0
                mm.df["score"] = sc
                for d in (1.5, 2.5):
                    run_clean_case(mm, d, "tomo_id", "score", kg, f"ranked chain n={n} kg={kg} dir={direction} d={d}")
                    n_cases += 1
    # groups of size one next to big groups, group label 0, score 0 as the best / worst score
    for kg in (True, False):
        m = make_motl(25, 1, "object_id", "geom2", RNG, layout="uniform")
        m.df.loc[m.df.index[3], "object_id"] = 0.0
        m.df.loc[m.df.index[11], "object_id"] = -1.0
        m.df["geom2"] = np.arange(25)[::-1] * (-1.0)  # best (for keep_greater) score is exactly 0
        run_clean_case(m, 6.1234567, "object_id", "geom2", kg, f"singleton groups kg={kg}")
        n_cases += 1
    # keep_greater passed as 1 / 0 (truthy / falsy numbers are what callers pass)
    m = make_motl(40, 2, "tomo_id", "score", RNG)
    for kgv in (1, 0, np.True_, np.False_):
        a = cryomotl.Motl(m.df.copy())
        b = cryomotl.Motl(m.df.copy())
        with quiet():
            a.clean_by_distance(3.3333, "tomo_id", "score", kgv)
            orig_clean_by_distance(b, 3.3333, "tomo_id", "score", kgv)
        check(frames_identical(a.df, b.df), f"keep_greater={kgv!r}: differs from ORIGINAL")
        n_cases += 1
    # beyond the quantifier, still bitwise equal to the ORIGINAL: exact distance ties on the lattice (integer d),
    # duplicated positions, tied scores, NaN scores, NaN coordinates
    for rep in range(40):
        n = int(RNG.integers(1, 60))
        m = make_motl(n, int(RNG.integers(1, min(3, n) + 1)), "tomo_id", "score", RNG, layout="uniform")
        m.df[["x", "y", "z"]] = RNG.integers(0, 6, size=(n, 3)).astype(float)
        m.df[["shift_x", "shift_y", "shift_z"]] = 0.0
        if rep % 2:
            m.df["score"] = RNG.integers(0, 4, size=n).astype(float)
        if rep % 5 == 0:
            m.df.loc[m.df.index[RNG.integers(0, n)], "score"] = np.nan
        if rep % 7 == 0:
            m.df.loc[m.df.index[RNG.integers(0, n)], "shift_y"] = np.nan
        for d in (1.0, 2.0, 3.0, 5.0, float(np.sqrt(2.0)), float(np.sqrt(3.0))):
            for kg in (True, False):
                a = cryomotl.Motl(m.df.copy())
                b = cryomotl.Motl(m.df.copy())
                with quiet():
                    a.clean_by_distance(d, "tomo_id", "score", kg)
                    orig_clean_by_distance(b, d, "tomo_id", "score", kg)
                check(frames_identical(a.df, b.df), f"ties / NaN rep={rep} d={d} kg={kg}: differs from ORIGINAL")
                n_cases += 1
    # an unknown metric / grouping column raises exactly as before
    for kwargs in (dict(feature_id="tomo_id", metric_id="nope"), dict(feature_id="nope", metric_id="score")):
        outcome = []
        for fn in (lambda mm: mm.clean_by_distance(2.0, **kwargs), lambda mm: orig_clean_by_distance(mm, 2.0, **kwargs)):
            mm = cryomotl.Motl(m.df.copy())
            try:
                with quiet():
                    fn(mm)
                outcome.append("no error")
            except Exception as e:  # noqa
                outcome.append(type(e).__name__ + ":" + str(e))
        check(outcome[0] == outcome[1] and outcome[0] != "no error", f"error outcome differs: {outcome}")
        n_cases += 1
    # None-sentinel signature (only present with that change): None means the documented default
    sig = inspect.signature(cryomotl.Motl.clean_by_distance)
    check(sig.parameters["keep_greater"].default is True, "keep_greater default changed")
    check(sig.parameters["dist_mask"].default is None, "dist_mask default changed")
    if sig.parameters["metric_id"].default is None:
        for n in (1, 5, 50):
            m = make_motl(n, min(n, 2), "tomo_id", "score", RNG)
            m.df["geom2"] = -m.df["score"]  # a different metric would give a different answer
            r_none = run_clean_case(m, 4.4321, "tomo_id", "score", True, f"metric_id=None n={n}", how="none")
            r_def = run_clean_case(m, 4.4321, "tomo_id", "score", True, f"metric_id omitted n={n}", how="defaults")
            check(frames_identical(r_none.df, r_def.df), "metric_id=None vs omitted")
            n_cases += 2
    else:
        check(sig.parameters["metric_id"].default == "score", "metric_id default changed")

    # --- scores_extract_particles --------------------------------------------------------------------------
    sig = inspect.signature(tmana.scores_extract_particles)
    for name, val in (("object_id", None), ("scores_threshold", None), ("sigma_threshold", None), ("cluster_size", None),
                      ("n_particles", None), ("output_path", None), ("output_type", "emmotl"), ("symmetry", "c1"),
                      ("tomo_mask", None)):
        check(sig.parameters[name].default == val and type(sig.parameters[name].default) is type(val), f"default of {name} changed")
    none_sig = sig.parameters["angles_order"].default is None
    if not none_sig:
        check(sig.parameters["angles_order"].default == "zxz", "angles_order default changed")
        check(sig.parameters["angles_numbering"].default == 0, "angles_numbering default changed")
    else:
        check(sig.parameters["angles_numbering"].default is None, "angles_numbering sentinel")
    scores, amap, alist = make_maps((10, 9, 8), 12, 0, RNG)
    srt = np.sort(scores, axis=None)
    # defaults omitted (zxz, numbering 0), array and file input
    for as_file in (False, True):
        for t in (float(srt[-40]), float(srt[-1]), float(srt[-2])):
            run_extract_case(scores, amap, alist, f"defaults omitted file={as_file} thr={t}", threshold=t, diameter=3.0,
                             numbering=0, order="zxz", as_file=as_file, tmpdir=tmpdir, use_defaults=True)
            n_cases += 1
            if none_sig:
                run_extract_case(scores, amap, alist, f"None passed file={as_file} thr={t}", threshold=t, diameter=3.0,
                                 numbering=0, order="zxz", as_file=as_file, tmpdir=tmpdir, none_defaults=True)
                n_cases += 1
    # numbering 1 with a map entry pointing to the FIRST list entry (index 0 after the shift) and the last one
    scores, amap, alist = make_maps((6, 6, 6), 5, 1, RNG)
    best = np.unravel_index(np.argmax(scores), scores.shape)
    amap[best] = 1.0
    r = run_extract_case(scores, amap, alist, "numbering 1 -> entry 0", threshold=float(np.sort(scores, axis=None)[-30]),
                         diameter=2.0, numbering=1, order="zxz")
    check(r is not None and np.array_equal(r.df.loc[0, ["phi", "theta", "psi"]].values.astype(float), alist[0]), "first entry")
    n_cases += 1
    # n_particles: None, 0 (a legitimate number, not "unset"), 1, exactly the count, more than the count
    scores, amap, alist = make_maps((11, 10, 9), 9, 0, RNG)
    t = float(np.sort(scores, axis=None)[-120])
    full = run_extract_case(scores, amap, alist, "n_particles None", threshold=t, diameter=2.5, numbering=0, order="zxz")
    nfull = full.df.shape[0]
    for npart in (1, 2, nfull - 1, nfull, nfull + 1, 10 * nfull):
        r = run_extract_case(scores, amap, alist, f"n_particles={npart}", threshold=t, diameter=2.5, numbering=0, order="zxz",
                             extra=dict(n_particles=npart))
        check(frames_identical(r.df, full.df.iloc[: min(npart, nfull)]), f"n_particles={npart}: not the best {npart} peaks")
        n_cases += 1
    # n_particles = 0 and negative values: same outcome (value or exception) as the original
    for npart in (0, -1, -nfull, -nfull - 3):
        outcome = []
        for fn in (tmana.scores_extract_particles, orig_scores_extract_particles):
            try:
                with quiet():
                    r = fn(scores, amap, alist, 3, 2.5, scores_threshold=t, n_particles=npart)
                outcome.append(r.df)
            except Exception as e:  # noqa
                outcome.append(type(e).__name__ + ":" + str(e))
        if isinstance(outcome[0], str) or isinstance(outcome[1], str):
            check(isinstance(outcome[0], str) and outcome[0] == outcome[1], f"n_particles={npart}: outcomes differ: {outcome}")
        else:
            check(frames_identical(outcome[0], outcome[1]), f"n_particles={npart}: tables differ")
        n_cases += 1
    # cluster_size 0 / 1 / 2 (0 is a number, not "unset"), sigma threshold, triangle threshold, mask, symmetry
    for extra in (dict(cluster_size=0), dict(cluster_size=1), dict(cluster_size=2),):
        outcome = []
        for fn in (tmana.scores_extract_particles, orig_scores_extract_particles):
            try:
                with quiet():
                    r = fn(scores, amap, alist, 3, 2.5, scores_threshold=t, **extra)
                outcome.append(r.df)
            except Exception as e:  # noqa
                outcome.append(type(e).__name__ + ":" + str(e))
        if isinstance(outcome[0], str) or isinstance(outcome[1], str):
            check(isinstance(outcome[0], str) and outcome[0] == outcome[1], f"{extra}: outcomes differ: {outcome}")
        else:
            check(frames_identical(outcome[0], outcome[1]), f"{extra}: tables differ")
        n_cases += 1
    mask = (RNG.uniform(size=scores.shape) > 0.3).astype(np.float32)
    pos_scores = scores - scores.min() + np.float32(1.0 / 1024.0)
    for kw in (dict(sigma_threshold=2.0), dict(sigma_threshold=0.0), dict(), dict(tomo_mask=mask, scores_threshold=t),
               dict(tomo_mask=np.zeros_like(mask), scores_threshold=0.5), dict(scores_threshold=0.0), dict(scores_threshold=0)):
        with quiet():
            a = tmana.scores_extract_particles(pos_scores, amap, alist, 0, 3.0, **kw)
            b = orig_scores_extract_particles(pos_scores, amap, alist, 0, 3.0, **kw)
        if a is None or b is None:
            check(a is None and b is None, f"{kw.keys()}: None vs Motl")
        else:
            check(frames_identical(a.df, b.df), f"{list(kw.keys())}: differs from ORIGINAL")
        n_cases += 1
    # symmetry c4: random phi offsets -- same random stream, same table
    for sym in ("c1", "C4", "c12"):
        with quiet():
            np.random.seed(5)
            a = tmana.scores_extract_particles(scores, amap, alist, 0, 3.0, scores_threshold=t, symmetry=sym)
            np.random.seed(5)
            b = orig_scores_extract_particles(scores, amap, alist, 0, 3.0, scores_threshold=t, symmetry=sym)
        check(frames_identical(a.df, b.df), f"symmetry {sym}: differs from ORIGINAL")
        n_cases += 1
    # written output: same file content for every output type, unknown type raises as before
    for otype in ("emmotl", "stopgap", "relion", "bogus"):
        res = []
        for i, fn in enumerate((tmana.scores_extract_particles, orig_scores_extract_particles)):
            ext = {"emmotl": ".em", "stopgap": ".star", "relion": ".star", "bogus": ".em"}[otype]
            p = os.path.join(tmpdir, f"out_{otype}_{i}{ext}")
            try:
                with quiet(), warnings.catch_warnings():
                    warnings.simplefilter("ignore")
                    fn(scores, amap, alist, 2, 3.0, scores_threshold=t, output_path=p, output_type=otype)
                res.append(open(p, "rb").read())
            except Exception as e:  # noqa
                res.append(type(e).__name__ + ":" + str(e))
        check(res[0] == res[1], f"output_type={otype}: written files / errors differ")
        check((otype == "bogus") == isinstance(res[0], str), f"output_type={otype}: unexpected outcome {res[0][:80] if isinstance(res[0], str) else 'bytes'}")
        n_cases += 1
    return n_cases


def main():
    with tempfile.TemporaryDirectory() as tmpdir:
        n1 = part1()
        n2 = part2(tmpdir)
        n3 = part3(tmpdir)
    print(f"change {CHANGE}: clean_by_distance cases: {n1}, scores_extract_particles cases: {n2}, boundary cases: {n3}")
    if FAIL:
        print(f"{len(FAIL)} check(s) failed")
        sys.exit(1)
    print("PASS")


if __name__ == "__main__":
    main()
