"""C20 demo -- membrane thickness pairs: one-to-one, forward, within range and cone.

Run as:  cd /tmp/wt6/C20 && /venv/bin/python /tmp/seedsR/C20/<x>/demo.py

Checks the property on measure_thickness_cpu (and on the numba candidate kernel find_matches_parallel followed by
process_matches_cpu2cpu, and end-to-end through read_segmentation / measure_membrane_thickness) against an independent
brute-force computation, and compares the helpers of the tree with verbatim copies of the ORIGINAL helper texts.
Prints PASS and exits 0 when everything holds.
"""
import sys, os

sys.path.insert(0, os.getcwd())

import io, contextlib, logging, tempfile, shutil, warnings
import numpy as np
import pandas as pd
import mrcfile

from cryocat import memthick

FOCUS = "b: read_segmentation with optional permissive / anisotropy_tolerance parameters and header diagnostics"

QUIET = logging.getLogger("c20demo")
QUIET.setLevel(logging.CRITICAL + 10)
QUIET.propagate = False
QUIET.addHandler(logging.NullHandler())

FAILS = []


def check(cond, msg):
    if not cond:
        FAILS.append(msg)
        if len(FAILS) <= 20:
            print("FAIL:", msg)
    return cond


# ----------------------------------------------------------------------------------------------------------------
# verbatim copies of the ORIGINAL helpers (text of the unmodified tree), executed in a copy of the module namespace
# ----------------------------------------------------------------------------------------------------------------
ORIG_SRC = '''
def read_segmentation(segmentation_path, logger=None):
    log_msg = lambda msg: logger.info(msg) if logger else print(msg)

    log_msg(f"Reading segmentation from {segmentation_path}...")
    try:
        with mrcfile.mmap(segmentation_path, mode="r", permissive=True) as mrc:
            segmentation = mrc.data
            voxel_size = mrc.voxel_size.x / 10  # Convert to nm
            origin = (mrc.header.origin.x / 10, mrc.header.origin.y / 10, mrc.header.origin.z / 10)

            log_msg(f"Voxel size: {voxel_size:.4f} nm")
            log_msg(f"Origin: {origin}")

        return segmentation, voxel_size, origin
    except Exception as e:
        log_msg(f"Error reading MRC file: {e}")
        traceback.print_exc()
        return None, None, None


def process_matches_gpu2cpu(match_distances, match_indices, match_counts, n_points, max_matches_per_point, voxel_size):
    # Create arrays for final results (still in voxel units)
    thickness_results = np.zeros(n_points, dtype=np.float32)
    valid_mask = np.zeros(n_points, dtype=np.bool_)
    point_pairs = np.zeros(n_points, dtype=np.int32)

    # Create list of all possible matches
    all_matches = []
    for i in range(n_points):
        count = match_counts[i]
        for j in range(count):
            match_idx = i * max_matches_per_point + j
            all_matches.append(
                (
                    match_distances[match_idx],  # distance in voxel units
                    i,  # surface1 point index
                    match_indices[match_idx],  # surface2 point index
                )
            )

    # Sort matches by distance
    all_matches.sort()

    # Track assigned points
    surface1_assigned = set()
    surface2_assigned = set()

    # Assign matches
    for dist, surf1_idx, surf2_idx in all_matches:
        if surf1_idx not in surface1_assigned and surf2_idx not in surface2_assigned:
            # Assign match (still in voxel units)
            thickness_results[surf1_idx] = dist
            valid_mask[surf1_idx] = True
            point_pairs[surf1_idx] = surf2_idx

            surface1_assigned.add(surf1_idx)
            surface2_assigned.add(surf2_idx)

    # Convert thickness results to physical units before returning
    thickness_results = thickness_results * voxel_size

    return thickness_results, valid_mask, point_pairs


def process_matches_cpu2cpu(flat_matches, n_points, voxel_size):
    # Create arrays for final results (still in voxel units)
    thickness_results = np.zeros(n_points, dtype=np.float32)
    valid_mask = np.zeros(n_points, dtype=np.bool_)
    point_pairs = np.zeros(n_points, dtype=np.int32)

    # Sort matches by distance
    flat_matches.sort()

    # Track assigned points
    source_assigned = set()
    target_assigned = set()

    # Assign matches
    for dist, source_idx, target_idx in flat_matches:
        if source_idx not in source_assigned and target_idx not in target_assigned:
            # Assign match (still in voxel units)
            thickness_results[source_idx] = dist
            valid_mask[source_idx] = True
            point_pairs[source_idx] = target_idx

            source_assigned.add(source_idx)
            target_assigned.add(target_idx)

    # Convert thickness results to physical units before returning
    thickness_results = thickness_results * voxel_size

    return thickness_results, valid_mask, point_pairs
'''
_orig_ns = dict(vars(memthick))
exec(compile(ORIG_SRC, "<original helpers>", "exec"), _orig_ns)
orig_read_segmentation = _orig_ns["read_segmentation"]
orig_process_matches_gpu2cpu = _orig_ns["process_matches_gpu2cpu"]
orig_process_matches_cpu2cpu = _orig_ns["process_matches_cpu2cpu"]


def same_triplet(a, b, what):
    ok = True
    for x, y, nm in zip(a, b, ("thickness", "valid", "pairs")):
        ok &= check(type(x) is type(y) and x.dtype == y.dtype and x.shape == y.shape, f"{what}: {nm} dtype/shape differ")
        ok &= check(np.array_equal(x, y), f"{what}: {nm} values differ")
    return ok


# ----------------------------------------------------------------------------------------------------------------
# input generator: two roughly parallel sheets (flat, curved or tilted), jitter, noisy unit normals, labellings
# ----------------------------------------------------------------------------------------------------------------
def random_rotation(rng):
    q = rng.normal(size=4)
    q /= np.linalg.norm(q)
    w, x, y, z = q
    return np.array(
        [
            [1 - 2 * (y * y + z * z), 2 * (x * y - z * w), 2 * (x * z + y * w)],
            [2 * (x * y + z * w), 1 - 2 * (x * x + z * z), 2 * (y * z - x * w)],
            [2 * (x * z - y * w), 2 * (y * z + x * w), 1 - 2 * (x * x + y * y)],
        ]
    )


def perturb_normals(rng, normals, noise_deg):
    out = np.empty_like(normals)
    for i, n in enumerate(normals):
        a = rng.normal(size=3)
        a -= a.dot(n) * n
        na = np.linalg.norm(a)
        if na < 1e-12:
            out[i] = n
            continue
        a /= na
        ang = np.radians(noise_deg) * abs(rng.normal())
        v = np.cos(ang) * n + np.sin(ang) * a
        out[i] = v / np.linalg.norm(v)
    return out


def make_case(rng, n, shape, labelling, noise_deg, gap, spacing, jitter, aligned=None):
    """aligned: None -> the two sheets are sampled independently; a float -> the points of the second sheet sit
    across the points of the first one with that much lateral scatter (gives pairs inside narrow cones)"""
    n_low = n // 2
    n_up = n - n_low
    base_xy = []

    def sheet(m, offset, sign):
        side = int(np.ceil(np.sqrt(m)))
        gx, gy = np.meshgrid(np.arange(side), np.arange(side), indexing="ij")
        xy = np.stack([gx.ravel(), gy.ravel()], axis=1)[:m].astype(float) * spacing
        xy += rng.uniform(-jitter, jitter, size=xy.shape) + rng.uniform(0, spacing, size=2)
        if aligned is not None and base_xy:
            prev = base_xy[0]
            xy[: len(prev)] = prev[:m] + rng.uniform(-aligned, aligned, size=prev[:m].shape)
        base_xy.append(xy.copy())
        x, y = xy[:, 0], xy[:, 1]
        if shape == "flat":
            z = np.zeros(m)
            gxz, gyz = np.zeros(m), np.zeros(m)
        elif shape == "tilted":
            z = 0.25 * x - 0.15 * y
            gxz, gyz = np.full(m, 0.25), np.full(m, -0.15)
        else:  # curved
            R = 60.0
            z = (x * x + 0.5 * y * y) / (2 * R)
            gxz, gyz = x / R, 0.5 * y / R
        nrm = np.stack([-gxz, -gyz, np.ones(m)], axis=1)
        nrm /= np.linalg.norm(nrm, axis=1)[:, None]
        pts = np.stack([x, y, z], axis=1) + offset * nrm
        pts += rng.uniform(-jitter, jitter, size=pts.shape) * (1.0 if aligned is None else 0.05)
        return pts, sign * nrm

    p_low, n_lowv = sheet(n_low, 0.0, +1.0)
    p_up, n_upv = sheet(n_up, gap, -1.0)
    points = np.vstack([p_low, p_up])
    normals = perturb_normals(rng, np.vstack([n_lowv, n_upv]), noise_deg)
    if noise_deg == 0.0 and shape == "flat":
        normals = np.vstack([n_lowv, n_upv])  # exactly axis-aligned normals
    s1 = np.zeros(n, dtype=bool)
    s1[:n_low] = True
    s2 = ~s1
    if labelling == "swapped":
        s1, s2 = s2, s1
    elif labelling == "holes":  # some points belong to neither surface
        drop = rng.random(n) < 0.2
        s1, s2 = s1 & ~drop, s2 & ~drop
    elif labelling == "random":  # labels unrelated to the sheets
        lab = rng.integers(0, 3, size=n)
        s1, s2 = lab == 1, lab == 2
    elif labelling == "overlap":  # a few points carry both labels
        both = rng.random(n) < 0.1
        s1, s2 = s1 | both, s2 | both
    # arbitrary order of the points
    perm = rng.permutation(n)
    points, normals, s1, s2 = points[perm], normals[perm], s1[perm], s2[perm]
    # rigid placement of the whole scene
    Rm = random_rotation(rng) if shape != "flat" or rng.random() < 0.5 else np.eye(3)
    t = rng.uniform(-50, 200, size=3)
    points = points @ Rm.T + t
    normals = normals @ Rm.T
    return np.ascontiguousarray(points), np.ascontiguousarray(normals), s1, s2


# ----------------------------------------------------------------------------------------------------------------
# independent computation: brute force over all source x target pairs, greedy by repeated global minimum
# ----------------------------------------------------------------------------------------------------------------
def admissible_table(points, normals, s1, s2, voxel, max_nm, max_deg, direction):
    src, tgt = (s2, s1) if direction == "2to1" else (s1, s2)
    si, ti = np.flatnonzero(src), np.flatnonzero(tgt)
    P, T, N = points[si], points[ti], normals[si]
    dx = T[None, :, 0] - P[:, None, 0]
    dy = T[None, :, 1] - P[:, None, 1]
    dz = T[None, :, 2] - P[:, None, 2]
    dist = np.sqrt(dx * dx + dy * dy + dz * dz)
    proj = dx * N[:, None, 0] + dy * N[:, None, 1] + dz * N[:, None, 2]
    maxvox = max_nm / voxel
    c = np.cos(np.radians(max_deg))
    adm = (dist <= maxvox) & (proj > 0) & (proj > c * dist)
    # how close any decision is to its boundary (used to decide whether invariance checks are meaningful)
    near = (dist <= maxvox * 1.05 + 1e-9) & (dist > 0)  # a point carrying both labels meets itself at distance 0
    margin = np.inf
    if near.any():
        margin = min(
            np.abs(dist - maxvox)[near].min(),
            np.abs(proj - c * dist)[near].min(),
            np.abs(proj)[near].min(),
        )
    # gaps between candidate distances (ties decide the greedy order); the two directions of one and the same
    # pair of doubly labelled points have the same length by construction and count once
    ia, ib = np.nonzero(adm)
    ga, gb = si[ia], ti[ib]
    key = np.minimum(ga, gb) * (len(points) + 1) + np.maximum(ga, gb)
    _, first = np.unique(key, return_index=True)
    dd = np.sort(dist[ia[first], ib[first]])
    if dd.size > 1:
        margin = min(margin, np.diff(dd).min())
    return si, ti, dist, proj, adm, margin


def reference(points, normals, s1, s2, voxel, max_nm, max_deg, direction):
    n = len(points)
    si, ti, dist, proj, adm, margin = admissible_table(points, normals, s1, s2, voxel, max_nm, max_deg, direction)
    valid = np.zeros(n, dtype=bool)
    pairs = np.zeros(n, dtype=np.int64)
    dvox = np.zeros(n)
    work = np.where(adm, dist, np.inf)
    ncand = adm.sum(axis=1).max() if adm.size else 0
    while work.size and np.isfinite(work).any():
        k = int(np.argmin(work))  # first minimum in row-major order == smallest (dist, source, target)
        a, b = divmod(k, work.shape[1])
        valid[si[a]] = True
        pairs[si[a]] = ti[b]
        dvox[si[a]] = work[a, b]
        work[a, :] = np.inf
        work[:, b] = np.inf
    return valid, pairs, dvox, ncand, margin


def check_property(tag, points, normals, s1, s2, voxel, max_nm, max_deg, direction, result):
    """The statements of the property, checked directly on the returned arrays."""
    thick, valid, pairs = result
    n = len(points)
    src, tgt = (s2, s1) if direction == "2to1" else (s1, s2)
    check(thick.shape == (n,) and valid.shape == (n,) and pairs.shape == (n,), f"{tag}: shapes")
    check(valid.dtype == np.bool_, f"{tag}: valid dtype")
    check(not np.any(valid & ~src), f"{tag}: a non-source point is marked valid")
    vi = np.flatnonzero(valid)
    tg = pairs[vi].astype(np.int64)
    check(np.all(tgt[tg]) if vi.size else True, f"{tag}: partner is not a target point")
    check(len(set(tg.tolist())) == tg.size, f"{tag}: a target is used twice")
    check(np.all(thick[~valid] == 0) and np.all(pairs[~valid] == 0), f"{tag}: unmatched entries are not zero")
    d = points[tg] - points[vi]
    eu = np.sqrt((d * d).sum(axis=1))
    check(np.allclose(np.asarray(thick[vi], dtype=float), eu * float(voxel), rtol=2e-6, atol=0), f"{tag}: thickness != distance * voxel")
    check(np.all(np.asarray(thick[vi], dtype=float) <= max_nm * (1 + 2e-6)), f"{tag}: thickness above maximum")
    pr = (d * normals[vi]).sum(axis=1)
    check(np.all(pr > 0), f"{tag}: partner is not ahead of the source")
    cosang = pr / np.maximum(eu * np.linalg.norm(normals[vi], axis=1), 1e-300)
    check(np.all(cosang >= np.cos(np.radians(max_deg)) - 1e-12), f"{tag}: partner outside the cone")
    # greedy optimality: nothing admissible left over, no closer admissible free target for a matched source
    si, ti, dist, proj, adm, margin = admissible_table(points, normals, s1, s2, voxel, max_nm, max_deg, direction)
    if margin > 1e-9 and adm.size:
        used = np.zeros(n, dtype=bool)
        used[tg] = True
        free_t = ~used[ti]
        unmatched_s = ~valid[si]
        check(not np.any(adm & unmatched_s[:, None] & free_t[None, :]), f"{tag}: an admissible pair of unmatched points is left")
        own = np.where(valid[si], np.asarray(thick[si], dtype=float) / float(voxel), np.inf)
        closer = adm & free_t[None, :] & (dist < own[:, None] * (1 - 1e-6)) & valid[si][:, None]
        check(not np.any(closer), f"{tag}: a matched source has a closer admissible unmatched target")


def run_cpu(points, normals, s1, s2, voxel, max_nm, max_deg, direction, logger=QUIET):
    if logger is None:
        with contextlib.redirect_stdout(io.StringIO()):
            return memthick.measure_thickness_cpu(
                points, normals, s1, s2, voxel, max_thickness_nm=max_nm, max_angle_degrees=max_deg, direction=direction
            )
    return memthick.measure_thickness_cpu(
        points, normals, s1, s2, voxel, max_thickness_nm=max_nm, max_angle_degrees=max_deg, direction=direction, logger=logger
    )


def run_kernel(points, normals, s1, s2, voxel, max_nm, max_deg, direction, helper):
    """numba candidate kernel + one-to-one assignment helper"""
    src, tgt = (s2, s1) if direction == "2to1" else (s1, s2)
    n = len(points)
    md = np.zeros((n, 25), dtype=np.float64)
    mi = np.zeros((n, 25), dtype=np.int64)
    mc = np.zeros(n, dtype=np.int64)
    memthick.find_matches_parallel(
        np.ascontiguousarray(points, dtype=np.float64),
        np.ascontiguousarray(normals, dtype=np.float64),
        np.ascontiguousarray(src),
        np.ascontiguousarray(tgt),
        np.flatnonzero(tgt),
        float(max_nm / voxel),
        float(np.cos(np.radians(max_deg))),
        md,
        mi,
        mc,
    )
    flat = [(md[i, j], np.int64(i), mi[i, j]) for i in range(n) for j in range(mc[i])]
    return helper(flat, n, voxel), md, mi, mc


# ----------------------------------------------------------------------------------------------------------------
# 1. the property on generated scenes
# ----------------------------------------------------------------------------------------------------------------
def scenes():
    rng = np.random.default_rng(20)
    stats = dict(cases=0, matched=0, max_candidates=0, skipped_invariance=0, regenerated=0)
    sizes = [20, 21, 33, 50, 64, 97, 128, 150, 200, 257, 300, 400, 600]
    shapes = ["flat", "tilted", "curved"]
    labellings = ["plain", "swapped", "holes", "random", "overlap"]
    voxels = [0.5, 1.0, 1.348, np.float32(1.348), np.float64(0.787), 2.2]
    ci = 0
    for rep in range(6):
        for n in sizes:
            if rep >= 2 and n > 300:
                continue
            ci += 1
            shape = shapes[ci % 3]
            labelling = labellings[(ci // 2) % 5]
            voxel = voxels[ci % len(voxels)]
            max_deg = [1.0, 2.0, 3.0, 5.0, 7.5, 10.0, 15.0, 20.0, 30.0, float(rng.uniform(1, 30))][ci % 10]
            noise = [0.0, 0.5, 2.0, 5.0][ci % 4]
            direction = "2to1" if ci % 3 == 0 else "1to2"
            gap = float(rng.uniform(3.0, 5.0))
            spacing = [0.9, 1.2, 1.6][ci % 3] if max_deg <= 10 else [1.1, 1.6, 2.4][ci % 3]
            max_nm = float(voxel) * gap * float(rng.uniform(0.9, 1.6))
            aligned = None if ci % 2 else gap * np.tan(np.radians(max_deg)) * float(rng.uniform(0.5, 1.5))
            for attempt in range(20):
                points, normals, s1, s2 = make_case(rng, n, shape, labelling, noise, gap, spacing, jitter=0.35, aligned=aligned)
                rv, rp, rd, ncand, margin = reference(points, normals, s1, s2, voxel, max_nm, max_deg, direction)
                if ncand < 25 and margin > 1e-9:
                    break
                stats["regenerated"] += 1
                if ncand >= 25:
                    spacing *= 1.15
            else:
                raise SystemExit("could not generate a scene inside the quantifier")
            tag = f"scene{ci}[n={n},{shape},{labelling},vox={voxel!r},ang={max_deg:.2f},{direction}]"
            keep = (points.copy(), normals.copy(), s1.copy(), s2.copy())
            res = run_cpu(points, normals, s1, s2, voxel, max_nm, max_deg, direction, logger=None if ci % 7 == 0 else QUIET)
            stats["cases"] += 1
            stats["max_candidates"] = max(stats["max_candidates"], int(ncand))
            stats["matched"] += int(res[1].sum())
            # (a) the statements of the property, directly
            check_property(tag, points, normals, s1, s2, voxel, max_nm, max_deg, direction, res)
            # (b) agreement with the independent greedy computation
            check(np.array_equal(res[1], rv), f"{tag}: matched set differs from reference")
            check(np.array_equal(res[2].astype(np.int64), rp), f"{tag}: partners differ from reference")
            check(np.allclose(np.asarray(res[0], dtype=float), rd * float(voxel), rtol=2e-6, atol=0), f"{tag}: thickness differs from reference")
            # (c) repeated call on the same objects, inputs untouched
            res2 = run_cpu(points, normals, s1, s2, voxel, max_nm, max_deg, direction)
            same_triplet(res, res2, f"{tag}: repeated call")
            for a, b in zip(keep, (points, normals, s1, s2)):
                check(np.array_equal(a, b), f"{tag}: inputs modified")
            # (d) direction swaps the roles of the surfaces
            other = "1to2" if direction == "2to1" else "2to1"
            same_triplet(res, run_cpu(points, normals, s2, s1, voxel, max_nm, max_deg, other), f"{tag}: direction/roles")
            # (e) voxel scaling: same pairs, thickness scales (exactly for a factor 2)
            r2 = run_cpu(points, normals, s1, s2, voxel * 2, max_nm * 2, max_deg, direction)
            check(np.array_equal(r2[1], res[1]) and np.array_equal(r2[2], res[2]), f"{tag}: pairs change with voxel x2")
            check(np.array_equal(np.asarray(r2[0]), np.asarray(res[0]) * 2), f"{tag}: thickness does not scale with voxel x2")
            if margin > 1e-7:
                k = 1.7
                rk = run_cpu(points, normals, s1, s2, float(voxel) * k, max_nm * k, max_deg, direction)
                check(np.array_equal(rk[1], res[1]) and np.array_equal(rk[2], res[2]), f"{tag}: pairs change with voxel x1.7")
                check(np.allclose(np.asarray(rk[0], float), np.asarray(res[0], float) * k, rtol=2e-6), f"{tag}: thickness scaling x1.7")
                # (f) rigid motion of all points and normals
                Rm, t = random_rotation(rng), rng.uniform(-30, 30, size=3)
                rr = run_cpu(np.ascontiguousarray(points @ Rm.T + t), np.ascontiguousarray(normals @ Rm.T), s1, s2, voxel, max_nm, max_deg, direction)
                check(np.array_equal(rr[1], res[1]) and np.array_equal(rr[2], res[2]), f"{tag}: pairs change under rigid motion")
                check(np.allclose(np.asarray(rr[0], float), np.asarray(res[0], float), rtol=1e-5), f"{tag}: thickness changes under rigid motion")
            else:
                stats["skipped_invariance"] += 1
            # (g) numba candidate kernel followed by the assignment helper: same answer, and the helper of the tree
            #     agrees with the original helper text on the same candidates
            (kres, md, mi, mc) = run_kernel(points, normals, s1, s2, voxel, max_nm, max_deg, direction, memthick.process_matches_cpu2cpu)
            same_triplet(res, kres, f"{tag}: numba kernel + helper vs measure_thickness_cpu")
            (ores, _, _, _) = run_kernel(points, normals, s1, s2, voxel, max_nm, max_deg, direction, orig_process_matches_cpu2cpu)
            same_triplet(kres, ores, f"{tag}: helper vs original helper on kernel candidates")
            check_property(tag + " kernel", points, normals, s1, s2, voxel, max_nm, max_deg, direction, kres)
            # candidates in the flat float32 layout of the GPU twin's post-processing
            g_new = memthick.process_matches_gpu2cpu(md.astype(np.float32).ravel(), mi.astype(np.int32).ravel(), mc.astype(np.int32), len(points), 25, voxel)
            g_old = orig_process_matches_gpu2cpu(md.astype(np.float32).ravel(), mi.astype(np.int32).ravel(), mc.astype(np.int32), len(points), 25, voxel)
            same_triplet(g_new, g_old, f"{tag}: gpu2cpu helper vs original")
    return stats


# ----------------------------------------------------------------------------------------------------------------
# 2. the assignment helpers against their original texts on synthetic candidate lists (ties, duplicates, empty)
# ----------------------------------------------------------------------------------------------------------------
def helper_lists():
    rng = np.random.default_rng(7)
    count = 0
    for trial in range(400):
        n = int(rng.integers(0, 40)) if trial % 5 else [0, 1, 2, 3][trial // 5 % 4]
        m = 0 if n < 2 or trial % 11 == 0 else int(rng.integers(0, 4 * n))
        voxel = [1.0, 0.5, 1.348, np.float32(1.348), np.float64(0.787), 3][trial % 6]
        if trial % 3 == 0:  # many exact ties
            dists = rng.integers(1, 5, size=m).astype(np.float64)
        else:
            dists = rng.uniform(0.5, 9, size=m)
        srcs = rng.integers(0, max(n, 1), size=m)
        tgts = rng.integers(0, max(n, 1), size=m)
        style = trial % 4
        if style == 0:
            flat = [(np.float64(d), np.int64(s), np.int64(t)) for d, s, t in zip(dists, srcs, tgts)]
        elif style == 1:
            flat = [(float(d), int(s), int(t)) for d, s, t in zip(dists, srcs, tgts)]
        elif style == 2:
            flat = [(np.float32(d), int(s), np.int32(t)) for d, s, t in zip(dists, srcs, tgts)]
        else:
            flat = [(np.float64(d), np.int64(s), np.int64(t)) for d, s, t in zip(dists, srcs, tgts)]
            flat = flat + flat[: len(flat) // 3]  # duplicated candidates
        f_new, f_old = list(flat), list(flat)
        r_new = memthick.process_matches_cpu2cpu(f_new, n, voxel)
        r_old = orig_process_matches_cpu2cpu(f_old, n, voxel)
        same_triplet(r_new, r_old, f"list{trial}: cpu2cpu helper vs original")
        check(f_new == f_old and [tuple(map(type, x)) for x in f_new] == [tuple(map(type, x)) for x in f_old], f"list{trial}: candidate list left in a different state")
        # second call on the already sorted list object
        same_triplet(memthick.process_matches_cpu2cpu(f_new, n, voxel), r_old, f"list{trial}: helper called again on the same list")
        # flat layout of the GPU twin
        K = 6
        md = np.zeros(n * K, dtype=np.float32)
        mi = np.zeros(n * K, dtype=np.int32)
        mc = np.zeros(n, dtype=np.int32)
        for d, s, t in zip(dists, srcs, tgts):
            if n and mc[s] < K:
                md[s * K + mc[s]] = d
                mi[s * K + mc[s]] = t
                mc[s] += 1
        keep = (md.copy(), mi.copy(), mc.copy())
        g_new = memthick.process_matches_gpu2cpu(md, mi, mc, n, K, voxel)
        g_old = orig_process_matches_gpu2cpu(md, mi, mc, n, K, voxel)
        same_triplet(g_new, g_old, f"list{trial}: gpu2cpu helper vs original")
        check(all(np.array_equal(a, b) for a, b in zip(keep, (md, mi, mc))), f"list{trial}: gpu2cpu inputs modified")
        count += 1
    return count


# ----------------------------------------------------------------------------------------------------------------
# 3. degenerate labellings (empty source set, single points) -- tree and reference must agree where the tree runs
# ----------------------------------------------------------------------------------------------------------------
def degenerate():
    rng = np.random.default_rng(3)
    points, normals, s1, s2 = make_case(rng, 40, "curved", "plain", 1.0, 4.0, 1.6, 0.3)
    none = np.zeros(40, dtype=bool)
    one_s = none.copy()
    one_s[np.flatnonzero(s1)[0]] = True
    one_t = none.copy()
    one_t[np.flatnonzero(s2)[:1]] = True
    n_ok = 0
    for nm, a, b in [("no source", none, s2), ("one source", one_s, s2), ("one target", s1, one_t), ("one each", one_s, one_t), ("all both", ~none, ~none)]:
        for direction in ("1to2", "2to1"):
            try:
                res = run_cpu(points, normals, a, b, 1.3, 8.0, 12.0, direction)
            except Exception as e:  # same on the original tree (e.g. empty KD-tree); nothing to compare
                print(f"  degenerate '{nm}' {direction}: raises {type(e).__name__} (not inside the quantifier)")
                continue
            rv, rp, rd, ncand, margin = reference(points, normals, a, b, 1.3, 8.0, 12.0, direction)
            check(np.array_equal(res[1], rv) and np.array_equal(res[2].astype(np.int64), rp), f"degenerate {nm} {direction}: differs from reference")
            check_property(f"degenerate {nm} {direction}", points, normals, a, b, 1.3, 8.0, 12.0, direction, res)
            n_ok += 1
    return n_ok


# ----------------------------------------------------------------------------------------------------------------
# 4. end to end through the file plumbing: read_segmentation (voxel size) -> measure_membrane_thickness (CPU path)
# ----------------------------------------------------------------------------------------------------------------
def end_to_end():
    rng = np.random.default_rng(11)
    tmp = tempfile.mkdtemp(prefix="c20demo_")
    done = 0
    try:
        for k, (apix, shape, mode) in enumerate(
            [(13.48, (6, 7, 8), np.int8), (7.87, (5, 5, 5), np.float32), (10.0, (4, 9, 6), np.uint16), (21.5, (3, 4, 5), np.int16),
             ((9.6, 9.6, 12.0), (4, 4, 6), np.int8), ((10.0, 10.0, 10.000001), (3, 3, 3), np.float32)]
        ):
            apix_x = apix[0] if isinstance(apix, tuple) else apix
            seg_path = os.path.join(tmp, f"seg{k}.mrc")
            data = (rng.random(shape) < 0.3).astype(mode)
            with mrcfile.new(seg_path, overwrite=True) as m:
                m.set_data(data)
                m.voxel_size = apix
                m.header.origin.x, m.header.origin.y, m.header.origin.z = 12.5 * k, -3.0, 40.0
            # helper of the tree vs original helper text
            with contextlib.redirect_stdout(io.StringIO()) as out_new:
                s_new, v_new, o_new = memthick.read_segmentation(seg_path)
            with contextlib.redirect_stdout(io.StringIO()) as out_old:
                s_old, v_old, o_old = orig_read_segmentation(seg_path)
            check(type(s_new) is type(s_old) and s_new.dtype == s_old.dtype and np.array_equal(s_new, s_old), f"e2e{k}: segmentation differs")
            check(np.array_equal(s_new, data), f"e2e{k}: segmentation is not the file's voxels")
            check(type(v_new) is type(v_old) and v_new == v_old, f"e2e{k}: voxel size differs from original helper")
            with mrcfile.open(seg_path, permissive=True) as chk:  # plain (non-mmap) reading of the same header
                v_chk = chk.voxel_size.x / 10
            check(v_new == v_chk and abs(float(v_new) - apix_x / 10) <= 1e-6 * apix_x, f"e2e{k}: voxel size is not (x) pixel spacing / 10")
            check(type(o_new) is type(o_old) and o_new == o_old and [type(x) for x in o_new] == [type(x) for x in o_old], f"e2e{k}: origin differs")
            if isinstance(apix, tuple) and apix[2] > apix[0] * 1.01:  # further diagnostics may follow the original text
                check(out_new.getvalue().startswith(out_old.getvalue()), f"e2e{k}: original messages missing")
            else:
                check(out_new.getvalue() == out_old.getvalue(), f"e2e{k}: printed text differs for a regular file")
            import inspect
            if "permissive" in inspect.signature(memthick.read_segmentation).parameters:
                for kw in (dict(permissive=True), dict(permissive=False), dict(anisotropy_tolerance=0.5), dict(anisotropy_tolerance=0.0)):
                    s_k, v_k, o_k = memthick.read_segmentation(seg_path, logger=QUIET, **kw)
                    check(type(s_k) is type(s_old) and np.array_equal(s_k, s_old) and type(v_k) is type(v_old) and v_k == v_old and o_k == o_old, f"e2e{k}: option {kw} changes the result")
            s_q, v_q, o_q = memthick.read_segmentation(seg_path, logger=QUIET)
            check(v_q == v_old and o_q == o_old, f"e2e{k}: logger variant differs")
            # missing file: both report failure by (None, None, None)
            with contextlib.redirect_stdout(io.StringIO()), contextlib.redirect_stderr(io.StringIO()):
                bad_new = memthick.read_segmentation(os.path.join(tmp, "absent.mrc"))
                bad_old = orig_read_segmentation(os.path.join(tmp, "absent.mrc"))
            check(bad_new == bad_old == (None, None, None), f"e2e{k}: missing file handled differently")

            voxel = v_old
            n = [60, 121, 200, 37, 90, 64][k]
            max_deg = [4.0, 12.0, 25.0, 1.5, 8.0, 3.0][k]
            direction = ["1to2", "2to1", "1to2", "2to1", "1to2", "2to1"][k]
            gap = 4.0
            max_nm = float(voxel) * gap * 1.4
            spacing = 1.6
            for attempt in range(20):
                points, normals, s1, s2 = make_case(rng, n, ["curved", "tilted", "flat", "curved", "tilted", "curved"][k], ["plain", "holes", "random", "swapped", "overlap", "plain"][k], 1.0, gap, spacing, 0.35,
                                                       aligned=None if k in (1, 2) else gap * np.tan(np.radians(max_deg)))
                # the pipeline reads the CSV text back -> use the values as they will be parsed
                df = pd.DataFrame(
                    {
                        "x_voxel": points[:, 0], "y_voxel": points[:, 1], "z_voxel": points[:, 2],
                        "normal_x": normals[:, 0], "normal_y": normals[:, 1], "normal_z": normals[:, 2],
                        "surface1": s1, "surface2": s2,
                    }
                )
                csv = os.path.join(tmp, f"verts{k}.csv")
                df.to_csv(csv, index=False)
                back = pd.read_csv(csv)
                points = back[["x_voxel", "y_voxel", "z_voxel"]].values
                normals = back[["normal_x", "normal_y", "normal_z"]].values
                rv, rp, rd, ncand, margin = reference(points, normals, s1, s2, voxel, max_nm, max_deg, direction)
                if ncand < 25 and margin > 1e-9:
                    break
                spacing *= 1.15
            out_dir = os.path.join(tmp, f"out{k}")
            with contextlib.redirect_stdout(io.StringIO()), contextlib.redirect_stderr(io.StringIO()):
                out_csv, stats_file = memthick.measure_membrane_thickness(
                    seg_path, csv, output_dir=out_dir, max_thickness=max_nm, max_angle=max_deg, direction=direction, use_gpu=False, logger=QUIET
                )
            res_df = pd.read_csv(out_csv)
            valid = res_df["valid_measurement"].values.astype(bool)
            pairs = res_df["paired_point_idx"].values.astype(np.int64)
            thick = res_df["thickness"].values
            tag = f"e2e{k}[n={n},apix={apix},{direction}]"
            check(np.array_equal(valid, rv), f"{tag}: matched set differs from reference")
            check(np.array_equal(pairs, rp), f"{tag}: partners differ from reference")
            check(np.allclose(thick, rd * float(voxel), rtol=2e-6, atol=0), f"{tag}: thickness differs from reference")
            check_property(tag, points, normals, s1, s2, voxel, max_nm, max_deg, direction, (thick, valid, pairs))
            check(valid.sum() > 0, f"{tag}: scene without any pair (weak test)")
            done += 1
        # header without pixel spacing (outside the quantifier: voxel size 0) -- still the same return values
        zero_path = os.path.join(tmp, "zero.mrc")
        with mrcfile.new(zero_path, overwrite=True) as m:
            m.set_data(np.ones((2, 3, 4), dtype=np.int8))
        with contextlib.redirect_stdout(io.StringIO()) as out_new:
            z_new = memthick.read_segmentation(zero_path)
        with contextlib.redirect_stdout(io.StringIO()) as out_old:
            z_old = orig_read_segmentation(zero_path)
        check(np.array_equal(z_new[0], z_old[0]) and type(z_new[1]) is type(z_old[1]) and z_new[1] == z_old[1] and z_new[2] == z_old[2], "zero header: result differs")
        check(out_new.getvalue().startswith(out_old.getvalue()), "zero header: original messages missing")
    finally:
        shutil.rmtree(tmp, ignore_errors=True)
    return done


if __name__ == "__main__":
    warnings.simplefilter("ignore")
    print("focus:", FOCUS)
    st = scenes()
    print(f"scenes: {st}")
    print(f"helper lists compared with original text: {helper_lists()}")
    print(f"degenerate labellings compared: {degenerate()}")
    print(f"end-to-end runs through read_segmentation / measure_membrane_thickness: {end_to_end()}")
    if FAILS:
        print(f"FAIL ({len(FAILS)} checks failed)")
        sys.exit(1)
    print("PASS")
    sys.exit(0)
