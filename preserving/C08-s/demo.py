"""C08 / change c -- DEBUG diagnostics for merge_and_renumber, merge_and_drop_duplicates and drop_duplicates through
logging.getLogger("cryocat.cryomotl"): the shift applied to each input's object numbers, the particles added, one
summary line per merge (counts by len / nunique) and "kept k of n" for drop_duplicates.  Read-only, silent by default.

The demo checks the property C08 (particle-list set algebra and identifier discipline) against a pure-Python row-set
model over random histories of up to 10 operations and compares every table with the one the ORIGINAL function text
(kept below) produces on the same inputs -- once with the logger silent, once with the logger at DEBUG and a capturing
handler, once with logging.disable -- and checks that the random generators' states, the inputs and the defaults are
left alone and that the numbers in the captured lines are the true ones.
Run:  cd /tmp/wt11/C08 && /venv/bin/python /tmp/seedsU/C08/c/demo.py      (prints PASS, exit 0)
"""
import sys, os
sys.path.insert(0, os.getcwd())
import io, contextlib, warnings, logging, copy
warnings.filterwarnings("ignore")  # the package itself emits SyntaxWarnings at import
import numpy as np
import pandas as pd
from cryocat import cryomotl
from cryocat.exceptions import UserInputError

# original text of the functions the property rests on (HEAD of the scratch tree, docstrings removed)
ORIG_TEXT = r'''
    def __init__(self, motl_df=None):
        if motl_df is not None:
            if self.check_df_correct_format(motl_df):
                self.df = motl_df
            else:
                raise ValueError("Provided pandas.DataFrame does not have correct format.")
        else:
            self.df = Motl.create_empty_motl_df()
    @staticmethod
    def create_empty_motl_df():

        empty_motl_df = pd.DataFrame(
            columns=Motl.motl_columns,
            dtype=float,
        )

        empty_motl_df = empty_motl_df.fillna(0.0)

        return empty_motl_df
    @staticmethod
    def check_df_correct_format(input_df):

        if sorted(Motl.motl_columns) == sorted(input_df.columns):
            return True
        else:
            return False
    def get_motl_subset(self, feature_values, feature_id="tomo_id", return_df=False, reset_index=True):

        if isinstance(feature_values, (list, np.ndarray)):
            feature_values = np.atleast_1d(np.array(feature_values))  # a 0-d array is one value
        else:
            feature_values = np.array([feature_values])

        new_df = Motl.create_empty_motl_df()
        for i in feature_values:
            df_i = self.df.loc[self.df[feature_id] == i].copy()
            new_df = pd.concat([new_df, df_i])

        if reset_index:
            new_df = new_df.reset_index(drop=True)

        if return_df:
            return new_df
        else:
            return Motl(motl_df=new_df)
    @classmethod
    def get_motl_intersection(cls, motl1, motl2, feature_id="subtomo_id"):
        m1 = cls.load(motl1.df)
        m2 = cls.load(motl2.df)

        s1 = m1.df.loc[m1.df[feature_id].isin(m2.df[feature_id])]

        if s1.shape[0] == 0:
            warnings.warn("The intersection of the two motls is empty.")

        return cls(s1.reset_index(drop=True))
    def renumber_objects_sequentially(self, starting_number=1):
        start_number = starting_number

        def assign_new_object_id(group):
            # If there are duplicate 'object_id' values within the group, keep the first occurrence
            nonlocal start_number
            group["object_id"] = group["object_id"].factorize()[0] + start_number
            start_number = group["object_id"].max() + 1
            return group

        # Resetting the index before applying the function
        df_reset = self.df.reset_index(drop=True)

        # Apply the custom function to each group (explicit loop: groupby.apply drops the grouping column in pandas 3)
        renumbered = [assign_new_object_id(group.copy()) for _, group in df_reset.groupby("tomo_id")]
        self.df = pd.concat(renumbered).sort_index() if renumbered else df_reset
    def get_unique_values(self, feature_id):

        return self.df.loc[:, feature_id].unique()
    @classmethod
    def load(cls, input_motl, motl_type="emmotl"):

        if isinstance(input_motl, Motl):
            return copy.deepcopy(input_motl)

        if motl_type == "emmotl":
            return EmMotl(input_motl)
        elif motl_type == "relion":
            return RelionMotl(input_motl)
        elif motl_type == "stopgap":
            return StopgapMotl(input_motl)
        elif motl_type == "dynamo":
            return DynamoMotl(input_motl)
        else:
            raise UserInputError(f"Provided motl file {input_motl} has format that is currently not supported.")
    def remove_feature(self, feature_id, feature_values):

        if not isinstance(feature_values, (list, np.ndarray)):
            feature_values = [feature_values]
        for value in feature_values:
            self.df = self.df.loc[self.df[feature_id] != value]
    def renumber_particles(self):
        self.df.loc[:, "subtomo_id"] = list(range(1, len(self.df) + 1))
    def split_by_feature(self, feature_id, write_out=False, output_prefix=""):
        uniq_values = self.get_unique_values(feature_id)
        motls = list()

        for value in uniq_values:
            # submotl = self.__class__(self.df.loc[self.df[feature_id] == value])
            submotl = Motl(self.df.loc[self.df[feature_id] == value])
            motls.append(submotl)

            if write_out:
                out_name = f"{output_prefix}{str(int(value))}.em"
                submotl.write_out(out_name)

        return motls
    @classmethod
    def merge_and_renumber(cls, motl_list):
        if not isinstance(motl_list, list) or len(motl_list) == 0:
            raise UserInputError(f"Input must be a list of em file paths, or Motl instances.")

        merged_df = cls.create_empty_motl_df()
        feature_add = 0

        if not isinstance(motl_list, list) or len(motl_list) == 0:
            raise UserInputError(
                f"You must provide a list of em file paths, or Motl instances. "
                f"Instead, an instance of {type(motl_list).__name__} was given."
            )

        for m in motl_list:
            if m is None:
                raise ValueError("Motl list cannot contain None values.")
            motl = cls.load(m)
            if not motl.df.empty:
                feature_min = min(motl.df.loc[:, "object_id"])
            else:
                print("Warning: Encountered an empty Motl DataFrame. Skipping.")
                continue

            if feature_min <= feature_add:
                motl.df.loc[:, "object_id"] = motl.df.loc[:, "object_id"] + (feature_add - feature_min + 1)

            merged_df = pd.concat([merged_df, motl.df])
            feature_add = max(motl.df.loc[:, "object_id"])

        merged_motl = cls(merged_df)
        merged_motl.renumber_particles()
        merged_motl.df.reset_index(inplace=True, drop=True)

        return merged_motl
    @classmethod
    def merge_and_drop_duplicates(cls, motl_list):

        merged_df = cls.create_empty_motl_df()
        feature_add = 0

        if not isinstance(motl_list, list) or len(motl_list) == 0:
            raise UserInputError(
                f"You must provide a list of em file paths, or Motl instances. "
                f"Instead, an instance of {type(motl_list).__name__} was given."
            )

        for m in motl_list:
            motl = cls.load(m)
            if motl.df.empty:
                print(f"Skipping empty Motl: {motl}")
                continue  # Skip empty motls
            feature_min = min(motl.df.loc[:, "object_id"])

            if feature_min <= feature_add:
                motl.df.loc[:, "object_id"] = motl.df.loc[:, "object_id"] + (feature_add - feature_min + 1)

            merged_df = pd.concat([merged_df, motl.df])
            feature_add = max(motl.df.loc[:, "object_id"])

        merged_motl = cls(merged_df)
        merged_motl.drop_duplicates()
        merged_motl.df.reset_index(inplace=True, drop=True)

        return merged_motl
    def drop_duplicates(self, duplicates_column="subtomo_id", decision_column="score", decision_sort_ascending=False):

        # Sort the DataFrame by "score" in descending order
        self.df = self.df.sort_values(
            by=[duplicates_column, decision_column], ascending=[True, decision_sort_ascending]
        )

        # Drop duplicates based on "subtomo_id" keeping the first occurrence (highest score)
        self.df = self.df.drop_duplicates(subset=duplicates_column)
        self.df.reset_index(inplace=True, drop=True)
'''

# ---------------------------------------------------------------------------------------------------------------
# reference class: the ORIGINAL text of the property's functions, executed next to the worktree's module.  Inside
# that text the name ``Motl`` is bound to the reference class, so nested calls stay inside the original code.
# ---------------------------------------------------------------------------------------------------------------
_g = dict(vars(cryomotl))
_g["_Base"] = cryomotl.Motl
exec(compile("class RefMotl(_Base):\n" + ORIG_TEXT, "<original text>", "exec"), _g)
RefMotl = _g["RefMotl"]
_g["Motl"] = RefMotl
Motl = cryomotl.Motl
COLS = list(Motl.motl_columns)
CI = {c: k for k, c in enumerate(COLS)}
NANTOK = "nan"


class Fail(Exception):
    pass


def check(cond, msg):
    if not cond:
        raise Fail(msg)


# ------------------------------------------------ pure-Python row-set model -------------------------------------
def canon(v):
    v = float(v)
    return NANTOK if v != v else v


def rows_of(df):
    """table -> list of 20-tuples in canonical field order (fields looked up BY NAME)"""
    check(len(df.columns) == 20 and sorted(df.columns) == sorted(COLS), f"fields are not the 20 fields: {list(df.columns)}")
    arrs = [df[c].to_numpy() for c in COLS]
    return [tuple(canon(a[k]) for a in arrs) for k in range(len(df))]


def m_subset(rows, values, fid):
    out = []
    for v in values:
        out += [r for r in rows if r[CI[fid]] == v]
    return out


def m_remove(rows, values, fid):
    return [r for r in rows if all(r[CI[fid]] != v for v in values)]


def m_split(rows, fid):
    seen = []
    for r in rows:
        if r[CI[fid]] not in seen:
            seen.append(r[CI[fid]])
    return [[r for r in rows if r[CI[fid]] == v] for v in seen]


def m_intersection(rows1, rows2, fid):
    ids = {r[CI[fid]] for r in rows2}
    return [r for r in rows1 if r[CI[fid]] in ids]


def m_drop(rows, dup="subtomo_id", dec="score", asc=False):
    best = {}
    for r in rows:  # first of the best-scoring rows of every id
        k, s = r[CI[dup]], r[CI[dec]]
        if k not in best:
            best[k] = r
        else:
            b = best[k][CI[dec]]
            if (s < b) if asc else (s > b):
                best[k] = r
    return [best[k] for k in sorted(best)]


def setf(r, name, v):
    r = list(r)
    r[CI[name]] = float(v)
    return tuple(r)


def m_shifted_concat(lists):
    out, add = [], 0
    for rows in lists:
        if not rows:
            continue
        fmin = min(r[CI["object_id"]] for r in rows)
        if fmin <= add:
            rows = [setf(r, "object_id", r[CI["object_id"]] + (add - fmin + 1)) for r in rows]
        out += rows
        add = max(r[CI["object_id"]] for r in rows)
    return out


def m_renumber_particles(rows):
    return [setf(r, "subtomo_id", k + 1) for k, r in enumerate(rows)]


def m_merge_renumber(lists):
    return m_renumber_particles(m_shifted_concat(lists))


def m_merge_drop(lists):
    return m_drop(m_shifted_concat(lists))


def m_renumber_objects(rows, start):
    new, nxt = {}, start
    for t in sorted({r[CI["tomo_id"]] for r in rows}):
        for r in rows:
            if r[CI["tomo_id"]] == t and (t, r[CI["object_id"]]) not in new:
                new[(t, r[CI["object_id"]])] = nxt
                nxt += 1
    return [setf(r, "object_id", new[(r[CI["tomo_id"]], r[CI["object_id"]])]) for r in rows]


# ------------------------------------------------ property-level statements --------------------------------------
def multiset(rows):
    d = {}
    for r in rows:
        d[r] = d.get(r, 0) + 1
    return d


def others(r, *changed):
    return tuple(v for k, v in enumerate(r) if COLS[k] not in changed)


def p_complementary(before, kept, removed):
    a = multiset(before)
    b = multiset(kept)
    for r, n in multiset(removed).items():
        b[r] = b.get(r, 0) + n
    check(a == b, "selection and removal are not complementary")


def p_partition(before, parts, fid):
    flat = [r for p in parts for r in p]
    check(multiset(flat) == multiset(before), "split is not a partition of the list")
    vals = [set(r[CI[fid]] for r in p) for p in parts]
    check(all(len(v) == 1 for v in vals), "a part of the split holds more than one value")
    check(len(set(next(iter(v)) for v in vals)) == len(parts), "two parts of the split hold the same value")


def p_merge_renumber(lists, out):
    lists = [l for l in lists if l]
    check(len(out) == sum(len(l) for l in lists), "merge changed the number of rows")
    check([r[CI["subtomo_id"]] for r in out] == [float(k) for k in range(1, len(out) + 1)], "subtomo_id is not 1..N")
    pos, used = 0, set()
    for l in lists:
        seg = out[pos:pos + len(l)]
        pos += len(l)
        check([others(r, "subtomo_id", "object_id") for r in seg] == [others(r, "subtomo_id", "object_id") for r in l],
              "merge changed another field")
        mp = {}
        for a, b in zip(l, seg):
            check(mp.setdefault(a[CI["object_id"]], b[CI["object_id"]]) == b[CI["object_id"]], "an object was torn apart")
        check(len(set(mp.values())) == len(mp), "two objects of one input were fused")
        check(not (set(mp.values()) & used), "object numbers of two inputs collide")
        used |= set(mp.values())


def p_renumber_objects(before, out, start):
    check(len(before) == len(out), "renumbering objects changed the number of rows")
    check([others(r, "object_id") for r in out] == [others(r, "object_id") for r in before], "renumbering changed another field")
    fwd, bwd = {}, {}
    for a, b in zip(before, out):
        ka, kb = (a[CI["tomo_id"]], a[CI["object_id"]]), b[CI["object_id"]]
        check(fwd.setdefault(ka, kb) == kb and bwd.setdefault(kb, ka) == ka, "(tomogram, object) grouping not kept")
    check(sorted(bwd) == [float(k) for k in range(start, start + len(bwd))], "new object numbers are not consecutive")


def p_drop(before, out, dup, dec, asc):
    ids = [r[CI[dup]] for r in out]
    check(ids == sorted(set(r[CI[dup]] for r in before)), "not exactly one row per id, ascending")
    msb = multiset(before)
    for r in out:
        check(r in msb, "drop_duplicates changed a row")
        sc = [q[CI[dec]] for q in before if q[CI[dup]] == r[CI[dup]]]
        check(r[CI[dec]] == (min(sc) if asc else max(sc)), "kept row is not the best-scoring one")


# ------------------------------------------------ table generation -----------------------------------------------
_tag = [0]


def make_df(rng, n=None, int_ids=None, shuffle_cols=None, index_kind=None, unique_ids=None, nan_holes=False,
            nan_keys=False):
    if n is None:
        n = int(rng.choice([0, 1, 2, 3, 5, 8, 17, 40, 99, 100, 200, int(rng.integers(0, 201))]))
    tomos = rng.choice([1, 2, 3, 5, 7, 12, 40, 0, 101], size=int(rng.integers(1, 6)), replace=False)
    nobj = int(rng.integers(1, 8))
    lo = int(rng.choice([1, 1, 1, 0, -3, 5]))
    d = {}
    for c in COLS:
        d[c] = np.round(rng.normal(0, 50, n), 3)
    d["tomo_id"] = rng.choice(tomos, n).astype(float)
    d["object_id"] = rng.integers(lo, lo + nobj, n).astype(float)
    d["class"] = rng.integers(1, 4, n).astype(float)
    d["score"] = np.round(rng.random(n), 1)  # many ties, exact 0.0 and 1.0
    if unique_ids is None:
        unique_ids = rng.random() < 0.5
    if unique_ids:
        d["subtomo_id"] = (rng.permutation(max(n, 1) * 2)[:n] + 1).astype(float)
    else:
        d["subtomo_id"] = rng.integers(1, max(2, n // 2 + 1), n).astype(float)
    d["geom5"] = np.arange(_tag[0], _tag[0] + n, dtype=float)  # row tag: every generated row differs from every other
    _tag[0] += n
    df = pd.DataFrame(d, columns=COLS)
    if nan_holes and n:
        for c in ("geom1", "geom2", "shift_x", "phi", "score"):
            df.loc[rng.random(n) < 0.15, c] = np.nan
    if nan_keys and n:
        for c in ("tomo_id", "object_id", "subtomo_id", "class"):
            df.loc[rng.random(n) < 0.1, c] = np.nan
    if int_ids is None:
        int_ids = rng.random() < 0.4
    if int_ids and not nan_keys:
        for c in ("tomo_id", "object_id", "subtomo_id", "class"):
            df[c] = df[c].astype(int)
    if shuffle_cols is None:
        shuffle_cols = rng.random() < 0.3
    if shuffle_cols:
        df = df[list(rng.permutation(COLS))]
    if index_kind is None:
        index_kind = rng.choice(["range", "perm", "offset", "gaps"])
    if index_kind == "perm":
        df.index = rng.permutation(n)
    elif index_kind == "offset":
        df.index = np.arange(n) + 1000
    elif index_kind == "gaps":
        df.index = np.sort(rng.permutation(3 * n + 1)[:n])
    return df


class Trip:
    """the same particle list three times: worktree object, original-text object, model rows"""

    def __init__(self, w, r, rows):
        self.w, self.r, self.rows = w, r, rows

    @classmethod
    def new(cls, df):
        return cls(Motl(df.copy()), RefMotl(df.copy()), rows_of(df))

    def verify(self, what, model=True):
        if not os.environ.get("C08_MODEL_ONLY"):  # (switch used to test the model on its own)
            pd.testing.assert_frame_equal(self.w.df, self.r.df, check_exact=True, obj=f"{what}: patched vs original table")
        check(type(self.r) is RefMotl and type(self.w) is Motl, f"{what}: class of the result")
        if model:
            got = rows_of(self.w.df)
            check(got == self.rows, f"{what}: table differs from the row-set model\n got {got[:3]}...\n exp {self.rows[:3]}...")
        else:
            self.rows = rows_of(self.w.df)


def pick_values(rng, rows, fid):
    present = sorted({r[CI[fid]] for r in rows if r[CI[fid]] != NANTOK})
    k = int(rng.integers(0, min(4, len(present)) + 1))
    vals = [float(v) for v in rng.choice(present, k, replace=False)] if k else []
    if rng.random() < 0.3:
        vals.append(float(rng.choice([v for v in (-77.0, 9999.0, 0.55, -0.25) if v not in present])))  # does not occur
    order = rng.permutation(len(vals))
    return [vals[k] for k in order]


OPS = ["subset", "remove", "split", "intersection", "drop", "merge_renumber", "merge_drop", "renumber_particles",
       "renumber_objects"]


def as_arg(rng, vals, allow_array):
    """the same requested values as list / scalar / ndarray / list of ints"""
    if len(vals) == 1 and rng.random() < 0.5:
        v = vals[0]
        return int(v) if float(v).is_integer() and rng.random() < 0.5 else v
    if allow_array and rng.random() < 0.3:
        return np.array(vals, dtype=float)
    if all(float(v).is_integer() for v in vals) and rng.random() < 0.3:
        return [int(v) for v in vals]
    return list(vals)


class BothRaised(Exception):
    pass


def both(call, cur, extra_w=(), extra_r=()):
    """run the same call on the worktree object and on the original-text object; the two must agree on raising"""
    res, exc = [], []
    for obj, klass, extra in ((cur.w, Motl, extra_w), (cur.r, RefMotl, extra_r)):
        try:
            with warnings.catch_warnings(), contextlib.redirect_stdout(io.StringIO()):
                warnings.simplefilter("ignore")
                res.append(call(obj, klass, *extra))
            exc.append(None)
        except Fail:
            raise
        except Exception as e:  # noqa
            res.append(None)
            exc.append(e)
    check((exc[0] is None) == (exc[1] is None), f"only one of patched/original raised: {exc!r}")
    if exc[0] is not None:
        check(type(exc[0]) is type(exc[1]) and str(exc[0]) == str(exc[1]), f"different exceptions: {exc!r}")
        raise BothRaised(repr(exc[0]))
    return res


def run_history(rng, nops=10, model=True, **gen):
    cur = Trip.new(make_df(rng, **gen))
    pool = [Trip.new(make_df(rng, **gen)) for _ in range(2)]
    cur.verify("start", model)
    trace = []
    for _ in range(nops):
        op = str(rng.choice(OPS))
        trace.append(op)
        before = cur.rows
        try:
            if op == "subset":
                fid = str(rng.choice(["tomo_id", "object_id", "class", "subtomo_id", "score"]))
                vals = pick_values(rng, cur.rows, fid)
                arg = as_arg(rng, vals, False)
                ri = bool(rng.random() < 0.7)
                if rng.random() < 0.2:
                    w, r = both(lambda m, K: K(m.get_motl_subset(arg, fid, True, ri)), cur)
                else:
                    w, r = both(lambda m, K: m.get_motl_subset(arg, feature_id=fid, reset_index=ri), cur)
                new = Trip(w, r, m_subset(before, vals, fid))
                new.verify(op, model)
                if model:
                    p_complementary(before, m_remove(before, vals, fid), new.rows)
                pool.append(cur)
                cur = new
            elif op == "remove":
                fid = str(rng.choice(["tomo_id", "object_id", "class", "subtomo_id", "score"]))
                vals = pick_values(rng, cur.rows, fid)
                arg = as_arg(rng, vals, True)
                w, r = both(lambda m, K: m.get_motl_subset(list(vals), fid), cur)
                sel = Trip(w, r, m_subset(before, vals, fid))
                both(lambda m, K: m.remove_feature(fid, arg), cur)
                cur.rows = m_remove(before, vals, fid)
                cur.verify(op, model)
                sel.verify("subset next to remove", model)
                if model:
                    p_complementary(before, rows_of(cur.w.df), rows_of(sel.w.df))
            elif op == "split":
                fid = str(rng.choice(["tomo_id", "object_id", "class"]))
                wp, rp = both(lambda m, K: m.split_by_feature(fid), cur)
                mp = m_split(before, fid) if model else [None] * len(wp)
                check(len(wp) == len(rp) == len(mp), "split: number of parts")
                parts = [Trip(a, b, c) for a, b, c in zip(wp, rp, mp)]
                for p in parts:
                    p.verify(op, model)
                if model:
                    p_partition(before, [rows_of(p.w.df) for p in parts], fid)
                cur.verify("list after split", model)
                if parts:
                    pool.append(cur)
                    ks = rng.permutation(len(parts))
                    cur = parts[int(ks[0])]
                    pool += [parts[int(k)] for k in ks[1:3]]
            elif op == "intersection":
                other = pool[int(rng.integers(len(pool)))] if rng.random() < 0.8 else cur
                fid = str(rng.choice(["subtomo_id", "subtomo_id", "tomo_id", "object_id", "geom5"]))
                w, r = both(lambda m, K, o: K.get_motl_intersection(m, o, fid), cur, (other.w,), (other.r,))
                new = Trip(w, r, m_intersection(before, other.rows, fid) if model else None)
                new.verify(op, model)
                other.verify("second list of the intersection", model)
                pool.append(cur)
                cur = new
            elif op == "drop":
                dup, dec, asc = [("subtomo_id", "score", False), ("subtomo_id", "score", True), ("object_id", "geom1", True),
                                 ("subtomo_id", "geom1", False), ("tomo_id", "score", False)][int(rng.integers(5))]
                if (dup, dec, asc) == ("subtomo_id", "score", False) and rng.random() < 0.5:
                    both(lambda m, K: m.drop_duplicates(), cur)
                elif rng.random() < 0.5:
                    both(lambda m, K: m.drop_duplicates(dup, dec, asc), cur)
                else:
                    both(lambda m, K: m.drop_duplicates(duplicates_column=dup, decision_column=dec,
                                                        decision_sort_ascending=asc), cur)
                if model:
                    cur.rows = m_drop(before, dup, dec, asc)
                cur.verify(op, model)
                if model:
                    p_drop(before, rows_of(cur.w.df), dup, dec, asc)
            elif op in ("merge_renumber", "merge_drop"):
                k = int(rng.integers(0, 3))
                inputs = [cur] + [pool[int(j)] for j in rng.integers(0, len(pool), k)]
                if rng.random() < 0.2:
                    inputs.append(Trip.new(make_df(rng, n=0)))
                if rng.random() < 0.15:
                    inputs.append(cur)  # the same list twice
                inputs = [inputs[int(j)] for j in rng.permutation(len(inputs))]
                if op == "merge_renumber":
                    w, r = both(lambda m, K, l: K.merge_and_renumber(l), cur, ([t.w for t in inputs],), ([t.r for t in inputs],))
                    mf = m_merge_renumber
                else:
                    w, r = both(lambda m, K, l: K.merge_and_drop_duplicates(l), cur, ([t.w for t in inputs],),
                                ([t.r for t in inputs],))
                    mf = m_merge_drop
                new = Trip(w, r, mf([t.rows for t in inputs]) if model else None)
                new.verify(op, model)
                if model and op == "merge_renumber":
                    p_merge_renumber([t.rows for t in inputs], rows_of(new.w.df))
                if model and op == "merge_drop":
                    p_drop(m_shifted_concat([t.rows for t in inputs]), rows_of(new.w.df), "subtomo_id", "score", False)
                for t in inputs:
                    t.verify("input of " + op, model)
                pool.append(cur)
                cur = new
            elif op == "renumber_particles":
                both(lambda m, K: m.renumber_particles(), cur)
                cur.rows = m_renumber_particles(before)
                cur.verify(op, model)
                both(lambda m, K: m.renumber_particles(), cur)  # repeated call on the same object
                cur.verify(op + " twice", model)
            elif op == "renumber_objects":
                start = int(rng.choice([1, 1, 1, 10, 0, 100, -5]))
                if start == 1 and rng.random() < 0.5:
                    both(lambda m, K: m.renumber_objects_sequentially(), cur)
                elif rng.random() < 0.5:
                    both(lambda m, K: m.renumber_objects_sequentially(start), cur)
                else:
                    both(lambda m, K: m.renumber_objects_sequentially(starting_number=start), cur)
                if model:
                    cur.rows = m_renumber_objects(before, start)
                cur.verify(op, model)
                if model:
                    p_renumber_objects(before, rows_of(cur.w.df), start)
        except BothRaised as e:
            check(not model, f"{op} raised inside the quantifier: {e}")
            trace[-1] = op + "!"
            cur.verify("list after a raising " + op, False)
        # nothing that is still around may have changed behind our back
        for t in pool[-6:]:
            t.verify("bystander after " + op, model)
        pool = pool[-8:]
    return trace


def run_all(seed, n_model=250, n_nomodel=80):
    rng = np.random.default_rng(seed)
    counts = {}
    for h in range(n_model):
        st = rng.bit_generator.state
        try:
            for op in run_history(rng, nops=int(rng.integers(1, 11))):
                counts[op] = counts.get(op, 0) + 1
        except Exception:
            print(f"FAIL in model history {h} (seed {seed})")
            raise
    # NaN holes in non-key fields and NaN in key fields: compared patched-vs-original only (see meta.json)
    for h in range(n_nomodel):
        try:
            run_history(rng, nops=int(rng.integers(1, 11)), model=False, nan_holes=True, nan_keys=bool(h % 2))
        except Exception:
            print(f"FAIL in patched-vs-original history {h} (seed {seed})")
            raise
    return counts

import random, re


def special_c(buf):
    """with the logger at DEBUG: direct calls, generators' states, numbers in the captured lines"""
    rng = np.random.default_rng(3)
    n_cases = 0
    for rep in range(120):
        k = int(rng.integers(1, 5))
        trips = [Trip.new(make_df(rng, unique_ids=bool(rng.random() < 0.5))) for _ in range(k)]
        if rng.random() < 0.3:
            trips.append(Trip.new(make_df(rng, n=0)))
        if rng.random() < 0.2:
            trips.append(trips[0])
        np.random.seed(rep)
        random.seed(rep)
        s_np, s_py = np.random.get_state(), random.getstate()
        buf.seek(0)
        buf.truncate()
        w, r = both(lambda m, K, l: K.merge_and_renumber(l), trips[0], ([t.w for t in trips],), ([t.r for t in trips],))
        mr = Trip(w, r, m_merge_renumber([t.rows for t in trips]))
        mr.verify("merge_and_renumber (logging on)")
        p_merge_renumber([t.rows for t in trips], rows_of(mr.w.df))
        w, r = both(lambda m, K, l: K.merge_and_drop_duplicates(l), trips[0], ([t.w for t in trips],), ([t.r for t in trips],))
        md = Trip(w, r, m_merge_drop([t.rows for t in trips]))
        md.verify("merge_and_drop_duplicates (logging on)")
        d = Trip.new(mr.w.df.copy())
        d.w.df["subtomo_id"] = d.r.df["subtomo_id"] = (np.arange(len(d.rows)) // 2).astype(float)
        d.rows = rows_of(d.w.df)
        before = d.rows
        both(lambda m, K: m.drop_duplicates(), d)
        d.rows = m_drop(before)
        d.verify("drop_duplicates (logging on)")
        for t in trips:
            t.verify("input of a merge (logging on)")
        s2 = np.random.get_state()
        check(s_np[0] == s2[0] and np.array_equal(s_np[1], s2[1]) and s_np[2:] == s2[2:], "numpy random state moved")
        check(random.getstate() == s_py, "python random state moved")
        # the numbers in the lines (only there with the patch) are the true ones
        text = buf.getvalue()
        for m in re.finditer(r"(merge_and_renumber|merge_and_drop_duplicates): (\d+) inputs -> (\d+) particles, (\d+) tomograms, "
                             r"(\d+) objects", text):
            out = mr if m.group(1) == "merge_and_renumber" else md
            exp = (len(trips), len(out.rows), len({q[CI["tomo_id"]] for q in out.rows}), len({q[CI["object_id"]] for q in out.rows}))
            check(tuple(int(v) for v in m.groups()[1:]) == exp, f"summary line is wrong: {m.group(0)} vs {exp}")
        kept = re.findall(r"drop_duplicates\(subtomo_id by score\): kept (\d+) of (\d+) particles", text)
        if kept:
            check((int(kept[-1][0]), int(kept[-1][1])) == (len(d.rows), len(before)), f"kept-line is wrong: {kept[-1]}")
        n_cases += 1
    # defaults of the public functions are what they were
    import inspect
    check(str(inspect.signature(Motl.drop_duplicates)) == str(inspect.signature(RefMotl.drop_duplicates)), "signature")
    check(str(inspect.signature(Motl.merge_and_renumber)) == str(inspect.signature(RefMotl.merge_and_renumber)), "signature")
    check(str(inspect.signature(Motl.merge_and_drop_duplicates)) == str(inspect.signature(RefMotl.merge_and_drop_duplicates)),
          "signature")
    return n_cases


if __name__ == "__main__":
    warnings.filterwarnings("ignore")
    log = logging.getLogger("cryocat.cryomotl")
    try:
        # 1. the logger as a user finds it (silent)
        counts = run_all(20260930, n_model=150, n_nomodel=50)
        # 2. DEBUG with a handler that formats every record
        buf = io.StringIO()
        handler = logging.StreamHandler(buf)
        handler.setFormatter(logging.Formatter("%(name)s %(levelname)s %(message)s"))
        log.addHandler(handler)

        class Counter(logging.Handler):
            n = 0

            def emit(self, record):
                Counter.n += 1
                record.getMessage()  # formatting problems surface here

        counter = Counter()
        log.addHandler(counter)
        log.setLevel(logging.DEBUG)
        log.propagate = False
        counts2 = run_all(20260931, n_model=150, n_nomodel=50)
        n = special_c(buf)
        n_lines = counter.n
        check("Traceback" not in buf.getvalue(), "a log record could not be formatted")
        # 3. logging switched off globally
        logging.disable(logging.CRITICAL)
        counts3 = run_all(20260932, n_model=60, n_nomodel=20)
        logging.disable(logging.NOTSET)
    except Fail as e:
        print("FAIL:", e)
        sys.exit(1)
    for c in (counts2, counts3):
        for k, v in c.items():
            counts[k] = counts.get(k, 0) + v
    print("operations checked against the model and the original text:", counts)
    print("direct merge / drop_duplicates cases with the logger at DEBUG:", n, "- log records seen (0 on the unpatched tree):", n_lines)
    print("PASS")
