"""C11 -- map files round-trip voxels and axis order across MRC, REC and EM.

Run as:  cd /tmp/wt6/C11 && /venv/bin/python /tmp/seedsR/C11/<v>/demo.py

The property is checked against an INDEPENDENT computation: the files are parsed / produced with struct + numpy only
(no mrcfile, no emfile), the expected voxels are computed from the input array directly.  In addition the functions of
the tree under test are compared with a verbatim copy of the ORIGINAL functions (text kept below) on the same inputs:
same bytes on disk (MRC label timestamps masked), same returned arrays (shape, dtype, values, writeable flag).
"""
import os
import sys

sys.path.insert(0, os.getcwd())

import struct
import shutil
import tempfile
import warnings
import pathlib

import numpy as np

warnings.filterwarnings("ignore")

from cryocat import cryomap

VARIANT = "a"

# ----------------------------------------------------------------------------------------------------------------
# verbatim copy of the original functions (cryocat/cryomap.py at HEAD)
# ----------------------------------------------------------------------------------------------------------------
ORIGINAL_TEXT = r'''
import emfile
import mrcfile
import re
import numpy as np


def read(input_map, transpose=True, data_type=None):
    if isinstance(input_map, str):

        def valid_mrc(filename):
            pattern = r"\.(mrc|ali|rec|st)(\.\d+)?$"
            return bool(re.search(pattern, filename))

        if valid_mrc(input_map):
            data = mrcfile.open(input_map).data
        elif input_map.endswith(".em"):
            data = emfile.read(input_map)[1]
        else:
            raise ValueError("The input map file name", input_map, "is neither em or mrc file!")

        if transpose:
            data = data.transpose(2, 1, 0)
    elif isinstance(input_map, np.ndarray):
        data = np.array(input_map)
    else:
        raise ValueError(f"Input map must be path to valid file or nparray")

    data = np.array(data, copy=True)
    if data_type is not None:
        data = data.astype(data_type)

    return data


def write(data_to_write, file_name, transpose=True, data_type=None, overwrite=True):
    if data_type is not None:
        data_to_write = data_to_write.astype(data_type)

    if transpose and data_to_write.ndim == 3:
        data_to_write = data_to_write.transpose(2, 1, 0)

    if data_to_write.dtype == np.float64:
        data_to_write = data_to_write.astype(np.float32)

    if file_name.endswith(".mrc") or file_name.endswith(".rec"):
        mrcfile.write(name=file_name, data=data_to_write, overwrite=overwrite)
    elif file_name.endswith(".em"):
        emfile.write(file_name, data=data_to_write, overwrite=overwrite)
    else:
        raise ValueError("The output file name", file_name, "has to end with .mrc, .rec or .em!")


def em2mrc(map_name, invert=False, overwrite=True, output_name=None):
    if not isinstance(map_name, str):
        raise ValueError(f"Input file must be a string, valid path")
    elif not map_name.endswith(".em"):
        raise ValueError(f"Provided path must be .em file")
    data_to_write = read(map_name)

    if invert:
        data_to_write = data_to_write * (-1)

    if output_name is None:
        output_name = map_name[:-2] + "mrc"
    elif not output_name.endswith(".mrc"):
        raise ValueError(f"Specified output file name must end with .mrc")
    write(data_to_write, output_name, overwrite=overwrite)


def mrc2em(map_name, invert=False, overwrite=True, output_name=None):
    if not isinstance(map_name, str):
        raise ValueError(f"Input is not a string")
    else:
        if not map_name.endswith(".mrc"):
            raise ValueError(f"Input file is not .mrc file")
    data_to_write = read(map_name)

    if invert:
        data_to_write = data_to_write * (-1)

    if output_name is None:
        output_name = map_name[:-3] + "em"
    elif not output_name.endswith(".em"):
        raise ValueError(f"Specified output_name is not .em file")

    write(data_to_write, output_name, overwrite=overwrite)
'''


class _NS:
    pass


orig = _NS()
_ns = {}
exec(compile(ORIGINAL_TEXT, "<original cryomap>", "exec"), _ns)
for _k in ("read", "write", "em2mrc", "mrc2em"):
    setattr(orig, _k, _ns[_k])

# ----------------------------------------------------------------------------------------------------------------
# independent parsers / producers of the two formats (struct + numpy only)
# ----------------------------------------------------------------------------------------------------------------
MRC_MODES = {0: np.dtype("<i1"), 1: np.dtype("<i2"), 2: np.dtype("<f4"), 6: np.dtype("<u2"), 12: np.dtype("<f2")}
MRC_MODE_OF = {"int8": 0, "int16": 1, "float32": 2}
EM_TYPES = {1: np.dtype("<i1"), 2: np.dtype("<i2"), 4: np.dtype("<i4"), 5: np.dtype("<f4"), 9: np.dtype("<f8")}
EM_TYPE_OF = {"int8": 1, "int16": 2, "int32": 4, "float32": 5, "float64": 9}


def parse_mrc(path):
    """-> header (nx, ny, nz), dtype, array indexed [x, y, z] (x fastest on disk)"""
    raw = open(path, "rb").read()
    nx, ny, nz, mode = struct.unpack("<4i", raw[0:16])
    mapc, mapr, maps = struct.unpack("<3i", raw[64:76])
    nsymbt = struct.unpack("<i", raw[92:96])[0]
    assert raw[208:212] == b"MAP ", raw[208:212]
    assert raw[212:214] == b"\x44\x44", raw[212:216]
    assert (mapc, mapr, maps) == (1, 2, 3), (mapc, mapr, maps)
    dt = MRC_MODES[mode]
    body = raw[1024 + nsymbt :]
    assert len(body) == nx * ny * nz * dt.itemsize, (len(body), nx, ny, nz, dt)
    flat = np.frombuffer(body, dtype=dt)
    return (nx, ny, nz), dt, flat.reshape((nx, ny, nz), order="F")


def parse_em(path):
    raw = open(path, "rb").read()
    machine, _v, _u, code = struct.unpack("<4b", raw[0:4])
    assert machine == 6, machine
    nx, ny, nz = struct.unpack("<3i", raw[4:16])
    dt = EM_TYPES[code]
    body = raw[512:]
    assert len(body) == nx * ny * nz * dt.itemsize, (len(body), nx, ny, nz, dt)
    flat = np.frombuffer(body, dtype=dt)
    return (nx, ny, nz), dt, flat.reshape((nx, ny, nz), order="F")


def parse_any(path):
    return parse_em(path) if path.endswith(".em") else parse_mrc(path)


def produce_mrc(path, xyz):
    """hand-made MRC2014 file of an array indexed [x, y, z]"""
    nx, ny, nz = xyz.shape
    head = bytearray(1024)
    struct.pack_into("<4i", head, 0, nx, ny, nz, MRC_MODE_OF[xyz.dtype.name])
    struct.pack_into("<3i", head, 28, nx, ny, nz)  # mx my mz
    struct.pack_into("<3f", head, 40, float(nx), float(ny), float(nz))  # cella
    struct.pack_into("<3f", head, 52, 90.0, 90.0, 90.0)
    struct.pack_into("<3i", head, 64, 1, 2, 3)
    struct.pack_into("<i", head, 88, 1)  # ispg
    head[104:108] = b"\x00\x00\x00\x00"
    struct.pack_into("<i", head, 108, 20140)
    head[208:212] = b"MAP "
    head[212:216] = b"\x44\x44\x00\x00"
    with open(path, "wb") as fh:
        fh.write(bytes(head) + xyz.astype(xyz.dtype.newbyteorder("<")).tobytes(order="F"))


def produce_em(path, xyz):
    nx, ny, nz = xyz.shape
    head = bytearray(512)
    struct.pack_into("<4b", head, 0, 6, 0, 0, EM_TYPE_OF[xyz.dtype.name])
    struct.pack_into("<3i", head, 4, nx, ny, nz)
    with open(path, "wb") as fh:
        fh.write(bytes(head) + xyz.astype(xyz.dtype.newbyteorder("<")).tobytes(order="F"))


def produce_any(path, xyz):
    (produce_em if path.endswith(".em") else produce_mrc)(path, xyz)


def file_key(path):
    """bytes of a file with the time-stamped MRC labels masked"""
    raw = open(path, "rb").read()
    if path.endswith(".em"):
        return raw
    return raw[:220] + raw[1024:]  # nlabl + labels carry the creation time


# ----------------------------------------------------------------------------------------------------------------
FAILS = []
COUNT = [0]


def check(cond, *msg):
    COUNT[0] += 1
    if not cond:
        FAILS.append(" ".join(str(m) for m in msg))
        if len(FAILS) <= 20:
            print("FAIL:", *msg)


def same(a, b):
    return (
        isinstance(a, np.ndarray)
        and isinstance(b, np.ndarray)
        and a.shape == b.shape
        and a.dtype == b.dtype
        and np.array_equal(a, b, equal_nan=(a.dtype.kind == "f"))
    )


def same_strict(a, b):
    return same(a, b) and a.flags.writeable == b.flags.writeable and type(a) is type(b)


rng = np.random.default_rng(20260928)
DTYPES = [np.float32, np.float64, np.int16, np.int8]
EXTS = [".mrc", ".rec", ".em"]


def make_array(shape, dtype, flavour):
    dtype = np.dtype(dtype)
    if dtype.kind == "f":
        a = rng.uniform(-100.0, 100.0, size=shape).astype(dtype)
        if flavour == "nan" and a.size:
            a.reshape(-1)[rng.integers(0, a.size, size=max(1, a.size // 7))] = np.nan
        elif flavour == "neg":
            a = -np.abs(a) - dtype.type(0.25)
        elif flavour == "zero":
            a = np.zeros(shape, dtype=dtype)
        elif flavour == "tiny":
            a = (a * dtype.type(1e-30)).astype(dtype)
    else:
        info = np.iinfo(dtype)
        a = rng.integers(info.min, info.max, size=shape, endpoint=True).astype(dtype)
        if flavour == "neg":
            a = (-np.abs(a.astype(np.int64)) - 1).clip(info.min, -1).astype(dtype)
        elif flavour == "zero":
            a = np.zeros(shape, dtype=dtype)
        elif flavour == "nan":  # extremes instead
            a.reshape(-1)[0] = info.min
            a.reshape(-1)[-1] = info.max
    return a


def make_layout(a, layout):
    """same values, different memory layout / ownership"""
    if layout == "F":
        return np.asfortranarray(a)
    if layout == "view":
        big = np.zeros(tuple(2 * s for s in a.shape), dtype=a.dtype)
        v = big[::2, ::2, ::2]
        v[...] = a
        return v
    if layout == "ro":
        b = a.copy()
        b.flags.writeable = False
        return b
    return a


def expected_on_disk(a, data_type, transpose_w):
    e = a
    if data_type is not None:
        e = e.astype(data_type)
    if e.dtype == np.float64:
        e = e.astype(np.float32)
    # array index 0 is x when transposing (the default), else index 0 is the slowest axis (z)
    return e if transpose_w else e.transpose(2, 1, 0)


def run_roundtrip(tmp, tag, a, ext, data_type, transpose_w, transpose_r, read_type):
    p_new = os.path.join(tmp, "new", tag + ext)
    p_old = os.path.join(tmp, "old", tag + ext)
    keep = a.copy()
    kw = {}
    if data_type is not None:
        kw["data_type"] = data_type
    if transpose_w is not None:
        kw["transpose"] = transpose_w
    cryomap.write(a, p_new, **kw)
    orig.write(a, p_old, **kw)
    check(same(a, keep), tag, "write changed its input")
    tw = True if transpose_w is None else transpose_w
    disk = expected_on_disk(keep, data_type, tw)

    # bytes of the file, independent parser
    dims, dt, xyz = parse_any(p_new)
    check(dims == disk.shape, tag, "header nx,ny,nz", dims, "expected", disk.shape)
    check(dt == disk.dtype, tag, "dtype on disk", dt, "expected", disk.dtype)
    check(same(np.ascontiguousarray(xyz).astype(xyz.dtype.newbyteorder("=")), np.ascontiguousarray(disk)), tag, "voxels on disk")
    check(file_key(p_new) == file_key(p_old), tag, "file differs from the file of the original writer")

    # read back
    rkw = {}
    if transpose_r is not None:
        rkw["transpose"] = transpose_r
    if read_type is not None:
        rkw["data_type"] = read_type
    tr = True if transpose_r is None else transpose_r
    exp = disk if tr else disk.transpose(2, 1, 0)
    if read_type is not None:
        exp = exp.astype(read_type)
    for rep in range(2):
        got = cryomap.read(p_new, **rkw)
        check(same(got, np.ascontiguousarray(exp)) or same(got, exp), tag, "read-back", got.shape, got.dtype, "expected", exp.shape, exp.dtype)
        check(got.flags.writeable, tag, "read-back not writeable")
        ref = orig.read(p_new, **rkw)
        check(same_strict(got, ref), tag, "read differs from the original reader")
        check(got.flags.c_contiguous == ref.flags.c_contiguous and got.flags.owndata == ref.flags.owndata, tag, "layout differs")
        if got.size:
            got[...] = 0  # must not reach the file or later reads
    if tw and tr and data_type is None and read_type is None:
        back = cryomap.read(p_new)
        want = keep.astype(np.float32) if keep.dtype == np.float64 else keep
        check(same(back, want), tag, "plain round trip")


def run_foreign(tmp, tag, xyz, ext):
    """files produced by 'other software' (hand-made) are read with index 0 = x"""
    p = os.path.join(tmp, "new", tag + ext)
    produce_any(p, xyz)
    for tr in (True, False):
        got = cryomap.read(p, transpose=tr)
        exp = xyz if tr else xyz.transpose(2, 1, 0)
        check(same(got, np.array(exp)), tag, "foreign file read", tr, got.shape, exp.shape)
        check(same_strict(got, orig.read(p, transpose=tr)), tag, "foreign: differs from original reader")
    # and written again identically
    p2 = os.path.join(tmp, "new", tag + "_again" + ext)
    cryomap.write(cryomap.read(p), p2)
    dims, dt, back = parse_any(p2)
    want = xyz.astype(np.float32) if xyz.dtype == np.float64 else xyz
    check(dims == xyz.shape and same(np.array(back), np.array(want)), tag, "foreign file rewritten")


def raises(fn, *a, **k):
    try:
        fn(*a, **k)
    except Exception as e:  # noqa
        return type(e)
    return None


def run_convert(tmp, tag, xyz, direction, invert, explicit, overwrite_case):
    src_ext, dst_ext = (".em", ".mrc") if direction == "em2mrc" else (".mrc", ".em")
    fn_new = getattr(cryomap, direction)
    fn_old = getattr(orig, direction)
    results = {}
    for side, fn in (("new", fn_new), ("old", fn_old)):
        src = os.path.join(tmp, side, tag + src_ext)
        produce_any(src, xyz)
        src_bytes = open(src, "rb").read()
        if explicit:
            dst = os.path.join(tmp, side, tag + "_out" + dst_ext)
            kw = {"output_name": dst}
        else:
            dst = os.path.join(tmp, side, tag + dst_ext)
            kw = {}
        if invert is not None:
            kw["invert"] = invert
        if overwrite_case == "exists_false":
            produce_any(dst, np.full((2, 3, 4), 7, dtype=np.int16))
            before = open(dst, "rb").read()
            err = raises(fn, src, overwrite=False, **kw)
            check(err is not None, tag, side, "overwrite=False did not refuse")
            check(open(dst, "rb").read() == before, tag, side, "existing file was modified although overwrite=False")
            results[side] = ("refused", err)
            continue
        if overwrite_case == "exists_true":
            produce_any(dst, np.full((2, 3, 4), 7, dtype=np.int16))
            kw["overwrite"] = True
        elif overwrite_case == "exists_default":
            produce_any(dst, np.full((2, 3, 4), 7, dtype=np.int16))
        elif overwrite_case == "fresh_false":
            kw["overwrite"] = False
        ret = fn(src, **kw)
        check(ret is None, tag, "return value")
        check(open(src, "rb").read() == src_bytes, tag, "source file changed")
        dims, dt, got = parse_any(dst)
        want = xyz
        if invert:
            want = (-(xyz.astype(np.float64 if xyz.dtype.kind == "f" else np.int64))).astype(xyz.dtype)
        if want.dtype == np.float64:
            want = want.astype(np.float32)
        check(dims == xyz.shape, tag, side, "converted header", dims, xyz.shape)
        check(same(np.array(got).astype(got.dtype.newbyteorder("=")), np.array(want)), tag, side, "converted voxels", dt, want.dtype)
        # reading both through cryomap gives the same volume
        if side == "new":
            check(same(cryomap.read(dst), np.array(want)), tag, "converted file read back")
        results[side] = file_key(dst)
    check(results["new"] == results["old"], tag, "conversion differs from the original conversion")


def variant_checks_a(tmp):
    """resource handling of the reader; must hold on the clean tree as well"""
    # a: nothing is left open by repeated reads; closing the file does not invalidate what was returned
    import gc

    p = os.path.join(tmp, "new", "fd.mrc")
    a = make_array((5, 7, 3), np.float32, "plain")
    cryomap.write(a, p)
    gc.collect()
    n0 = len(os.listdir("/proc/self/fd"))
    held = [cryomap.read(p) for _ in range(50)]
    gc.collect()
    n1 = len(os.listdir("/proc/self/fd"))
    check(n1 <= n0, "file descriptors left open by read:", n1 - n0)
    check(all(same(h, a) for h in held), "arrays returned by read invalid after the file was closed")
    # the file can be replaced and removed right after reading
    cryomap.write(a * 2, p)
    check(same(cryomap.read(p), a * 2), "rewrite after read")
    os.remove(p)
    check(all(same(h, a) for h in held), "arrays returned by read depend on the file")
    # error behaviour unchanged
    for bad in ("nofile.txt", 1234, None, b"x.mrc"):
        check(raises(cryomap.read, bad) is raises(orig.read, bad) is ValueError, "read(bad input)", bad)
    missing = os.path.join(tmp, "new", "does_not_exist.mrc")
    check(raises(cryomap.read, missing) is raises(orig.read, missing), "read(missing file)")
    check(raises(cryomap.read, missing) is not None, "read(missing file) silent")
    trunc = os.path.join(tmp, "new", "trunc.mrc")
    cryomap.write(a, trunc)
    raw = open(trunc, "rb").read()
    open(trunc, "wb").write(raw[:-10])
    check(raises(cryomap.read, trunc) is raises(orig.read, trunc) is not None, "read(truncated file)")
    # numbered / stack names take the MRC route as before
    for name in ("vol.mrc.1", "stack.st", "stack.ali", "v.rec.12"):
        q = os.path.join(tmp, "new", name)
        shutil.copy(os.path.join(tmp, "new", "trunc.mrc"), q)
        open(q, "wb").write(raw)
        check(same_strict(cryomap.read(q), orig.read(q)) and same(cryomap.read(q), a), "read", name)
    # arrays pass through
    for lay in ("C", "F", "view", "ro"):
        b = make_layout(a, lay)
        got = cryomap.read(b)
        check(same_strict(got, orig.read(b)) and got is not b and not np.shares_memory(got, b), "read(array)", lay)


def variant_checks_b(tmp):
    """file-name conventions: dispatch of reader / writer and default output names of the converters"""
    a = make_array((3, 5, 4), np.int16, "plain")
    stems = ["v", "v.1", "a.b.c", "x.em", "x.mrc", "x.rec", "em", ".hidden", "with space", "UPPER.MRC", "st", "v.st.7"]
    suffixes = [".mrc", ".rec", ".em", ".st", ".ali", ".mrc.1", ".rec.007", ".st.3", ".ali.12", ".em.1", ".mrcs", ".MRC",
                ".EM", ".mrc.", ".mrc.a", ".txt", "", ".map", "mrc", "em", ".mrc.gz"]
    k = 0
    for stem in stems:
        for suf in suffixes:
            k += 1
            name = stem + suf
            pn = os.path.join(tmp, "new", "nm%d_" % k + name)
            po = os.path.join(tmp, "old", "nm%d_" % k + name)
            en, eo = raises(cryomap.write, a, pn), raises(orig.write, a, po)
            check(en is eo, "write dispatch", name, en, eo)
            check(os.path.exists(pn) == os.path.exists(po), "write dispatch: file made", name)
            if en is None:
                check(file_key(pn) == file_key(po), "write dispatch: bytes", name)
                check(parse_any(pn)[0] == a.shape, "write dispatch: header", name)
            # reader: same route for every name (the file holds MRC or EM bytes according to what the original reader expects)
            for body in ("mrc", "em"):
                q = os.path.join(tmp, "new", "rd%d_%s_" % (k, body) + name)
                (produce_mrc if body == "mrc" else produce_em)(q, a)
                rn, ro = raises(cryomap.read, q), raises(orig.read, q)
                check(rn is ro, "read dispatch", name, body, rn, ro)
                if rn is None:
                    check(same_strict(cryomap.read(q), orig.read(q)) and same(cryomap.read(q), a), "read dispatch: voxels", name, body)
                os.remove(q)
    # default output names
    k = 0
    for stem in ["v", "a.b", "x.em", "x.mrc", "x.mrc.1", "with space", ".", "..", "mrc", "em", "e.m", "ab.emx"]:
        for direction, src_ext, dst_ext in (("em2mrc", ".em", ".mrc"), ("mrc2em", ".mrc", ".em")):
            k += 1
            made = {}
            for side, mod in (("new", cryomap), ("old", orig)):
                d = os.path.join(tmp, side, "dn%d" % k)
                os.makedirs(d)
                src = os.path.join(d, stem + src_ext)
                produce_any(src, a)
                getattr(mod, direction)(src)
                made[side] = sorted(os.listdir(d))
                check(made[side] == sorted([stem + src_ext, stem + dst_ext]), "default output name", direction, stem, made[side])
                dims, dt, got = parse_any(os.path.join(d, stem + dst_ext))
                check(dims == a.shape and same(np.array(got).astype(np.int16), a), "default output content", direction, stem)
            check(made["new"] == made["old"], "default output name differs from original", direction, stem)


def variant_checks_c(tmp):
    """input types: str and ndarray behave as before; whatever else is accepted must mean the same file / array"""
    a = make_array((4, 2, 6), np.float32, "nan")
    for ext in EXTS:
        ps = os.path.join(tmp, "new", "pl_s" + ext)
        cryomap.write(a, ps)
        ref = file_key(ps)
        # a str subclass is a str
        class S(str):
            pass
        check(same_strict(cryomap.read(S(ps)), orig.read(S(ps))), "read(str subclass)", ext)
        pl = pathlib.Path(tmp) / "new" / ("pl_p" + ext)
        try:
            cryomap.write(a, pl)
            accepted = True
        except (AttributeError, ValueError, TypeError):
            accepted = False
        if accepted:
            check(pl.exists() and file_key(str(pl)) == ref, "write(Path) wrote something else", ext)
            check(raises(cryomap.write, a, pl, overwrite=False) is not None, "write(Path, overwrite=False) did not refuse", ext)
        try:
            got = cryomap.read(pathlib.Path(ps))
            check(same_strict(got, orig.read(ps)), "read(Path) differs from read(str)", ext)
            check(same(cryomap.read(pathlib.Path(ps), transpose=False, data_type=np.float64), orig.read(ps, transpose=False, data_type=np.float64)), "read(Path, options)", ext)
        except ValueError:
            pass
        # array-likes that are no arrays: either refused as before or taken as the array they denote
        lst = a.tolist()
        pq = os.path.join(tmp, "new", "pl_l" + ext)
        try:
            cryomap.write(lst, pq)
            dims, dt, got = parse_any(pq)
            check(dims == a.shape and dt == np.float32 and same(np.array(got).astype(np.float32), a), "write(list) wrote something else", ext)
        except (AttributeError, ValueError, TypeError):
            check(not os.path.exists(pq), "write(list) refused but left a file", ext)
        # subclasses of ndarray pass as before
        m = np.ma.masked_invalid(a)
        mm = a.view(type("Sub", (np.ndarray,), {}))
        pn, po = os.path.join(tmp, "new", "pl_sub" + ext), os.path.join(tmp, "old", "pl_sub" + ext)
        cryomap.write(mm, pn)
        orig.write(mm, po)
        check(file_key(pn) == file_key(po), "write(ndarray subclass)", ext)
        check(same_strict(cryomap.read(mm), orig.read(mm)), "read(ndarray subclass)", ext)
        en, eo = raises(cryomap.write, m, pn), raises(orig.write, m, po)
        check(en is eo and (en is not None or file_key(pn) == file_key(po)), "write(masked array)", ext, en, eo)
    for bad in (1234, None, 3.5, ("a.mrc",), ["a.mrc"], b"a.mrc", {"a": 1}):
        check(raises(cryomap.read, bad) is ValueError, "read(bad input) must raise ValueError", bad)


def main():
    tmp = tempfile.mkdtemp(prefix="c11_demo_")
    try:
        os.makedirs(os.path.join(tmp, "new"))
        os.makedirs(os.path.join(tmp, "old"))

        # ---- edge shapes x all dtypes x all extensions ----------------------------------------------------
        edge_shapes = [(1, 1, 1), (1, 2, 3), (3, 2, 1), (48, 1, 1), (1, 48, 1), (1, 1, 48), (2, 3, 4), (4, 3, 2),
                       (7, 7, 7), (8, 8, 8), (48, 47, 46), (5, 48, 6), (16, 17, 16), (31, 2, 31)]
        n = 0
        for shape in edge_shapes:
            for dt in DTYPES:
                for ext in EXTS:
                    n += 1
                    a = make_array(shape, dt, ["plain", "nan", "neg", "zero", "tiny"][n % 5])
                    run_roundtrip(tmp, f"e{n}", a, ext, None, None, None, None)

        # ---- random shapes / options ---------------------------------------------------------------------
        data_types = [None, None, np.float32, np.float64, np.int16, np.int8, np.single, "float32", "int16"]
        read_types = [None, None, None, np.float32, np.float64, np.int16, np.float16]
        for i in range(420):
            shape = tuple(int(s) for s in rng.integers(1, 49, size=3))
            dt = DTYPES[i % 4]
            ext = EXTS[(i // 4) % 3]
            a = make_array(shape, dt, ["plain", "nan", "neg", "plain", "zero"][int(rng.integers(0, 5))])
            a = make_layout(a, ["C", "F", "view", "ro", "C"][int(rng.integers(0, 5))])
            data_type = data_types[int(rng.integers(0, len(data_types)))]
            if data_type is not None and np.dtype(data_type).kind == "i" and a.dtype.kind == "f":
                a = np.nan_to_num(a)  # float -> int of NaN is not defined
            tw = [None, True, False][int(rng.integers(0, 3))]
            tr = [None, True, False][int(rng.integers(0, 3))]
            rt = read_types[int(rng.integers(0, len(read_types)))]
            if rt is not None and np.dtype(rt).kind == "i":
                a = np.nan_to_num(a) if a.dtype.kind == "f" else a
            run_roundtrip(tmp, f"r{i}", a, ext, data_type, tw, tr, rt)

        # ---- files made by other software ----------------------------------------------------------------
        k = 0
        for shape in edge_shapes[:10] + [tuple(int(s) for s in rng.integers(1, 49, size=3)) for _ in range(40)]:
            for dt in (np.float32, np.int16, np.int8):
                for ext in EXTS:
                    k += 1
                    run_foreign(tmp, f"f{k}", make_array(shape, dt, ["plain", "nan", "neg"][k % 3]), ext)
            k += 1
            run_foreign(tmp, f"f{k}", make_array(shape, np.float64, "plain"), ".em")

        # ---- conversions ----------------------------------------------------------------------------------
        cases = ["fresh", "fresh", "fresh_false", "exists_true", "exists_default", "exists_false"]
        k = 0
        for shape in edge_shapes[:8] + [tuple(int(s) for s in rng.integers(1, 49, size=3)) for _ in range(60)]:
            for direction in ("em2mrc", "mrc2em"):
                k += 1
                dts = [np.float32, np.int16, np.int8] + ([np.float64] if direction == "em2mrc" else [])
                dt = dts[k % len(dts)]
                xyz = make_array(shape, dt, ["plain", "nan", "neg", "zero"][k % 4])
                invert = [None, False, True, True][(k // 2) % 4]
                run_convert(tmp, f"c{k}", xyz, direction, invert, explicit=bool((k // 3) % 2), overwrite_case=cases[k % len(cases)])
        # argument checks of the converters
        src = os.path.join(tmp, "new", "argcheck.em")
        produce_em(src, make_array((2, 3, 4), np.float32, "plain"))
        srm = os.path.join(tmp, "new", "argcheck2.mrc")
        produce_mrc(srm, make_array((2, 3, 4), np.float32, "plain"))
        for fn, good, wrong_out in (("em2mrc", src, "x.em"), ("mrc2em", srm, "x.mrc")):
            for bad in (123, None, "a.txt", srm if fn == "em2mrc" else src):
                check(raises(getattr(cryomap, fn), bad) is ValueError is raises(getattr(orig, fn), bad), fn, "bad input", bad)
            check(raises(getattr(cryomap, fn), good, output_name=os.path.join(tmp, "new", wrong_out)) is ValueError, fn, "bad output name")
            check(not os.path.exists(os.path.join(tmp, "new", wrong_out)), fn, "wrote to a wrongly named output")

        # ---- refusing to overwrite, bad names ---------------------------------------------------------------
        for ext in EXTS:
            p = os.path.join(tmp, "new", "ow" + ext)
            a = make_array((3, 4, 5), np.float32, "plain")
            cryomap.write(a, p, overwrite=False)  # fresh file is fine
            before = open(p, "rb").read()
            check(raises(cryomap.write, a + 1, p, overwrite=False) is not None, "write refused", ext)
            check(raises(cryomap.write, a + 1, p, overwrite=False) is raises(orig.write, a + 1, p, overwrite=False), "write refusal type", ext)
            check(open(p, "rb").read() == before, "file modified although overwrite=False", ext)
            cryomap.write(a + 1, p)
            check(same(cryomap.read(p), a + 1), "overwrite by default", ext)
        for bad in ("x.txt", "x.mrcs", "x.EM", "x"):
            q = os.path.join(tmp, "new", bad)
            check(raises(cryomap.write, a, q) is ValueError is raises(orig.write, a, q), "write bad name", bad)
            check(not os.path.exists(q), "file with bad name created", bad)

        variant_checks_a(tmp)
        variant_checks_b(tmp)
        variant_checks_c(tmp)
    finally:
        shutil.rmtree(tmp, ignore_errors=True)

    print(f"variant {VARIANT}: checks: {COUNT[0]}, failures: {len(FAILS)}")
    if FAILS:
        print("FAIL")
        sys.exit(1)
    print("PASS")


if __name__ == "__main__":
    main()
