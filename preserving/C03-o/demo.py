import sys, os
sys.path.insert(0, os.getcwd())

# ----------------------------------------------------------------------------------------------------------------------
# Common part: an independent statement of property C03 (RELION <-> cryoCAT conversion keeps pose and identity)
# ----------------------------------------------------------------------------------------------------------------------
import re, tempfile, warnings, shutil, math
import numpy as np
import pandas as pd

warnings.simplefilter("ignore")

from cryocat import cryomotl
from cryocat.cryomotl import Motl, RelionMotl, EmMotl

FAILS = []
NCHECKS = [0]


def check(cond, msg):
    NCHECKS[0] += 1
    if not bool(cond):
        FAILS.append(msg)
        if len(FAILS) <= 25:
            print("  FAIL:", msg)


# --- independent rotation algebra (plain numpy, no scipy) -------------------------------------------------------------
def _rz(a):
    a = np.deg2rad(np.asarray(a, dtype=float))
    c, s = np.cos(a), np.sin(a)
    m = np.zeros(a.shape + (3, 3))
    m[..., 0, 0], m[..., 0, 1], m[..., 1, 0], m[..., 1, 1], m[..., 2, 2] = c, -s, s, c, 1.0
    return m


def _rx(a):
    a = np.deg2rad(np.asarray(a, dtype=float))
    c, s = np.cos(a), np.sin(a)
    m = np.zeros(a.shape + (3, 3))
    m[..., 1, 1], m[..., 1, 2], m[..., 2, 1], m[..., 2, 2], m[..., 0, 0] = c, -s, s, c, 1.0
    return m


def _ry(a):
    a = np.deg2rad(np.asarray(a, dtype=float))
    c, s = np.cos(a), np.sin(a)
    m = np.zeros(a.shape + (3, 3))
    m[..., 0, 0], m[..., 0, 2], m[..., 2, 0], m[..., 2, 2], m[..., 1, 1] = c, s, -s, c, 1.0
    return m


def particle_matrix(phi, theta, psi):
    """cryoCAT: extrinsic zxz(phi, theta, psi) -> first phi about z, then theta about x, then psi about z."""
    return _rz(psi) @ _rx(theta) @ _rz(phi)


def relion_matrix(rot_, tilt, psi):
    """RELION ZYZ triplet read as Rz(rot) Ry(tilt) Rz(psi)."""
    return _rz(rot_) @ _ry(tilt) @ _rz(psi)


def inv(m):
    return np.swapaxes(m, -1, -2)


def max_dev(a, b):
    a = np.asarray(a, dtype=float)
    b = np.asarray(b, dtype=float)
    if a.shape != b.shape:
        return np.inf
    if a.size == 0:
        return 0.0
    return float(np.max(np.abs(a - b)))


# --- independent name formatting and parsing --------------------------------------------------------------------------
def fmt_name(fmt, letter, number):
    seqs = re.findall(r"\$" + letter + "+", fmt)
    longest = max(seqs, key=len)
    return fmt.replace(longest, str(int(number)).zfill(len(longest) - 1))


def expected_names(version, tomo_format, subtomo_format, tomo_ids, subtomo_ids):
    tn, sn = [], []
    for t, s in zip(tomo_ids, subtomo_ids):
        tn.append(int(t) if tomo_format == "" else fmt_name(tomo_format, "x", t))
        if subtomo_format == "":
            sn.append(int(s))
        else:
            name = fmt_name(subtomo_format, "y", s)
            if re.search(r"\$x+", name):
                name = fmt_name(name, "x", t)
            sn.append(name)
    return tn, sn


def expected_halfset_ids(subsets):
    """smallest strictly increasing numbers, odd for half-set 1, even for half-set 2"""
    out = []
    prev = 0
    for s in subsets:
        want_odd = int(s) % 2 == 1
        c = prev + 1
        if (c % 2 == 1) != want_odd:
            c += 1
        out.append(c)
        prev = c
    return out


# --- independent STAR writer / reader ---------------------------------------------------------------------------------
def write_star(path, blocks):
    """blocks: list of (specifier, dict column -> list of str)"""
    with open(path, "w") as f:
        f.write("# written by the independent writer of the demo\n")
        for spec, cols in blocks:
            f.write(f"\n{spec}\n\nloop_\n")
            names = list(cols.keys())
            for i, n in enumerate(names, 1):
                f.write(f"_{n} #{i}\n")
            nrows = len(cols[names[0]])
            for r in range(nrows):
                f.write(" ".join(str(cols[n][r]) for n in names) + "\n")
            f.write("\n")


def read_star(path):
    blocks = {}
    cur = None
    names = None
    with open(path) as f:
        for line in f:
            line = line.split("#")[0].strip() if not line.lstrip().startswith("_") else line.strip()
            if not line:
                continue
            if line.startswith("data_"):
                cur = line
                names = []
                blocks[cur] = {"names": names, "rows": []}
            elif line == "loop_":
                continue
            elif line.startswith("_"):
                names.append(line.split()[0][1:])
            else:
                blocks[cur]["rows"].append(line.split())
    out = {}
    for spec, b in blocks.items():
        out[spec] = {n: [r[i] for r in b["rows"]] for i, n in enumerate(b["names"])}
    return out


# --- input generators -------------------------------------------------------------------------------------------------
SPECIAL_THETA = [0.0, 180.0, -180.0, 360.0, -0.0, 90.0, -90.0, 540.0]


def random_angles(rng, n, kind):
    if kind == "canonical":
        a = np.column_stack([rng.uniform(-180, 180, n), rng.uniform(0, 180, n), rng.uniform(-180, 180, n)])
    elif kind == "wild":
        a = rng.uniform(-720, 720, (n, 3))
    elif kind == "gimbal":
        a = rng.uniform(-360, 360, (n, 3))
        a[:, 1] = rng.choice(SPECIAL_THETA, n)
    elif kind == "integer":
        a = rng.integers(-4, 5, (n, 3)).astype(float) * 45.0
    else:
        a = np.zeros((n, 3))
    return a


def make_motl_df(rng, n, angle_kind, int_types=False, odd_index=False, nan_holes=False, both_halves=True):
    df = pd.DataFrame(np.zeros((n, 20)), columns=Motl.motl_columns)
    ang = random_angles(rng, n, angle_kind)
    df["phi"], df["theta"], df["psi"] = ang[:, 0], ang[:, 1], ang[:, 2]
    if int_types:
        df[["x", "y", "z"]] = rng.integers(-200, 2000, (n, 3))
        df[["shift_x", "shift_y", "shift_z"]] = rng.integers(-5, 6, (n, 3))
    else:
        df[["x", "y", "z"]] = rng.uniform(-200, 2000, (n, 3))
        df[["shift_x", "shift_y", "shift_z"]] = rng.uniform(-6, 6, (n, 3))
    # zeros and first / last elements
    df.loc[df.index[0], ["x", "shift_x"]] = 0.0
    df.loc[df.index[-1], ["z", "shift_z"]] = 0.0
    tomo = np.sort(rng.integers(1, 12345 if n > 3 else 40, n))
    df["tomo_id"] = tomo if int_types else tomo.astype(float)
    if both_halves:
        sub = np.sort(rng.choice(np.arange(1, 20 * n + 50), n, replace=False))
    else:
        sub = np.sort(rng.choice(np.arange(1, 20 * n + 50, 2), n, replace=False))  # odd numbers only
    df["subtomo_id"] = sub if int_types else sub.astype(float)
    df["class"] = rng.integers(1, 9, n)
    df["object_id"] = rng.integers(1, 5, n)
    df["score"] = rng.uniform(0, 1, n)
    if nan_holes:
        df.loc[df.index[rng.integers(0, n)], "score"] = np.nan
        df.loc[df.index[rng.integers(0, n)], "geom4"] = np.nan
    if odd_index:
        df.index = rng.permutation(np.arange(100, 100 + 3 * n, 3))
    return df


FORMATS = {
    3.0: [("", ""), ("/data/tomos/$xxx.rec", "/data/subtomos/$xxx/$xxx_$yyyyyyy_2.50A.mrc"),
          ("/d4/t/TS_$xxxxx_bin$xx.mrc", "/d4/$xx/sub_$xxxx_$yy_1.7A.mrc")],
    3.1: [("", ""), ("/data/tomos/$xxx.rec", "/data/subtomos/$xxx/$xxx_$yyyyyyy_2.50A.mrc"),
          ("$xxxx.mrc", "$xxxx_$yyy.mrc")],
    4.0: [("", ""), ("TS_$xxx", "TS_$xxx/$yyy"), ("/run7/TS_$xxxxx", "/run7/TS_$xxxxx/$yyyyyy")],
}


def names_of(version):
    if version <= 3.0:
        return "rlnMicrographName", "rlnImageName", ["rlnOriginX", "rlnOriginY", "rlnOriginZ"], "data_"
    if version == 3.1:
        return "rlnMicrographName", "rlnImageName", ["rlnOriginXAngst", "rlnOriginYAngst", "rlnOriginZAngst"], "data_particles"
    return "rlnTomoName", "rlnTomoParticleName", ["rlnOriginXAngst", "rlnOriginYAngst", "rlnOriginZAngst"], "data_particles"


# --- the property, export side ----------------------------------------------------------------------------------------
def check_export_table(tag, src, rdf, version, tomo_format, subtomo_format, tol=1e-9):
    """src: motl dataframe (already index-reset), rdf: table in RELION form (numbers may be strings from a file)"""
    n = src.shape[0]
    tname, sname, onames, _ = names_of(version)
    check(len(rdf[tname]) == n, f"{tag}: row count")
    pos = src[["x", "y", "z"]].to_numpy(dtype=float) + src[["shift_x", "shift_y", "shift_z"]].to_numpy(dtype=float)
    got = np.column_stack([np.asarray(rdf["rlnCoordinate" + c], dtype=float) for c in "XYZ"])
    check(max_dev(got, pos) <= tol * 1e3 + tol * np.abs(pos).max(), f"{tag}: rlnCoordinate = x + shift (dev {max_dev(got, pos)})")
    org = np.column_stack([np.asarray(rdf[c], dtype=float) for c in onames])
    check(np.all(org == 0.0), f"{tag}: origin shifts are zero")
    other = {"rlnOriginX", "rlnOriginY", "rlnOriginZ", "rlnOriginXAngst", "rlnOriginYAngst", "rlnOriginZAngst"} - set(onames)
    check(not (other & set(rdf.keys())), f"{tag}: no origin columns of the other unit")
    rm = relion_matrix(np.asarray(rdf["rlnAngleRot"], dtype=float), np.asarray(rdf["rlnAngleTilt"], dtype=float),
                       np.asarray(rdf["rlnAnglePsi"], dtype=float))
    pm = particle_matrix(src["phi"].to_numpy(dtype=float), src["theta"].to_numpy(dtype=float), src["psi"].to_numpy(dtype=float))
    check(max_dev(rm, inv(pm)) <= max(tol, 1e-9) * 10, f"{tag}: ZYZ rotation is the inverse of the zxz rotation (dev {max_dev(rm, inv(pm))})")
    etn, esn = expected_names(version, tomo_format, subtomo_format, src["tomo_id"].to_numpy(), src["subtomo_id"].to_numpy())
    check([str(v) for v in rdf[tname]] == [str(v) for v in etn], f"{tag}: tomogram names")
    check([str(v) for v in rdf[sname]] == [str(v) for v in esn], f"{tag}: subtomogram names")
    check(np.array_equal(np.asarray(rdf["rlnClassNumber"], dtype=float), src["class"].to_numpy(dtype=float)), f"{tag}: class")
    hs = np.asarray(rdf["rlnRandomSubset"], dtype=float)
    sid = src["subtomo_id"].to_numpy(dtype=float)
    check(np.array_equal(hs, np.where(sid % 2 == 1, 1.0, 2.0)), f"{tag}: half-set 1/2 = odd/even subtomogram number")
    if version < 4.0:
        check("rlnPixelSize" in rdf.keys(), f"{tag}: pixel size column")


def check_import(tag, m, coords, origins, zyz, tomo_ids, sub_ids, classes, subsets, version, pixel_size, tol=1e-9):
    """m: RelionMotl made from RELION data that hold the given values"""
    n = len(tomo_ids)
    d = m.df
    check(d.shape[0] == n and list(d.columns) == Motl.motl_columns, f"{tag}: shape / columns of df")
    check(max_dev(d[["x", "y", "z"]].to_numpy(dtype=float), coords) <= tol * (1 + np.abs(coords).max()), f"{tag}: x,y,z = rlnCoordinate")
    exp_shift = -np.asarray(origins, dtype=float)
    if version >= 3.1:
        exp_shift = exp_shift / pixel_size
    check(max_dev(d[["shift_x", "shift_y", "shift_z"]].to_numpy(dtype=float), exp_shift) <= tol * (1 + np.abs(exp_shift).max()),
          f"{tag}: shift = -origin (/ pixel size)  (dev {max_dev(d[['shift_x', 'shift_y', 'shift_z']].to_numpy(dtype=float), exp_shift)})")
    pm = particle_matrix(d["phi"].to_numpy(dtype=float), d["theta"].to_numpy(dtype=float), d["psi"].to_numpy(dtype=float))
    rm = relion_matrix(zyz[:, 0], zyz[:, 1], zyz[:, 2])
    check(max_dev(pm, inv(rm)) <= 1e-8, f"{tag}: zxz rotation is the inverse of the ZYZ rotation (dev {max_dev(pm, inv(rm))})")
    check(np.array_equal(d["tomo_id"].to_numpy(dtype=float), np.asarray(tomo_ids, dtype=float)), f"{tag}: tomo_id")
    check(np.array_equal(d["class"].to_numpy(dtype=float), np.asarray(classes, dtype=float)), f"{tag}: class")
    check(np.array_equal(d["geom3"].to_numpy(dtype=float), np.asarray(sub_ids, dtype=float)), f"{tag}: geom3 = subtomogram number of the name")
    sub_ids = np.asarray(sub_ids, dtype=float)
    if subsets is not None and len(set(subsets)) == 2:
        exp = expected_halfset_ids(subsets)
        check(np.array_equal(d["subtomo_id"].to_numpy(dtype=float), np.asarray(exp, dtype=float)), f"{tag}: half-set numbering of subtomo_id")
        got = d["subtomo_id"].to_numpy(dtype=float)
        check(np.array_equal(got % 2 == 1, np.asarray(subsets) == 1), f"{tag}: half-set 1/2 = odd/even")
        check(len(set(got.tolist())) == n, f"{tag}: subtomo_id unique")
    elif len(set(sub_ids.tolist())) == n:
        check(np.array_equal(d["subtomo_id"].to_numpy(dtype=float), sub_ids), f"{tag}: subtomo_id = number of the name")
    else:
        check(np.array_equal(d["subtomo_id"].to_numpy(dtype=float), np.arange(1, n + 1)), f"{tag}: repeated numbers are renumbered 1..n")


def check_same_pose(tag, src, back, tol):
    p0 = src[["x", "y", "z"]].to_numpy(dtype=float) + src[["shift_x", "shift_y", "shift_z"]].to_numpy(dtype=float)
    p1 = back[["x", "y", "z"]].to_numpy(dtype=float) + back[["shift_x", "shift_y", "shift_z"]].to_numpy(dtype=float)
    check(max_dev(p0, p1) <= tol * (1 + np.abs(p0).max()), f"{tag}: position after the round trip (dev {max_dev(p0, p1)})")
    m0 = particle_matrix(src["phi"].to_numpy(dtype=float), src["theta"].to_numpy(dtype=float), src["psi"].to_numpy(dtype=float))
    m1 = particle_matrix(back["phi"].to_numpy(dtype=float), back["theta"].to_numpy(dtype=float), back["psi"].to_numpy(dtype=float))
    check(max_dev(m0, m1) <= max(tol, 1e-8) * 10, f"{tag}: orientation after the round trip (dev {max_dev(m0, m1)})")
    check(np.array_equal(src["tomo_id"].to_numpy(dtype=float), back["tomo_id"].to_numpy(dtype=float)), f"{tag}: tomo_id after the round trip")
    check(np.array_equal(src["class"].to_numpy(dtype=float), back["class"].to_numpy(dtype=float)), f"{tag}: class after the round trip")
    check(np.array_equal(src["subtomo_id"].to_numpy(dtype=float), back["geom3"].to_numpy(dtype=float)), f"{tag}: subtomogram number (geom3) after the round trip")
    check(np.array_equal(src["subtomo_id"].to_numpy(dtype=float) % 2, back["subtomo_id"].to_numpy(dtype=float) % 2),
          f"{tag}: odd/even subtomogram number after the round trip")


# --- RELION data of an independent writer -----------------------------------------------------------------------------
def make_relion_input(rng, n, version, pixel_size, angle_kind, with_subsets, repeated_ids=False, numeric_names=False):
    tname, sname, onames, spec = names_of(version)
    coords = rng.uniform(-100, 4000, (n, 3)).round(3)
    origins = rng.uniform(-25, 25, (n, 3)).round(4)
    origins[0, :] = 0.0
    if n > 2:
        origins[-1, 1] = -0.0
    if angle_kind == "gimbal":
        zyz = rng.uniform(-360, 360, (n, 3)).round(4)
        zyz[:, 1] = rng.choice([0.0, 180.0, -180.0, 360.0, 90.0], n)
    elif angle_kind == "wild":
        zyz = rng.uniform(-720, 720, (n, 3)).round(4)
    else:
        zyz = np.column_stack([rng.uniform(-180, 180, n), rng.uniform(0, 180, n), rng.uniform(-180, 180, n)]).round(4)
    tomo_ids = np.sort(rng.integers(1, 999, n))
    if repeated_ids:
        sub_ids = rng.integers(1, max(2, n // 2 + 1), n)
    else:
        sub_ids = np.sort(rng.choice(np.arange(1, 10 * n + 10), n, replace=False))
    classes = rng.integers(1, 6, n)
    subsets = None
    if with_subsets == "random":
        subsets = rng.integers(1, 3, n)
    elif with_subsets == "alternate":
        subsets = np.arange(n) % 2 + 1
    elif with_subsets == "alternate2":
        subsets = (np.arange(n) + 1) % 2 + 1
    elif with_subsets == "ones":
        subsets = np.ones(n, dtype=int)
    elif with_subsets == "blocks":
        subsets = np.where(np.arange(n) < n // 2, 2, 1)
    cols = {}
    if numeric_names:
        tn = [int(t) for t in tomo_ids]
        sn = [int(s) for s in sub_ids]
    elif version < 4.0:
        tn = [f"/tomos/run3/{t:04d}_{pixel_size:.2f}A.rec" for t in tomo_ids]
        sn = [f"/sub/run3/{t:04d}/{t:04d}_{s:07d}_{pixel_size:.2f}A.mrc" for t, s in zip(tomo_ids, sub_ids)]
    else:
        tn = [f"TS_{t:03d}" for t in tomo_ids]
        sn = [f"TS_{t:03d}/{s}" for t, s in zip(tomo_ids, sub_ids)]
    cols[tname] = tn
    for i, c in enumerate("XYZ"):
        cols["rlnCoordinate" + c] = list(coords[:, i])
    cols["rlnAngleRot"], cols["rlnAngleTilt"], cols["rlnAnglePsi"] = list(zyz[:, 0]), list(zyz[:, 1]), list(zyz[:, 2])
    cols[sname] = sn
    for i, c in enumerate(onames):
        cols[c] = list(origins[:, i])
    cols["rlnClassNumber"] = [int(c) for c in classes]
    if subsets is not None:
        cols["rlnRandomSubset"] = [int(s) for s in subsets]
    cols["rlnCtfImage"] = [f"ctf_{i}.mrc" for i in range(n)]  # a column cryoCAT does not interpret
    return cols, dict(coords=coords, origins=origins, zyz=zyz, tomo_ids=tomo_ids, sub_ids=sub_ids, classes=classes,
                      subsets=None if subsets is None else np.asarray(subsets))


def run_property(rng_seed=0, sizes=(1, 2, 3, 7, 40, 300), cls=None, label="library"):
    """The property over the whole quantifier; cls: class to use in place of RelionMotl (for the original-text twin)."""
    RM = RelionMotl if cls is None else cls
    rng = np.random.default_rng(rng_seed)
    tmp = tempfile.mkdtemp(prefix="c03demo_")
    try:
        case = 0
        for n in sizes:
            for version in (3.0, 3.1, 4.0):
                for fi, (tf, sf) in enumerate(FORMATS[version]):
                    case += 1
                    kind = ["canonical", "wild", "gimbal", "integer", "zero"][case % 5]
                    ps = [1.0, 2.5, 0.834, 13.48][case % 4]
                    src_in = make_motl_df(rng, n, kind, int_types=(case % 3 == 0), odd_index=(case % 2 == 0),
                                          nan_holes=(case % 4 == 1), both_halves=(case % 7 != 0))
                    src = src_in.reset_index(drop=True).fillna(0.0)
                    keep = src_in.copy()
                    tag = f"[{label}] n={n} v={version} fmt={fi} ang={kind} ps={ps}"
                    m = RM(src_in, version=version, pixel_size=ps, binning=1.0)
                    check(src_in.equals(keep), f"{tag}: the input motl is not modified")
                    rdf = m.create_relion_df(tomo_format=tf, subtomo_format=sf, version=version)
                    rdf2 = m.create_relion_df(tomo_format=tf, subtomo_format=sf, version=version)  # repeated call
                    check(rdf.equals(rdf2), f"{tag}: repeated export gives the same table")
                    check(m.df.equals(src), f"{tag}: export leaves df alone")
                    check_export_table(tag + " export", src, {c: rdf[c].tolist() for c in rdf.columns}, version, tf, sf)
                    if version < 4.0:
                        check(np.all(rdf["rlnPixelSize"].to_numpy() == ps), f"{tag}: pixel size written")
                    # in-memory round trip
                    back = RM(rdf, version=version, pixel_size=ps)
                    check_same_pose(tag + " memory", src, back.df, 1e-9)
                    check(np.all(back.df[["shift_x", "shift_y", "shift_z"]].to_numpy() == 0), f"{tag}: imported shifts of an export are zero")
                    # through a STAR file
                    optics = version >= 3.1 and case % 2 == 1
                    path = f"{tmp}/e{case}.star"
                    m.write_out(path, write_optics=optics, tomo_format=tf, subtomo_format=sf, version=version)
                    blocks = read_star(path)
                    _, _, _, spec = names_of(version)
                    check(spec in blocks, f"{tag}: block {spec} in the file")
                    check(("data_optics" in blocks) == optics, f"{tag}: optics block on/off")
                    if spec in blocks:
                        check_export_table(tag + " file", src, blocks[spec], version, tf, sf, tol=1e-6)
                    if optics and "data_optics" in blocks:
                        check(float(blocks["data_optics"]["rlnImagePixelSize"][0]) == ps, f"{tag}: pixel size in the optics block")
                    back_f = RM(path, pixel_size=ps if (version >= 4.0 and not optics) else None)
                    check(back_f.version == version, f"{tag}: version recognised from the file ({back_f.version})")
                    check(np.all(np.asarray(back_f.pixel_size, dtype=float) == ps), f"{tag}: pixel size recognised from the file")
                    check_same_pose(tag + " file", src, back_f.df, 2e-6)

        # RELION data from the independent writer
        for n in sizes:
            for version in (3.0, 3.1, 4.0):
                for sub in ("none", "random", "alternate", "alternate2", "ones", "blocks"):
                    case += 1
                    kind = ["canonical", "wild", "gimbal"][case % 3]
                    ps = [1.0, 2.5, 0.834, 13.48][case % 4]
                    rep = case % 5 == 0 and n > 2
                    num = case % 11 == 0
                    cols, truth = make_relion_input(rng, n, version, ps, kind, sub, repeated_ids=rep, numeric_names=num)
                    tag = f"[{label}] relion-in n={n} v={version} subsets={sub} ang={kind} ps={ps} rep={rep} num={num}"
                    rdf = pd.DataFrame(cols)
                    if case % 2 == 0:
                        rdf.index = np.arange(n)[::-1] * 2 + 10  # non-default row labels
                    keep = rdf.copy()
                    m = RM(rdf, version=version, pixel_size=ps, binning=1.0)
                    check(rdf.equals(keep), f"{tag}: the RELION table is not modified")
                    check_import(tag + " memory", m, version=version, pixel_size=ps, **truth)
                    # through a file written by the independent writer
                    _, _, _, spec = names_of(version)
                    path = f"{tmp}/r{case}.star"
                    scols = {k: [repr(float(x)) if isinstance(x, float) else str(x) for x in v] for k, v in cols.items()}
                    blocks = []
                    optics = version >= 3.1 and case % 2 == 1
                    if optics:
                        blocks.append(("data_optics", {"rlnOpticsGroup": ["1"], "rlnOpticsGroupName": ["opticsGroup1"],
                                                        "rlnImagePixelSize": [repr(ps)], "rlnImageSize": ["64"]}))
                    blocks.append((spec, scols))
                    write_star(path, blocks)
                    mf = RM(path, pixel_size=None if optics else ps, binning=1.0)
                    check(mf.version == version, f"{tag}: version from the file ({mf.version})")
                    check_import(tag + " file", mf, version=version, pixel_size=ps, **truth)
                    # export of the imported list: complete position, zero origins, same rotation as the RELION input
                    out = mf.create_relion_df(version=version, pixel_size=ps)
                    pos = truth["coords"] - truth["origins"] / (ps if version >= 3.1 else 1.0)
                    got = out[["rlnCoordinateX", "rlnCoordinateY", "rlnCoordinateZ"]].to_numpy(dtype=float)
                    check(max_dev(got, pos) <= 1e-8 * (1 + np.abs(pos).max()), f"{tag}: re-export puts the shift into the coordinate")
                    rm0 = relion_matrix(truth["zyz"][:, 0], truth["zyz"][:, 1], truth["zyz"][:, 2])
                    rm1 = relion_matrix(out["rlnAngleRot"].to_numpy(), out["rlnAngleTilt"].to_numpy(), out["rlnAnglePsi"].to_numpy())
                    check(max_dev(rm0, rm1) <= 1e-8, f"{tag}: re-export keeps the RELION rotation (dev {max_dev(rm0, rm1)})")
                    check(np.array_equal(out["rlnClassNumber"].to_numpy(dtype=float), truth["classes"].astype(float)), f"{tag}: re-export keeps the class")
                    hs = out["rlnRandomSubset"].to_numpy(dtype=float)
                    if truth["subsets"] is not None and len(set(truth["subsets"].tolist())) == 2:
                        check(np.array_equal(hs, truth["subsets"].astype(float)), f"{tag}: re-export keeps the half-sets")

        # the module-level converters (same statement, through their own call chains)
        for n in sizes[:5]:
            for version in (3.0, 3.1, 4.0):
                case += 1
                tf, sf = FORMATS[version][1 + case % 2]
                ps = [1.0, 2.5, 0.834, 13.48][case % 4]
                kind = ["canonical", "wild", "gimbal", "integer"][case % 4]
                src_in = make_motl_df(rng, n, kind, int_types=(case % 3 == 0), odd_index=(case % 2 == 0), both_halves=(case % 5 != 0))
                src = src_in.reset_index(drop=True)
                tag = f"[{label}] converters n={n} v={version} ang={kind} ps={ps}"
                optics = version >= 3.1 and case % 2 == 0
                _, _, _, spec = names_of(version)
                for fname, fn in (("emmotl2relion", cryomotl.emmotl2relion), ("stopgap2relion", cryomotl.stopgap2relion)):
                    path = f"{tmp}/c{case}_{fname}.star"
                    keep = src_in.copy()
                    rm_ = fn(src_in, output_motl_path=path, tomo_format=tf, subtomo_format=sf, relion_version=version,
                             pixel_size=ps, binning=1.0, write_optics=optics)
                    check(src_in.equals(keep), f"{tag} {fname}: input not modified")
                    blocks = read_star(path)
                    check(spec in blocks and (("data_optics" in blocks) == optics), f"{tag} {fname}: blocks of the file")
                    if spec in blocks:
                        check_export_table(f"{tag} {fname}", src, blocks[spec], version, tf, sf, tol=1e-6)
                    em = cryomotl.relion2emmotl(path, pixel_size=ps, binning=1.0)
                    check_same_pose(f"{tag} {fname}+relion2emmotl", src, em.df, 2e-6)
                    sg = cryomotl.relion2stopgap(path)
                    check_same_pose(f"{tag} {fname}+relion2stopgap", src, sg.df, 2e-6)
                cols, truth = make_relion_input(rng, n, version, ps, kind if kind != "integer" else "wild", ["none", "random", "blocks"][case % 3])
                em = cryomotl.relion2emmotl(pd.DataFrame(cols), relion_version=version, pixel_size=ps, binning=1.0)
                check_import(f"{tag} relion2emmotl(table)", em, version=version, pixel_size=ps, **truth)
    finally:
        shutil.rmtree(tmp, ignore_errors=True)


def frames_identical(a, b):
    """same labels, same dtypes, same values (NaN == NaN)"""
    try:
        pd.testing.assert_frame_equal(a, b, check_exact=True, check_dtype=True, check_index_type=True, check_column_type=True)
        return True
    except AssertionError as e:
        print("   ", str(e).replace("\n", " | ")[:400])
        return False


def finish():
    print(f"checks run: {NCHECKS[0]}, failed: {len(FAILS)}")
    if FAILS:
        print("FAIL")
        sys.exit(1)
    print("PASS")
    sys.exit(0)


import textwrap


def make_twin(orig_sources):
    """RelionMotl with the ORIGINAL text (copied from the unmodified tree) of the given methods"""
    ns = dict(vars(cryomotl))

    class Twin(RelionMotl):
        pass

    ns["RelionMotl"] = Twin  # the original text refers to its own class by name
    for name, src in orig_sources.items():
        exec(textwrap.dedent(src), ns)
        setattr(Twin, name, ns[name])
    Twin.__name__ = "OriginalRelionMotl"
    return Twin

# ----------------------------------------------------------------------------------------------------------------------
# Change b: API migration (.values -> .to_numpy(), reset_index(inplace=True) -> assignment, raw f-strings) in the
#           constructor, the import and the export of RelionMotl
# ----------------------------------------------------------------------------------------------------------------------
ORIG_check_df_type = r'''
    def check_df_type(self, input_motl):
        """Checks the type of the input dataframe and assigns it to the class attribute 'df' if it is in the
        correct format. If it is not in the correct format it tries to convert it.

        Parameters
        ----------
        input_motl : pandas.DataFrame
            The input dataframe to be checked.

        Returns
        -------
        None

        Notes
        -----
        This function is meant to be called by child classes as the possible conversion is not implemented within
        this class.

        """

        if Motl.check_df_correct_format(input_motl):
            self.df = input_motl.copy()
            self.df.reset_index(inplace=True, drop=True)
            self.df = self.df.fillna(0.0)
        else:
            self.convert_to_motl(input_motl)
'''

ORIG_get_angles = r'''
    def get_angles(self, tomo_number=None):
        """This function takes in a tomo_number and returns the angles of all particles in that
        tomogram. If no tomo_number is given, it will return the angles of all particles.

        Parameters
        ----------
        tomo_number : int, optional
            The tomogram number. If not provided, all angles will be returned. Defaults to None.

        Returns
        -------
        numpy.ndarray
            An array of angles in the format [phi, theta, psi] (corresponds to the zxz Euler convention).

        """

        if tomo_number is None:
            angles = self.df.loc[:, ["phi", "theta", "psi"]].values
        else:
            angles = self.df.loc[self.df.loc[:, "tomo_id"] == tomo_number, ["phi", "theta", "psi"]].values

        return np.atleast_2d(angles)
'''

ORIG_get_coordinates = r'''
    def get_coordinates(self, tomo_number=None):
        """This function takes in a tomo_number and returns the coordinates of all particles in that
        tomogram. If no tomo_number is given, it will return the coordinates of all particles. The coordinates are
        computes as x + shift_x, y + shift_y, z + shift_z.

        Parameters
        ----------
        tomo_number : int, optional
            The tomogram number. If not provided, all coordinates will be returned. Defaults to None.

        Returns
        -------
        numpy.ndarray
            3D array of coordinates in the format [x + shift_x, y + shift_y, z + shift_z].

        """
        if tomo_number is None:
            coord = self.df.loc[:, ["x", "y", "z"]].values + self.df.loc[:, ["shift_x", "shift_y", "shift_z"]].values
        else:
            coord = (
                self.df.loc[self.df.loc[:, "tomo_id"] == tomo_number, ["x", "y", "z"]].values
                + self.df.loc[
                    self.df.loc[:, "tomo_id"] == tomo_number,
                    ["shift_x", "shift_y", "shift_z"],
                ].values
            )

        return coord
'''

ORIG_set_pixel_size = r'''
    def set_pixel_size(self):
        """Sets the pixel size of the object (self.pixel_size). The function first checks if the pixel size has already
        been set, and if it has not, then it will try to get the pixel size from either the self.relion_df or
        self.optics_data dataframes. If neither of these are available, then it is set to 1.0.

        Notes
        -----
        Pixel size is important to correctly compute shifts for Relion version > 3.1 and also for correctly
        rescaling cooridantes for Relion version > 4.0.

        Parameters
        ----------
        None

        Returns
        -------
        None

        """

        # pixel size is already set, do not try to get it from the data
        if self.pixel_size is not None:
            return

        if "rlnPixelSize" in self.relion_df.columns:
            self.pixel_size = self.relion_df["rlnPixelSize"].values
        elif self.optics_data is not None:
            pixel_size_optics = []
            optic_groups = []
            if "rlnImagePixelSize" in self.optics_data.columns:
                pixel_size_optics.append(self.optics_data["rlnImagePixelSize"].values)
                optic_groups.append(self.optics_data["rlnOpticsGroup"].values)
            if len(self.optics_data) == 1:
                self.pixel_size = pixel_size_optics[0]
            else:
                self.pixel_size = np.zeros((self.relion_df.shape[0],))
                for ps, og in zip(pixel_size_optics, optic_groups):
                    self.pixel_size[self.relion_df["rlnOpticsGroup"] == og] = ps
        else:
            self.pixel_size = 1.0
            warnings.warn("Could not determine the pixel size from the data. The pixel size is set to 1.0.")
'''

ORIG_convert_shifts = r'''
    def convert_shifts(self, relion_df):
        """Converts shifts from Relion format to emmotl format and stores them in self.df.

        Parameters
        ----------
        relion_df : pandas.DataFrame
            DataFrame containing shifts in Relion format.

        Warnings
        --------
        Shifts in Relion 3.1 and higher are stored in Angstroms, not pixels/voxels. Correct pixel size is thus
        necessary for correct conversion. The pixel size should be set as the class attribute before calling this
        function.

        Notes
        -----
        Relion stores the shifts of the particle while in cryoCAT the shifts represent shifts of a reference.

        Returns
        -------
        None

        """

        for motl_column, rln_column in zip(("shift_x", "shift_y", "shift_z"), self.shifts_id_names):
            self.assign_column(relion_df, {motl_column: rln_column})

            # conversions of shifts - emmotl stores shifts for the reference, relion for the subtomo
            self.df[motl_column] = -self.df[motl_column].values

            if self.version >= 3.1:
                self.df[motl_column] = self.df[motl_column].values / self.pixel_size

            self.df[motl_column].fillna(0, inplace=True)
'''

ORIG_parse_subtomo_id = r'''
    def parse_subtomo_id(self, relion_df):
        """The function parses the subtomogram id from a Relion starfile. The function takes
        in a pandas.DataFrame in relion format and looks for the `rlnImageName` (for Relion 3.1 and lower) column
        or for the `rlnTomoParticleName` (for Relion 4.0 and higher) column and tries to parse the subtomogram id for each
        particle. It checks whether the subtomogram indices are unique and if not, it renumbers the `subtomo_id` to a
        sequence from 1 to length of the particle list and stores the original value in `geom3`.

        Parameters
        ----------
        relion_df : pandas.DataFrame
            The DataFrame in Relion format containing the subtomogram numbers.

        Notes
        -----
        The function modifies the `subtomo_id` column of `self.df` to store the subtomogram indices. In case they are
        not uniqe it also modifies `geom3` columns of `self.df`.

        TODO: Add custom format specifier.

        Warnings
        --------
        Due to lack of format in relion starfiles it is possible that this function will fail. Currently, following
        formats are expected:

        - Relion 3.1 and lower for "rlnImageName": second number in the last entry (/path/tomoID_subtomoID_pixelSize.mrc)
        - Relion 4.0 and higher for "rlnTomoParticleName": the only number in the last entry (TS_tomoID/subtomoID)
        - Relion 4.0 and higher for "rlnTomoParticleName": the only number in the last entry (TS_tomoID/subtomoID)

        Returns
        -------
        None

        """
        # parsing out subtomo number
        if self.subtomo_id_name in relion_df.columns:
            image_names = relion_df[self.subtomo_id_name].tolist()

            # Note: following will fail if the subtomos are named differently for each row - once with string, once with
            # number
            if all(isinstance(i, (int, float)) for i in image_names):
                subtomo_idx = image_names
            else:
                subtomo_names = [i.rsplit("/", 1)[-1] for i in image_names]
                subtomo_idx = []

                for j in subtomo_names:
                    if self.version >= 4.0:
                        subtomo_idx.append(float(j))
                    else:
                        subtomo_idx.append(float(re.findall(r"\d+", j)[1]))

        # Check if the subtomo_idx are unique and if not store them at geom3 and renumber particles
        self.df["geom3"] = subtomo_idx
        self.df["subtomo_id"] = subtomo_idx

        if len(np.unique(subtomo_idx)) != len(subtomo_idx):
            self.df["subtomo_id"] = np.arange(1, relion_df.shape[0] + 1, 1)

        # If there is information about half-sets renumber the subtomo_idx accordintly
        if "rlnRandomSubset" in relion_df.columns and relion_df["rlnRandomSubset"].nunique() == 2:
            halfset_num = relion_df["rlnRandomSubset"].values % 2
            c = 1 if halfset_num[0] == 1 else 2
            subtomo_id_num = [c]
            for i in range(1, self.df.shape[0]):
                if (c % 2 == 1 and halfset_num[i] == 1) or (c % 2 == 0 and halfset_num[i] == 0):
                    c += 2
                else:
                    c += 1
                # c = np.ceil(c / 2) * 2 + halfset_num[i]
                subtomo_id_num.append(c)

            self.df["subtomo_id"] = subtomo_id_num
'''

ORIG_convert_to_motl = r'''
    def convert_to_motl(self, relion_df, version=None, optics_df=None):
        """The function converts a DataFrame in relion format into a motl DataFrame.

        Parameters
        ----------
        relion_df : pandas.DataFrame
            DataFrame in relion format.
        version : float, optional
            Version of Relion DataFrame. Defaults to None.
        optics_df : pandas.DataFrame, optional
            DataFrame with optics data. Defaults to None

        Notes
        -----
        This method modifies the `df` attribute of the object.

        Returns
        -------
        None

        """

        if self.optics_data is None and isinstance(optics_df, pd.DataFrame):
            self.optics_data = optics_df

        self.relion_df = relion_df.copy()
        self.relion_df.reset_index(inplace=True, drop=True)

        self.set_version(relion_df, version)
        self.set_pixel_size()
        self.set_version_specific_names()

        # assign coordinates
        for coord in ("x", "y", "z"):
            relion_column = "rlnCoordinate" + coord.upper()
            self.assign_column(relion_df, {coord: relion_column})

        self.convert_shifts(relion_df)
        self.convert_angles_from_relion(relion_df)

        self.parse_tomo_id(relion_df)
        self.parse_subtomo_id(relion_df)

        self.assign_column(relion_df, {"class": "rlnClassNumber"})  # getting class number
        self.assign_column(
            relion_df, {"score": "rlnMaxValueProbDistribution"}
        )  # getting the max value contribution per distribution - not really same as CCC but has similar indications

        # store the idx of the original data - useful for writing out
        self.relion_df["ccSubtomoID"] = self.df["subtomo_id"].values
'''

ORIG_prepare_particles_data = r'''
    def prepare_particles_data(self, tomo_format="", subtomo_format="", version=None, pixel_size=None):
        """The function creates a DataFrame that contains the information on particles in Relion format. The function
        takes in the version of Relion to be used and formats describining how the tomogram/tilt-series and subtomogram
        names should be assembled.

        Parameters
        ----------
        tomo_format : str, default=""
            Format specifying the tomogram/tilt-series name by containing sequence of "x"
            introduced by "$" character. The longest sequence is evaluated as the position of the tomo_id and
            replaced with corresponding tomo_id. The number of x letters of the longest sequence determines number
            of digits to pad with zero. For example, for tomo_id 5 will following format "/path/to/tomo/$xxxx.rec"
            result in "/path/to/tomo/0005.rec". The sequence can be present multiple times, sequences of "x" shorter
            than the longest one will be kept intact: for tomo_id 5 will "/path/to/tomo/$xxxx/$xxxx_$xx.mrc
            result in "/path/to/tomo/0005/0005_$xx.mrc". Defaults to empty string, in which case the tomo_id will be
            used without any zero padding.
        subtomo_format : str, default=""
            Format specifying the subtomogram name by containing sequence of "y" introduced by "$" character.
            The longest sequence is evaluated as the position of the subtomo_id and replaced with corresponding
            subtomo_id. The number of "y" letters of the longest sequence determines number of digits to pad with zero.
            For example, for subtomo_id 65 with following format "/path/to/subtomograms/$yyy.mrc" will result
            in /path/to/subtomograms/065.mrc". The sequence can be present multiple times, sequences of "y" shorter
            than the longest one will be kept intact: for subtomo_id 65 will "/path/to/subtomograms/$yy_$yyy.mrc"
            result in "/path/to/subtomograms/$yy_065.mrc". The subtomo_format can also contain sequence of "x" letters
            introduced by "$" in which case these are replaced by tomo_id in the same way as for tomo_format.
            For example, for tomo_id 5 and subtomogram_id 65 the following "/path/to/subtomograms/$xxxx/$xxxx_$yyy.mrc"
            will result in "/path/to/subtomograms/0005/0005_065.mrc". Defaults to empty string, in which case the
            subtomo_id will be used without any zero padding.
        version : float, optional
            Relion version to be used for the DataFrame. Defaults to None, in which case `self.version` is used.
        pixel_size : float, optional
            The pixel size of the data. If not provided, the pixel size of the object instance (`self.pixel_size`) will
            be used. Defaults to None.

        Returns
        -------
        pandas.DataFrame
            A DataFrame with particle list in Relion format.

        Raises
        ------
        UserInputError
            In case the format does not contain valid sequence.

        Examples
        --------

        >>> rln_motl = cryomotl.RelionMotl()
        >>> rln_motl.fill({"tomo_id": [2], "subtomo_id":[65]})

        >>> rln_df = rln_motl.prepare_particles_data(tomo_format="/path/to/$xxxx.rec",
        ... subtomo_format="/path/to/$xxxx/$xxxx_$yy_2.6A.mrc", version=3.1)
        >>> print(rln_df["rlnMicrographName"].values[0])
        >>> print(rln_df["rlnImageName"].values[0])
        /path/to/0002.rec
        /path/to/0002/0002_65_2.6A.mrc

        >>> rln_df = rln_motl.prepare_particles_data(tomo_format="/path/to/$xxxx",
        ... subtomo_format="/path/to/$xxxx/$xxxx_$yy_2.6A", version=4.0)
        >>> print(rln_df["rlnTomoName"].values[0])
        >>> print(rln_df["rlnTomoParticleName"].values[0])
        /path/to/0002
        /path/to/0002/0002_65_2.6A

        >>> rln_df = rln_motl.prepare_particles_data(tomo_format="/path/to/$xx.rec",
        ... subtomo_format="/path/to/xxxx/xxxx_$yy_2.6A.mrc", version=3.1)
        >>> print(rln_df["rlnMicrographName"].values[0])
        >>> print(rln_df["rlnImageName"].values[0])
        /path/to/02.rec
        /path/to/xxxx/xxxx_65_2.6A.mrc

        >>> rln_df = rln_motl.prepare_particles_data(tomo_format="",
        ... subtomo_format="/path/to/$xxx/$yy_2.6A.mrc", version=3.1)
        >>> print(rln_df["rlnMicrographName"].values[0])
        >>> print(rln_df["rlnImageName"].values[0])
        2
        /path/to/002/65_2.6A.mrc

        >>> rln_df = rln_motl.prepare_particles_data(tomo_format="",
        ... subtomo_format="/path/to/$xxx/yy_2.6A.mrc", version=3.1)
        >>> print(rln_df["rlnMicrographName"].values[0])
        >>> print(rln_df["rlnImageName"].values[0])
        ValueError: The format /path/to/$xxx/yy_2.6A.mrc does not contain any sequence of \$ followed by y.
        """

        def find_longest_sequence(test_string, test_letter, raise_error=True):
            pattern = f"\$(?:{test_letter})+"
            findings = sorted(re.findall(pattern, test_string), key=len)
            if not findings:
                if raise_error:
                    raise ValueError(
                        f"The format {test_string} does not contain any sequence of \$ followed by {test_letter}."
                    )
                else:
                    return None, 0
            else:
                longest_sequence = findings[-1]
                return longest_sequence, len(longest_sequence) - 1

        if version is None:
            version = self.version

        if pixel_size is None:
            pixel_size = self.pixel_size

        tomo_name, subtomo_name, shifts_name, _ = RelionMotl.get_version_specific_names(version)
        relion_df = self.create_particles_data(version)

        if tomo_format == "":
            relion_df[tomo_name] = self.df["tomo_id"].values.astype(int)
        else:
            tomo_sequence, tomo_digits = find_longest_sequence(tomo_format, "x")
            # add temporarily tomo_id
            relion_df["tomo_id"] = self.df["tomo_id"].values

            relion_df[tomo_name] = tomo_format
            relion_df[tomo_name] = relion_df.apply(
                lambda row: row[tomo_name].replace(tomo_sequence, str(int(row["tomo_id"])).zfill(tomo_digits)), axis=1
            )

            # drop the column
            relion_df = relion_df.drop(["tomo_id"], axis=1)

        if subtomo_format == "":
            relion_df[subtomo_name] = self.df["subtomo_id"].values.astype(int)
        else:
            subtomo_sequence, subtomo_digits = find_longest_sequence(subtomo_format, "y")
            subtomo_t_sequence, subtomo_t_digits = find_longest_sequence(subtomo_format, "x", raise_error=False)

            # add temporarily tomo_id and subtomo_id
            relion_df["tomo_id"] = self.df["tomo_id"].values
            relion_df["subtomo_id"] = self.df["subtomo_id"].values

            relion_df[subtomo_name] = subtomo_format
            relion_df[subtomo_name] = relion_df.apply(
                lambda row: row[subtomo_name].replace(
                    subtomo_sequence, str(int(row["subtomo_id"])).zfill(subtomo_digits)
                ),
                axis=1,
            )

            if subtomo_t_sequence is not None:
                relion_df[subtomo_name] = relion_df.apply(
                    lambda row: row[subtomo_name].replace(
                        subtomo_t_sequence, str(int(row["tomo_id"])).zfill(subtomo_t_digits)
                    ),
                    axis=1,
                )

            # drop the columns
            relion_df = relion_df.drop(["tomo_id", "subtomo_id"], axis=1)

        relion_df.loc[:, shifts_name] = np.zeros((relion_df.shape[0], 3))

        if version < 4.0:
            relion_df["rlnPixelSize"] = pixel_size

        return relion_df
'''

Orig = make_twin({"check_df_type": ORIG_check_df_type, "get_angles": ORIG_get_angles, "get_coordinates": ORIG_get_coordinates, "set_pixel_size": ORIG_set_pixel_size, "convert_shifts": ORIG_convert_shifts, "parse_subtomo_id": ORIG_parse_subtomo_id, "convert_to_motl": ORIG_convert_to_motl, "prepare_particles_data": ORIG_prepare_particles_data})


def arrays_identical(a, b):
    a, b = np.asarray(a), np.asarray(b)
    return type(a) is type(b) and a.dtype == b.dtype and a.shape == b.shape and np.array_equal(a, b, equal_nan=(a.dtype.kind == "f"))


# 1. the property itself, with the library as it is now and with the original text
run_property(rng_seed=2, label="library")
run_property(rng_seed=2, sizes=(1, 3, 40), cls=Orig, label="original text")

# 2. patched == original, exactly (labels, dtypes, values), on the same inputs
rng = np.random.default_rng(11)
tmp = tempfile.mkdtemp(prefix="c03b_")
try:
    for trial in range(150):
        n = int(rng.choice([1, 2, 3, 8, 50, 300]))
        version = (3.0, 3.1, 4.0)[trial % 3]
        tf, sf = FORMATS[version][trial % 3]
        ps = [1.0, 2.5, 0.834, 13.48][trial % 4]
        kind = ["canonical", "wild", "gimbal", "integer", "zero"][trial % 5]
        src = make_motl_df(rng, n, kind, int_types=(trial % 3 == 1), odd_index=(trial % 2 == 1), nan_holes=(trial % 4 == 2),
                           both_halves=(trial % 6 != 0))
        keep = src.copy()
        tag = f"export trial {trial} n={n} v={version}"
        res = []
        for cls in (RelionMotl, Orig):
            m = cls(src, version=version, pixel_size=ps, binning=1.0)
            t1 = m.create_relion_df(tomo_format=tf, subtomo_format=sf, version=version)
            path = f"{tmp}/{cls.__name__}_{trial}.star"
            m.write_out(path, write_optics=(version >= 3.1 and trial % 2 == 0), tomo_format=tf, subtomo_format=sf, version=version)
            res.append((m, t1, open(path).read()))
        (mn, tn, fn), (mo, to, fo) = res
        check(src.equals(keep) and list(src.index) == list(keep.index), f"{tag}: input motl untouched")
        check(frames_identical(mn.df, mo.df), f"{tag}: df after construction")
        check(frames_identical(tn, to), f"{tag}: create_relion_df table")
        check(fn == fo, f"{tag}: text of the written STAR file")
        check(arrays_identical(mn.get_angles(), mo.get_angles()), f"{tag}: get_angles")
        check(arrays_identical(mn.get_coordinates(), mo.get_coordinates()), f"{tag}: get_coordinates")
        t = float(src["tomo_id"].iloc[0])
        check(arrays_identical(mn.get_angles(t), mo.get_angles(t)) and arrays_identical(mn.get_coordinates(t), mo.get_coordinates(t)),
              f"{tag}: get_angles / get_coordinates of one tomogram")
        # the object owns its table: writing into it does not reach the caller's frame, and the other way round
        mn.df.loc[0, "x"] = -12345.0
        check(src.equals(keep), f"{tag}: writing into df does not reach the input frame")
        before = mn.df.copy()
        src.iloc[0, src.columns.get_loc("y")] = 777
        check(mn.df.equals(before), f"{tag}: writing into the input frame does not reach df")

    for trial in range(150):
        n = int(rng.choice([1, 2, 3, 8, 50, 300]))
        version = (3.0, 3.1, 4.0)[trial % 3]
        ps = [1.0, 2.5, 0.834, 13.48][trial % 4]
        sub = ["none", "random", "alternate", "alternate2", "ones", "blocks"][trial % 6]
        cols, truth = make_relion_input(rng, n, version, ps, ["canonical", "gimbal", "wild"][trial % 3], sub,
                                        repeated_ids=(trial % 5 == 0 and n > 2), numeric_names=(trial % 7 == 0))
        rdf = pd.DataFrame(cols)
        if trial % 4 == 0:
            rdf["rlnPixelSize"] = ps  # pixel size taken from the table
        if trial % 2:
            rdf.index = rng.permutation(n) * 2 + 5
        keep = rdf.copy()
        tag = f"import trial {trial} n={n} v={version} subsets={sub}"
        res = []
        for cls in (RelionMotl, Orig):
            with_ps = None if "rlnPixelSize" in rdf.columns else ps
            m = cls(rdf, version=version, pixel_size=with_ps, binning=1.0)
            res.append(m)
        mn, mo = res
        check(rdf.equals(keep) and list(rdf.columns) == list(keep.columns) and list(rdf.index) == list(keep.index), f"{tag}: RELION table untouched")
        check(frames_identical(mn.df, mo.df), f"{tag}: df")
        check(frames_identical(mn.relion_df, mo.relion_df), f"{tag}: relion_df kept by the object")
        check(list(mn.relion_df.index) == list(range(n)), f"{tag}: relion_df of the object has default row labels")
        check(arrays_identical(mn.pixel_size, mo.pixel_size), f"{tag}: pixel_size")
        check(np.all(np.asarray(mn.pixel_size) == ps), f"{tag}: pixel size value")
        check(frames_identical(mn.create_relion_df(version=version, pixel_size=ps), mo.create_relion_df(version=version, pixel_size=ps)), f"{tag}: re-export")
        mn.relion_df.loc[0, "rlnCoordinateX"] = -1.0
        check(rdf.equals(keep), f"{tag}: writing into relion_df does not reach the caller's table")
finally:
    shutil.rmtree(tmp, ignore_errors=True)

# 3. the format errors read the same
for cls in (RelionMotl, Orig):
    m = cls(make_motl_df(rng, 3, "canonical"), version=3.1, pixel_size=1.0, binning=1.0)
    msgs = []
    for tf, sf in (("/p/xxx.rec", ""), ("", "/p/$xxx/yy.mrc"), ("/p/$y.rec", "")):
        try:
            m.create_relion_df(tomo_format=tf, subtomo_format=sf)
            msgs.append("no error")
        except ValueError as e:
            msgs.append(str(e))
    if cls is RelionMotl:
        first = msgs
    else:
        check(first == msgs, f"error messages differ: {first} / {msgs}")
        check(all("\\$ followed by" in s for s in msgs), f"error text: {msgs}")

finish()
