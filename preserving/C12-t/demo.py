import sys, os
sys.path.insert(0, os.getcwd())
import io, contextlib, itertools, tempfile
import numpy as np
from numpy import fft
from scipy import ndimage

from cryocat import cryomap, cryomask

# bandpass writes "band.em" into the current directory -- keep the worktree clean
os.chdir(tempfile.mkdtemp(prefix="c12demo_"))

ORIG_TEXT = r'''
def bandpass(
    input_map,
    lp_fourier_pixels=None,
    lp_target_resolution=None,
    hp_fourier_pixels=None,
    hp_target_resolution=None,
    pixel_size=None,
    lp_gaussian=3,
    hp_gaussian=2,
    output_name=None,
):
    """Apply a bandpass filter to an input map using specified low-pass and high-pass filter parameters.

    Parameters
    ----------
    input_map : str or array_like
        The input map to be filtered, either as a filename or as an array.
    lp_fourier_pixels : int, optional
        Number of pixels/voxels in Fourier space for the low-pass filter. Default is None.
    lp_target_resolution : float, optional
        Target resolution in Angstroms for the low-pass filter. Default is None.
    hp_fourier_pixels : int, optional
        Number of pixels/voxels in Fourier space for the high-pass filter. Default is None.
    hp_target_resolution : float, optional
        Target resolution in Angstroms for the high-pass filter. Default is None.
    pixel_size : float, optional
        Pixel/voxel size in Angstroms. Default is None.
    lp_gaussian : int, default=3
        Width of the Gaussian falloff for the low-pass filter. Default is 3.
    hp_gaussian : int, default=2
        Width of the Gaussian falloff for the high-pass filter. Default is 2.
    output_name : str, optional
        Filename to save the filtered output. If not provided, the filtered map is not saved. Default is None.

    Returns
    -------
    bandpass_filtered : ndarray
        The bandpass-filtered map.

    Notes
    -----
    The function reads an input map, applies a bandpass filter by creating a mask in Fourier space that combines
    a low-pass and a high-pass filter, and then applies this mask to the Fourier transform of the input map.
    The result is transformed back to real space. If an output filename is provided, the result is saved.
    """

    input_map = read(input_map)
    lp_radius = get_filter_radius(
        input_map.shape[0],
        fourier_pixels=lp_fourier_pixels,
        target_resolution=lp_target_resolution,
        pixel_size=pixel_size,
    )

    hp_radius = get_filter_radius(
        input_map.shape[0],
        fourier_pixels=hp_fourier_pixels,
        target_resolution=hp_target_resolution,
        pixel_size=pixel_size,
    )
    outer_mask = cryomask.spherical_mask(input_map.shape, lp_radius, gaussian=lp_gaussian, gaussian_outwards=False)
    inner_mask = cryomask.spherical_mask(input_map.shape, hp_radius, gaussian=hp_gaussian, gaussian_outwards=False)
    band_mask = fft.ifftshift(outer_mask - inner_mask)
    write(outer_mask - inner_mask, "band.em", data_type=np.single)
    bandpass_filtered = np.real(fft.ifftn(fft.fftn(input_map) * band_mask))

    # lowpass_filtered = lowpass(
    #     input_map=input_map,
    #     fourier_pixels=lp_fourier_pixels,
    #     target_resolution=lp_target_resolution,
    #     pixel_size=pixel_size,
    #     gaussian=lp_gaussian,
    # )

    # bandpass_filtered = highpass(
    #     input_map=lowpass_filtered,
    #     fourier_pixels=hp_fourier_pixels,
    #     target_resolution=hp_target_resolution,
    #     pixel_size=pixel_size,
    #     gaussian=hp_gaussian,
    # )

    if output_name is not None:
        write(bandpass_filtered, output_name, data_type=np.single)

    return bandpass_filtered


def lowpass(input_map, fourier_pixels=None, target_resolution=None, pixel_size=None, gaussian=3, output_name=None):
    """Apply a lowpass filter to a given input map using Fourier transform methods.

    Parameters
    ----------
    input_map : str or array_like
        The input map to be filtered, either as a file path or as an array.
    fourier_pixels : int, optional
        Number of pixels/voxels in the Fourier space representation. Default is None.
    target_resolution : float, optional
        The target resolution in Angstroms for the filtering process. Default is None.
    pixel_size : float, optional
        The size of each pixel/voxel in the input map in Angstroms.
    gaussian : int, default=3
        Width of the Gaussian falloff for the low-pass filter. Default is 3.
    output_name : str, optional
        The file name to save the filtered map. If not provided, the map is not saved. Default is None.

    Returns
    -------
    filtered_map : ndarray
        The filtered map as a numpy array.

    Examples
    --------
    >>> # For input map with box size 100 and pixel size 7.89
    >>> filtered = lowpass('input_map.mrc', target_resolution=20, pixel_size=7.89)
    The target resolution corresponds to 39 pixels.

    >>> # For input map with box size 100 and pixel size 7.89
    >>> filtered = lowpass('input_map.mrc', fourier_pixels=39, pixel_size=7.89)
    The target resolution is 20.23 Angstroms.
    """

    input_map = read(input_map)
    radius = get_filter_radius(
        input_map.shape[0], fourier_pixels=fourier_pixels, target_resolution=target_resolution, pixel_size=pixel_size
    )

    lowpass_filter = fft.ifftshift(
        cryomask.spherical_mask(input_map.shape, radius, gaussian=gaussian, gaussian_outwards=False)
    )
    # Apply filter
    filtered_map = np.real(fft.ifftn(fft.fftn(input_map) * lowpass_filter))

    if output_name is not None:
        write(filtered_map, output_name, data_type=np.single)

    return filtered_map


def highpass(input_map, fourier_pixels=None, target_resolution=None, pixel_size=None, gaussian=2, output_name=None):
    """Apply a highpass filter to a given input map using Fourier transform methods.

    Parameters
    ----------
    input_map : str or array_like
        The input map filename or its numpy array.
    fourier_pixels : int, optional
        Number of pixels/voxels to use in the Fourier space. Default is None.
    target_resolution : float, optional
        The target resolution in Angstroms for the highpass filter. Default is None.
    pixel_size : float, optional
        The size of each pixel/voxel in the input map in Angstroms. Default is None.
    gaussian : int, default=2
        The width of the Gaussian fall-off in pixels/voxels. Default is 2.
    output_name : str, optional
        The filename to save the filtered output. If None, the filtered map is not saved. Default is None.

    Returns
    -------
    filtered_map : ndarray
        The highpass filtered map as a numpy array.

    Notes
    -----
    The function reads an input map, calculates the necessary filter radius based on the provided parameters,
    applies a spherical highpass filter in Fourier space, and optionally saves the result to a file.
    """

    input_map = read(input_map)
    radius = get_filter_radius(
        input_map.shape[0], fourier_pixels=fourier_pixels, target_resolution=target_resolution, pixel_size=pixel_size
    )

    highpass_filter = fft.ifftshift(
        np.ones(input_map.shape)
        - cryomask.spherical_mask(input_map.shape, radius, gaussian=gaussian, gaussian_outwards=False)
    )

    # Apply filter
    filtered_map = np.real(fft.ifftn(fft.fftn(input_map) * highpass_filter))

    if output_name is not None:
        write(filtered_map, output_name, data_type=np.single)

    return filtered_map

'''

# the original functions, compiled next to the (possibly patched) helpers of the module
_ns = dict(cryomap.__dict__)
exec(compile(ORIG_TEXT, "<orig cryomap filters>", "exec"), _ns)
orig = {k: _ns[k] for k in ("lowpass", "highpass", "bandpass")}
new = {k: getattr(cryomap, k) for k in ("lowpass", "highpass", "bandpass")}

rng = np.random.default_rng(20260928)
fails = []
nchecks = [0]


def check(cond, msg):
    nchecks[0] += 1
    if not cond:
        fails.append(msg)
        if len(fails) < 20:
            print("FAIL:", msg)


def quiet(f, *a, **k):
    buf = io.StringIO()
    with contextlib.redirect_stdout(buf):
        r = f(*a, **k)
    return r, buf.getvalue()


def q(f, *a, **k):
    return quiet(f, *a, **k)[0]


# ---------------------------------------------------------------- independent model of the documented gain
def freq_radius(shape):
    ks = [np.where(np.arange(n) < (n + 1) // 2, np.arange(n), np.arange(n) - n).astype(float) for n in shape]
    for k, n in zip(ks, shape):  # signed integer frequencies per axis, in the order of the DFT
        assert np.array_equal(k, np.rint(np.fft.fftfreq(n) * n))
    kx, ky, kz = np.meshgrid(*ks, indexing="ij")
    return np.sqrt(kx**2 + ky**2 + kz**2)


def model_gain(shape, cutoff, sigma):
    r = freq_radius(shape)
    g = (r <= cutoff).astype(float)
    if sigma != 0:
        g = fft.ifftshift(ndimage.gaussian_filter(fft.fftshift(g), sigma=sigma, mode="nearest", truncate=4.0))
        # the filters return the real part, i.e. on real maps the gain acts through its part that is even in k
        # (the blurred sphere is cut off one pixel earlier on the +N/2 side of an even box than on the -N/2 side)
        g_minus = g
        for ax in range(3):
            g_minus = np.roll(np.flip(g_minus, axis=ax), 1, axis=ax)  # k -> -k modulo the box
        g = 0.5 * (g + g_minus)
    return g, r


def close(a, b, tol=1e-9):
    scale = max(1.0, float(np.max(np.abs(b))))
    return a.shape == b.shape and float(np.max(np.abs(a - b))) <= tol * scale


def same(a, b):
    return (
        isinstance(a, np.ndarray)
        and isinstance(b, np.ndarray)
        and a.dtype == b.dtype
        and a.shape == b.shape
        and a.strides == b.strides
        and np.array_equal(a, b, equal_nan=True)
    )


# ---------------------------------------------------------------- 1. the property against the model
shapes = [(8, 8, 8), (9, 9, 9), (12, 12, 12), (16, 16, 16), (21, 21, 21), (32, 32, 32), (48, 48, 48),
          (8, 10, 12), (12, 8, 9), (16, 24, 10), (11, 14, 13), (20, 48, 8), (48, 8, 30), (15, 9, 31)]
sigmas = [0, 0.0, 0.5, 1, 1.5, 2, 3, 4]


def property_checks(shape, cutoff, sigma, tag):
    G, r = model_gain(shape, cutoff, sigma)
    x = rng.normal(size=shape)
    y = rng.normal(size=shape) * 3 + 1
    x0, y0 = x.copy(), y.copy()
    X = fft.fftn(x)

    low = q(cryomap.lowpass, x, fourier_pixels=cutoff, gaussian=sigma)
    high = q(cryomap.highpass, x, fourier_pixels=cutoff, gaussian=sigma)
    check(low.shape == shape and high.shape == shape, f"{tag}: shape")
    check(np.isrealobj(low) and np.isrealobj(high), f"{tag}: real valued")
    check(close(fft.fftn(low), G * X), f"{tag}: lowpass is not gain*DFT")
    check(close(fft.fftn(high), (1 - G) * X), f"{tag}: highpass is not (1-gain)*DFT")
    check(close(low + high, x), f"{tag}: low + high != input")

    # extracted gain (response to a unit impulse) against the documented bounds
    d = np.zeros(shape)
    d[0, 0, 0] = 1.0
    Gx = fft.fftn(q(cryomap.lowpass, d, fourier_pixels=cutoff, gaussian=sigma))
    check(float(np.max(np.abs(Gx.imag))) < 1e-12, f"{tag}: gain not real")
    Gx = Gx.real
    check(close(Gx, G, 1e-10), f"{tag}: extracted gain != model")
    if sigma == 0:
        check(np.array_equal(np.round(Gx, 12), (r <= cutoff).astype(float)), f"{tag}: hard gain not exactly 0/1 at cutoff")
    else:
        eps = 1e-5
        check(Gx.min() >= -eps and Gx.max() <= 1 + eps, f"{tag}: gain outside [0,1]")
        inside = r < cutoff - 4 * sigma - 1
        outside = r > cutoff + 4 * sigma + 1
        check(np.all(np.abs(Gx[inside] - 1) <= eps), f"{tag}: gain not 1 inside")
        check(np.all(np.abs(Gx[outside]) <= eps), f"{tag}: gain not 0 outside")
        # non-increasing over the integer radius (shell means)
        shell = np.rint(r).astype(int).ravel()
        cnt = np.bincount(shell)
        mean = np.bincount(shell, weights=Gx.ravel())[cnt > 0] / cnt[cnt > 0]
        check(np.all(np.diff(mean) <= 1e-6), f"{tag}: shell gain increases")

    # linearity, shift
    a, b = rng.normal(), rng.normal()
    check(close(q(cryomap.lowpass, a * x + b * y, fourier_pixels=cutoff, gaussian=sigma),
                a * low + b * q(cryomap.lowpass, y, fourier_pixels=cutoff, gaussian=sigma)), f"{tag}: lowpass not linear")
    check(close(q(cryomap.highpass, a * x + b * y, fourier_pixels=cutoff, gaussian=sigma),
                a * high + b * q(cryomap.highpass, y, fourier_pixels=cutoff, gaussian=sigma)), f"{tag}: highpass not linear")
    sh = tuple(int(rng.integers(0, n)) for n in shape)
    check(close(q(cryomap.lowpass, np.roll(x, sh, (0, 1, 2)), fourier_pixels=cutoff, gaussian=sigma),
                np.roll(low, sh, (0, 1, 2))), f"{tag}: lowpass does not commute with shifts")
    check(close(q(cryomap.highpass, np.roll(x, sh, (0, 1, 2)), fourier_pixels=cutoff, gaussian=sigma),
                np.roll(high, sh, (0, 1, 2))), f"{tag}: highpass does not commute with shifts")

    # band-pass = difference of its two low-passes
    c2 = int(rng.integers(1, max(2, min(shape) // 2 + 1)))
    s2 = sigmas[int(rng.integers(len(sigmas)))]
    band = q(cryomap.bandpass, x, lp_fourier_pixels=cutoff, hp_fourier_pixels=c2, lp_gaussian=sigma, hp_gaussian=s2)
    low2 = q(cryomap.lowpass, x, fourier_pixels=c2, gaussian=s2)
    check(close(band, low - low2), f"{tag}: bandpass != lowpass - lowpass ({c2},{s2})")
    G2, _ = model_gain(shape, c2, s2)
    check(close(fft.fftn(band), (G - G2) * X), f"{tag}: bandpass is not (G1-G2)*DFT")

    # plane waves
    for _ in range(3):
        k = tuple(int(rng.integers(0, n)) for n in shape)
        yield_wave(shape, k, cutoff, sigma, G, tag)

    check(np.array_equal(x, x0) and np.array_equal(y, y0), f"{tag}: caller's maps modified")


def wave(shape, k, phase):
    ix = np.indices(shape)
    arg = sum(2 * np.pi * k[i] * ix[i] / shape[i] for i in range(3))
    return np.cos(arg + phase)


def yield_wave(shape, k, cutoff, sigma, G, tag):
    w = wave(shape, k, rng.uniform(0, 2 * np.pi))
    check(close(q(cryomap.lowpass, w, fourier_pixels=cutoff, gaussian=sigma), G[k] * w, 1e-9), f"{tag}: wave {k} lowpass")
    check(close(q(cryomap.highpass, w, fourier_pixels=cutoff, gaussian=sigma), (1 - G[k]) * w, 1e-9), f"{tag}: wave {k} highpass")


for shape in shapes:
    cmax = max(shape[0], min(shape)) // 2
    cutoffs = sorted(set([1, 2, min(shape) // 2, cmax] + [int(c) for c in rng.integers(1, cmax + 1, size=2)]))
    for cutoff in cutoffs:
        for sigma in (sigmas if max(shape) <= 16 else [0, sigmas[int(rng.integers(1, len(sigmas)))]]):
            property_checks(shape, cutoff, sigma, f"{shape} c={cutoff} s={sigma}")

# every integer frequency on small boxes
for shape in [(8, 8, 8), (8, 10, 9)]:
    for cutoff, sigma in [(1, 0), (3, 0), (4, 0), (2, 1), (4, 2)]:
        G, _ = model_gain(shape, cutoff, sigma)
        for k in itertools.product(*[range(n) for n in shape]):
            yield_wave(shape, k, cutoff, sigma, G, f"all-waves {shape} c={cutoff} s={sigma}")

# resolution -> Fourier pixels
for _ in range(150):
    n = int(rng.integers(8, 49))
    px = float(rng.uniform(0.5, 12.0))
    res = float(rng.uniform(2 * px, n * px))
    want = round(n * px / res)
    check(q(cryomap.resolution2pixels, res, n, px) == want, f"resolution2pixels({res},{n},{px})")
    check(q(cryomap.get_filter_radius, n, None, res, px) == want, "get_filter_radius by resolution")
    check(q(cryomap.get_filter_radius, n, 5, res, px) == 5 and q(cryomap.get_filter_radius, n, 5, None, None) == 5,
          "get_filter_radius by pixels")
    check(abs(q(cryomap.pixels2resolution, want or 1, n, px) - n * px / (want or 1)) < 1e-12, "pixels2resolution")
for shape in [(16, 16, 16), (24, 10, 12), (9, 20, 11)]:
    for _ in range(6):
        px = float(rng.uniform(0.5, 8.0))
        res = float(rng.uniform(2 * px, shape[0] * px))
        want = round(shape[0] * px / res)
        s = [0, 1, 2.5][int(rng.integers(3))]
        x = rng.normal(size=shape)
        for name in ("lowpass", "highpass"):
            check(np.array_equal(q(new[name], x, target_resolution=res, pixel_size=px, gaussian=s),
                                 q(new[name], x, fourier_pixels=want, gaussian=s)), f"{name} by resolution {shape}")
        check(np.array_equal(
            q(cryomap.bandpass, x, lp_target_resolution=res, hp_target_resolution=res * 2, pixel_size=px),
            q(cryomap.bandpass, x, lp_fourier_pixels=want, hp_fourier_pixels=round(shape[0] * px / (res * 2)))),
            f"bandpass by resolution {shape}")
try:
    q(cryomap.lowpass, np.zeros((8, 8, 8)))
    check(False, "no error without a cutoff")
except ValueError:
    check(True, "")

# ---------------------------------------------------------------- 2. module functions against the original text
def variants(shape):
    base = rng.normal(size=shape)
    yield "f64", base
    yield "f32", base.astype(np.float32)
    yield "int", (base * 10).astype(np.int64)
    yield "i16", (base * 10).astype(np.int16)
    yield "F", np.asfortranarray(base)
    yield "T", rng.normal(size=shape[::-1]).transpose(2, 1, 0)
    yield "view", rng.normal(size=tuple(2 * n for n in shape))[::2, 1::2, ::2]
    yield "const", np.full(shape, 2.5)
    yield "zeros", np.zeros(shape)
    yield "bool", base > 0
    nanmap = base.copy()
    nanmap[0, 0, 0] = np.nan
    yield "nan", nanmap
    infmap = base.copy()
    infmap[1, 2, 3] = np.inf
    yield "inf", infmap


def compare(name, args, kwargs, tag):
    snap = [a.copy() if isinstance(a, np.ndarray) else a for a in args]
    with np.errstate(all="ignore"):
        r_new, p_new = quiet(new[name], *args, **kwargs)
        r_old, p_old = quiet(orig[name], *args, **kwargs)
        r_new2, _ = quiet(new[name], *args, **kwargs)  # repeated call on the same objects
    check(same(r_new, r_old), f"{tag}: {name} differs from the original")
    check(same(r_new2, r_old), f"{tag}: {name} differs on the second call")
    check(r_new is not r_new2 and not np.shares_memory(r_new, r_new2), f"{tag}: results share memory")
    check(p_new == p_old, f"{tag}: printed text differs")
    for a, s in zip(args, snap):
        if isinstance(a, np.ndarray):
            check(a.dtype == s.dtype and a.strides is not None and np.array_equal(a, s, equal_nan=True),
                  f"{tag}: input modified")
    # the result belongs to the caller: scribbling on it must not reach later calls
    r_new[...] = -7.0
    r_new3, _ = quiet(new[name], *args, **kwargs)
    check(same(r_new3, r_old), f"{tag}: {name} differs after the caller wrote into an earlier result")


for shape in [(8, 8, 8), (12, 12, 12), (8, 10, 12), (13, 9, 16), (24, 24, 24), (10, 48, 9), (48, 48, 48)]:
    for vname, m in variants(shape):
        if max(shape) > 24 and vname not in ("f64", "f32", "F", "T", "view", "int"):
            continue
        cmax = max(shape[0], min(shape)) // 2
        for _ in range(3):
            c = int(rng.integers(1, cmax + 1))
            c2 = int(rng.integers(1, cmax + 1))
            s = sigmas[int(rng.integers(len(sigmas)))]
            s2 = sigmas[int(rng.integers(len(sigmas)))]
            tag = f"{shape} {vname} c={c},{c2} s={s},{s2}"
            compare("lowpass", (m,), dict(fourier_pixels=c, gaussian=s), tag)
            compare("highpass", (m,), dict(fourier_pixels=c, gaussian=s), tag)
            compare("bandpass", (m,), dict(lp_fourier_pixels=c, hp_fourier_pixels=c2, lp_gaussian=s, hp_gaussian=s2), tag)
        px = 2.5
        compare("lowpass", (m,), dict(target_resolution=4 * px, pixel_size=px), f"{shape} {vname} res")
        compare("highpass", (m,), dict(target_resolution=4 * px, pixel_size=px), f"{shape} {vname} res")
        compare("lowpass", (m,), dict(fourier_pixels=np.int64(3), pixel_size=px, gaussian=np.float64(1.0)), f"{shape} {vname} npscalars")
        compare("highpass", (m,), dict(fourier_pixels=3.0, gaussian=1), f"{shape} {vname} float cutoff")
        compare("lowpass", (m,), dict(fourier_pixels=3, gaussian=True), f"{shape} {vname} bool sigma")
        compare("bandpass", (m,), dict(lp_target_resolution=3 * px, hp_target_resolution=8 * px, pixel_size=px), f"{shape} {vname} res")
        compare("bandpass", (m,), dict(lp_fourier_pixels=2, hp_fourier_pixels=5), f"{shape} {vname} inverted band")

# interleaved call sequences with recurring and new parameters
x = rng.normal(size=(16, 12, 10))
seq = [(int(rng.integers(1, 9)), sigmas[int(rng.integers(len(sigmas)))]) for _ in range(12)]
seq = seq + seq[::-1] + seq[:4] * 3
for i, (c, s) in enumerate(seq):
    nm = ("lowpass", "highpass")[i % 2]
    compare(nm, (x,), dict(fourier_pixels=c, gaussian=s), f"sequence {i} c={c} s={s}")
    compare("bandpass", (x,), dict(lp_fourier_pixels=c, hp_fourier_pixels=seq[i - 1][0], lp_gaussian=s, hp_gaussian=seq[i - 1][1]), f"sequence {i} band")

# cutoffs / widths given as containers or numpy objects (hashable or not), and a box beyond subtomogram size
x = rng.normal(size=(10, 12, 9))
for c, s in [(np.array([3]), 1), (np.array(3), 0), ([2], 1.0), (np.array([2.0]), np.array([1.0])), (np.float32(2.5), np.float32(0.5)),
             (3, np.array(1.5)), (2, -0.0), (0, 0), (-1, 0), (-0.0, 1), (2.5, 2), (True, 1), (1, True), (float("nan"), 0), (1e9, 0)]:
    for _ in range(2):
        try:
            compare("lowpass", (x,), dict(fourier_pixels=c, gaussian=s), f"odd parameters c={c!r} s={s!r}")
            compare("highpass", (x,), dict(fourier_pixels=c, gaussian=s), f"odd parameters c={c!r} s={s!r}")
            compare("bandpass", (x,), dict(lp_fourier_pixels=c, hp_fourier_pixels=1, lp_gaussian=s, hp_gaussian=s), f"odd parameters c={c!r} s={s!r}")
        except Exception as e:  # has to fail in the same way in the original
            for name, kw in (("lowpass", dict(fourier_pixels=c, gaussian=s)), ("highpass", dict(fourier_pixels=c, gaussian=s))):
                errs = []
                for f in (orig[name], new[name]):
                    try:
                        q(f, x, **kw)
                        errs.append(None)
                    except Exception as e2:
                        errs.append((type(e2), str(e2)))
                check(errs[0] == errs[1] and errs[0] is not None, f"odd parameters c={c!r} s={s!r}: different errors {errs}")
for bad in (np.zeros((8, 8)), np.zeros(8), np.zeros((4, 4, 4, 4))):
    errs = []
    for f in (orig["lowpass"], new["lowpass"]):
        try:
            errs.append(("ok", q(f, bad, fourier_pixels=2).tobytes()))
        except Exception as e2:
            errs.append((type(e2), str(e2)))
    check(errs[0] == errs[1], f"{bad.shape} map: different outcome")
big = rng.normal(size=(130, 128, 129))
compare("lowpass", (big,), dict(fourier_pixels=20, gaussian=2), "big box")
compare("highpass", (big,), dict(fourier_pixels=20, gaussian=0), "big box")
compare("bandpass", (big.astype(np.float32),), dict(lp_fourier_pixels=30, hp_fourier_pixels=4), "big box")

# files in, files out
tmp = os.getcwd()
m = rng.normal(size=(12, 10, 8)).astype(np.float32)
cryomap.write(m, os.path.join(tmp, "in.mrc"))
cryomap.write(m, os.path.join(tmp, "in.em"))
for ext in ("mrc", "em"):
    for name, kw in (("lowpass", dict(fourier_pixels=3)), ("highpass", dict(fourier_pixels=3)),
                     ("bandpass", dict(lp_fourier_pixels=4, hp_fourier_pixels=2))):
        a = q(new[name], os.path.join(tmp, "in." + ext), output_name=os.path.join(tmp, "new." + ext), **kw)
        b = q(orig[name], os.path.join(tmp, "in." + ext), output_name=os.path.join(tmp, "old." + ext), **kw)
        check(same(a, b), f"{name} from {ext} file differs")
        check(same(cryomap.read(os.path.join(tmp, "new." + ext)), cryomap.read(os.path.join(tmp, "old." + ext))),
              f"{name}: written {ext} file differs")
        check(close(a, q(new[name], cryomap.read(os.path.join(tmp, "in." + ext)), **kw), 0), f"{name}: file vs array")

# the mask generator itself is left as it was: fresh, writable, float64, independent results
m1 = cryomask.spherical_mask((8, 10, 12), 3, gaussian=1, gaussian_outwards=False)
m2 = cryomask.spherical_mask((8, 10, 12), 3, gaussian=1, gaussian_outwards=False)
check(m1 is not m2 and not np.shares_memory(m1, m2) and m1.flags.writeable and m1.dtype == np.float64 and np.array_equal(m1, m2),
      "spherical_mask results not fresh")
Gm, _ = model_gain((8, 10, 12), 3, 1)
m1s = fft.ifftshift(m1)
m1m = m1s
for ax in range(3):
    m1m = np.roll(np.flip(m1m, axis=ax), 1, axis=ax)
check(close(0.5 * (m1s + m1m), Gm, 1e-12), "spherical_mask != model")

# if the module keeps transfer functions between calls, what it keeps must still be what a fresh computation gives
if hasattr(cryomap, "_transfer_function"):
    for c, s in seq[-8:] + [(3, 1), (3, 1.0), (np.int64(3), 1)]:
        kept = cryomap._transfer_function((16, 12, 10), c, s)
        fresh = cryomask.spherical_mask((16, 12, 10), c, gaussian=s, gaussian_outwards=False)
        check(kept.dtype == fresh.dtype and kept.strides == fresh.strides and np.array_equal(kept, fresh), f"kept transfer function c={c} s={s} is stale")

print(f"{nchecks[0]} checks, {len(fails)} failed")
if fails:
    print("FAILED")
    sys.exit(1)
print("PASS")
