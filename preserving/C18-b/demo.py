import os
import sys

sys.path.insert(0, os.getcwd())

import warnings

warnings.filterwarnings("ignore")

import numpy as np
import pandas as pd
from scipy.spatial.transform import Rotation as srot

import cryocat
from cryocat import cryomotl, nnana, geom

assert os.path.abspath(cryocat.__file__).startswith(os.path.abspath(os.getcwd())), cryocat.__file__

FAILS = []


def check(cond, msg):
    if not cond:
        FAILS.append(msg)
        if len(FAILS) < 15:
            print("FAIL:", msg)


# ----------------------------------------------------------------------------------------------------------------
# independent reference (plain matrices, no KD tree, no scipy Rotation)
# ----------------------------------------------------------------------------------------------------------------
def rz(a):
    c, s = np.cos(np.radians(a)), np.sin(np.radians(a))
    return np.array([[c, -s, 0.0], [s, c, 0.0], [0.0, 0.0, 1.0]])


def rx(a):
    c, s = np.cos(np.radians(a)), np.sin(np.radians(a))
    return np.array([[1.0, 0.0, 0.0], [0.0, c, -s], [0.0, s, c]])


def mat_zxz(phi, theta, psi):
    # extrinsic zxz(phi, theta, psi): first phi about z, then theta about x, then psi about z
    return rz(psi) @ rx(theta) @ rz(phi)


def rot_angle_deg(m):
    # robust rotation angle of a rotation matrix
    s = np.linalg.norm([m[2, 1] - m[1, 2], m[0, 2] - m[2, 0], m[1, 0] - m[0, 1]]) / 2.0
    c = (np.trace(m) - 1.0) / 2.0
    return np.degrees(np.arctan2(s, c))


def brute_force(df_a, df_nn, k, px):
    """Expected table rows: tomogram ascending -> neighbour rank -> query particle (in list order)."""
    rows = []
    tomos = sorted(set(df_a["tomo_id"].unique()) & set(df_nn["tomo_id"].unique()))
    for t in tomos:
        a = df_a[df_a["tomo_id"].values == t]
        b = df_nn[df_nn["tomo_id"].values == t]
        pa = a[["x", "y", "z"]].to_numpy() + a[["shift_x", "shift_y", "shift_z"]].to_numpy()
        pb = b[["x", "y", "z"]].to_numpy() + b[["shift_x", "shift_y", "shift_z"]].to_numpy()
        ra = [mat_zxz(*r) for r in a[["phi", "theta", "psi"]].to_numpy()]
        rb = [mat_zxz(*r) for r in b[["phi", "theta", "psi"]].to_numpy()]
        sa = a["subtomo_id"].to_numpy()
        sb = b["subtomo_id"].to_numpy()
        kk = min(k, len(b))
        per_rank = [[] for _ in range(kk)]
        for i in range(len(a)):
            d = np.sqrt(((pb - pa[i]) ** 2).sum(axis=1))
            order = np.argsort(d, kind="stable")[:kk]
            for rank, j in enumerate(order):
                off = (pb[j] - pa[i]) * px
                rel = ra[i].T @ rb[j]
                per_rank[rank].append(
                    dict(
                        distance=d[j] * px,
                        off=off,
                        off_r=ra[i].T @ off,
                        ang=rot_angle_deg(rel),
                        rel=rel,
                        sa=sa[i],
                        sb=sb[j],
                        gap=(np.diff(np.sort(d)[: kk + 1]).min() if len(d) > 1 else 1.0),
                    )
                )
        for rank in range(kk):
            rows.extend(per_rank[rank])
    return rows


# ----------------------------------------------------------------------------------------------------------------
# input generation
# ----------------------------------------------------------------------------------------------------------------
def make_df(rng, n, tomo_ids, index_kind, box=200.0, negative=False):
    df = cryomotl.Motl.create_empty_motl_df()
    data = {c: np.zeros(n) for c in df.columns}
    lo = -box if negative else 0.0
    for c in ("x", "y", "z"):
        data[c] = np.round(rng.uniform(lo, box, n))  # integer-valued positions ...
    for c in ("shift_x", "shift_y", "shift_z"):
        data[c] = rng.uniform(-3.0, 3.0, n)  # ... plus non-zero real-valued shifts (no ties)
    data["phi"] = rng.uniform(-180, 180, n)
    data["theta"] = rng.uniform(0, 180, n)
    data["psi"] = rng.uniform(-180, 180, n)
    data["tomo_id"] = rng.choice(tomo_ids, n).astype(float)
    data["tomo_id"][: min(n, len(tomo_ids))] = tomo_ids[: min(n, len(tomo_ids))]
    data["subtomo_id"] = rng.permutation(np.arange(1, n + 1) * 3 + 1000).astype(float)
    data["score"] = rng.uniform(0, 1, n)
    data["class"] = rng.integers(1, 4, n).astype(float)
    df = pd.DataFrame(data, columns=df.columns)
    if index_kind == 1:
        df.index = rng.permutation(np.arange(100, 100 + n))
    elif index_kind == 2:
        df.index = np.arange(n)[::-1] * 7
    return df


def move_rigidly(rng, df, motions):
    """Rotate all positions and orientations of every tomogram by its own Q and translate by its own t."""
    out = df.copy()
    for t, (Q, tr) in motions.items():
        sel = out["tomo_id"].values == t
        if not sel.any():
            continue
        p = out.loc[sel, ["x", "y", "z"]].to_numpy() + out.loc[sel, ["shift_x", "shift_y", "shift_z"]].to_numpy()
        p2 = p @ Q.T + tr
        new_shift = rng.uniform(-2.0, 2.0, p2.shape)
        out.loc[sel, ["x", "y", "z"]] = p2 - new_shift
        out.loc[sel, ["shift_x", "shift_y", "shift_z"]] = new_shift
        ang = out.loc[sel, ["phi", "theta", "psi"]].to_numpy()
        new_ang = []
        for r in ang:
            m = Q @ mat_zxz(*r)
            new_ang.append(srot.from_matrix(m).as_euler("zxz", degrees=True))
        out.loc[sel, ["phi", "theta", "psi"]] = np.array(new_ang)
    return out


def random_rotation_matrix(rng):
    q = rng.normal(size=4)
    q /= np.linalg.norm(q)
    w, x, y, z = q
    return np.array(
        [
            [1 - 2 * (y * y + z * z), 2 * (x * y - z * w), 2 * (x * z + y * w)],
            [2 * (x * y + z * w), 1 - 2 * (x * x + z * z), 2 * (y * z - x * w)],
            [2 * (x * z - y * w), 2 * (y * z + x * w), 1 - 2 * (x * x + y * y)],
        ]
    )


COLS = [
    "distance", "coord_x", "coord_y", "coord_z", "coord_rx", "coord_ry", "coord_rz", "angular_distance",
    "rot_x", "rot_y", "rot_z", "phi", "theta", "psi", "subtomo_idx", "subtomo_nn_idx", "type",
]


def check_table(tag, tab, exp, k):
    check(list(tab.columns) == COLS, f"{tag}: columns {list(tab.columns)}")
    check(len(tab) == len(exp), f"{tag}: {len(tab)} rows, expected {len(exp)}")
    if len(tab) != len(exp):
        return
    check((tab["type"] == "nn").all(), f"{tag}: type column")
    scale = 1.0 + max(abs(e["off"]).max() for e in exp)
    tol = 1e-9 * scale
    for r, e in zip(tab.to_dict("records"), exp):
        if e["gap"] < 1e-7:
            continue  # distance tie: excluded by the quantifier
        ok = (
            abs(r["distance"] - e["distance"]) <= tol
            and r["subtomo_idx"] == e["sa"]
            and r["subtomo_nn_idx"] == e["sb"]
            and np.allclose([r["coord_x"], r["coord_y"], r["coord_z"]], e["off"], atol=tol, rtol=0)
            and np.allclose([r["coord_rx"], r["coord_ry"], r["coord_rz"]], e["off_r"], atol=tol, rtol=0)
            and abs(r["angular_distance"] - e["ang"]) <= 1e-4
            and np.allclose([r["rot_x"], r["rot_y"], r["rot_z"]], e["rel"][:, 2], atol=1e-9, rtol=0)
            and np.allclose(mat_zxz(r["phi"], r["theta"], r["psi"]), e["rel"], atol=1e-7, rtol=0)
        )
        check(ok, f"{tag}: row differs from brute force: got {r}, expected {e}")
        if not ok:
            return


def check_invariance(tag, tab, tab2):
    check(len(tab) == len(tab2), f"{tag}: moved table has {len(tab2)} rows, not {len(tab)}")
    if len(tab) != len(tab2):
        return
    scale = 1.0 + float(np.abs(tab[["coord_x", "coord_y", "coord_z"]].to_numpy()).max())
    for c in ("distance", "coord_rx", "coord_ry", "coord_rz"):
        check(np.allclose(tab[c], tab2[c], atol=1e-8 * scale, rtol=0), f"{tag}: {c} changed by rigid motion")
    check(np.allclose(tab["angular_distance"], tab2["angular_distance"], atol=1e-4, rtol=0), f"{tag}: angular distance changed")
    for c in ("rot_x", "rot_y", "rot_z"):
        check(np.allclose(tab[c], tab2[c], atol=1e-8, rtol=0), f"{tag}: {c} changed by rigid motion")
    m1 = np.array([mat_zxz(*r) for r in tab[["phi", "theta", "psi"]].to_numpy()])
    m2 = np.array([mat_zxz(*r) for r in tab2[["phi", "theta", "psi"]].to_numpy()])
    check(np.allclose(m1, m2, atol=1e-7, rtol=0), f"{tag}: relative orientation changed by rigid motion")
    for c in ("subtomo_idx", "subtomo_nn_idx"):
        check((tab[c].to_numpy() == tab2[c].to_numpy()).all(), f"{tag}: {c} changed by rigid motion")


def scenarios(seed=0, n_random=40):
    """Yield (tag, df_a, df_nn, k, pixel_size)."""
    rng = np.random.default_rng(seed)
    for it in range(n_random):
        n_t = int(rng.integers(1, 5))
        tomos_all = np.sort(rng.choice(np.arange(1, 40), n_t + 2, replace=False)).astype(float)
        common = tomos_all[:n_t]
        tomos_a = common if it % 3 else np.append(common, tomos_all[n_t])  # partly disjoint tomogram sets
        tomos_b = common if it % 4 else np.append(common, tomos_all[n_t + 1])
        n_a = int(rng.integers(1, 201)) if it % 5 else int(rng.integers(1, 6))
        n_b = int(rng.integers(1, 201)) if it % 7 else int(rng.integers(1, 6))
        df_a = make_df(rng, n_a, tomos_a, it % 3, negative=bool(it % 2))
        df_b = make_df(rng, n_b, tomos_b, (it + 1) % 3, negative=bool(it % 2))
        k = int(rng.integers(1, 6))
        px = float(rng.choice([1.0, 0.5, 2.17, 13.48, 1e-3]))
        yield f"random{it}", df_a, df_b, k, px
    # coincident lists (the same particles on both sides; the closest neighbour is the particle itself)
    for it in range(6):
        df = make_df(rng, int(rng.integers(2, 120)), np.array([3.0, 5.0, 11.0])[: it % 3 + 1], it % 3)
        yield f"coincident{it}", df, df.copy(), it % 5 + 1, [1.0, 2.5, 0.73][it % 3]
    # single particle lists, k larger than the second list
    df1 = make_df(rng, 1, np.array([2.0]), 0)
    df2 = make_df(rng, 1, np.array([2.0]), 1)
    yield "single", df1, df2, 1, 1.0
    yield "single_k5", df1, df2, 5, 3.3
    df3 = make_df(rng, 50, np.array([2.0, 4.0]), 2)
    yield "one_vs_many", df1, df3, 4, 1.7
    yield "many_vs_one", df3, df2, 3, 0.4


def run_property(get_nn_stats, seed=0, n_random=40):
    rng = np.random.default_rng(1000 + seed)
    n = 0
    for tag, df_a, df_b, k, px in scenarios(seed, n_random):
        a0, b0 = df_a.copy(), df_b.copy()
        m_a, m_b = cryomotl.Motl(motl_df=df_a.copy()), cryomotl.Motl(motl_df=df_b.copy())
        tab = get_nn_stats(m_a, m_b, pixel_size=px, nn_number=k)
        exp = brute_force(m_a.df, m_b.df, k, px)
        check_table(tag, tab, exp, k)
        # neighbours come in ascending order of distance for each particle
        if len(tab) == len(exp) and len(exp):
            d = {}
            for r in tab.to_dict("records"):
                d.setdefault((r["subtomo_idx"]), []).append(r["distance"])
            check(all(np.all(np.diff(v) >= 0) for v in d.values()), f"{tag}: neighbours not in ascending order")
        # repeated call on the same objects gives the same table, inputs untouched
        tab_again = get_nn_stats(m_a, m_b, pixel_size=px, nn_number=k)
        check(tab.equals(tab_again), f"{tag}: repeated call differs")
        check(m_a.df.reset_index(drop=True).equals(cryomotl.Motl(motl_df=a0).df.reset_index(drop=True)), f"{tag}: first list modified")
        check(m_b.df.reset_index(drop=True).equals(cryomotl.Motl(motl_df=b0).df.reset_index(drop=True)), f"{tag}: second list modified")
        # rigid motion, one per tomogram
        tomos = set(df_a["tomo_id"]) | set(df_b["tomo_id"])
        motions = {t: (random_rotation_matrix(rng), rng.uniform(-500, 500, 3)) for t in tomos}
        if tag.startswith("coincident"):
            moved_a = move_rigidly(rng, m_a.df, motions)
            moved_b = moved_a.copy()
        else:
            moved_a = move_rigidly(rng, m_a.df, motions)
            moved_b = move_rigidly(rng, m_b.df, motions)
        tab2 = get_nn_stats(cryomotl.Motl(motl_df=moved_a), cryomotl.Motl(motl_df=moved_b), pixel_size=px, nn_number=k)
        check_invariance(tag, tab, tab2)
        # other rotation measures keep the rest of the table
        if n % 9 == 0:
            for rt in ("cone_distance", "in_plane_distance"):
                tab3 = get_nn_stats(m_a, m_b, pixel_size=px, nn_number=k, rotation_type=rt)
                keep = [c for c in COLS if c != "angular_distance"]
                check(tab3[keep].equals(tab[keep]), f"{tag}: rotation_type={rt} changes other columns")
        n += 1
    return n


def same_tables(t1, t2):
    if list(t1.columns) != list(t2.columns) or len(t1) != len(t2):
        return False
    if not (t1.dtypes == t2.dtypes).all():
        return False
    return t1.equals(t2)


# ----------------------------------------------------------------------------------------------------------------
# original text of the refactored function (kept for a direct old-vs-current comparison)
# ----------------------------------------------------------------------------------------------------------------
ORIGINAL = '''
def get_nn_distances_original(motl_a, motl_nn, pixel_size=1.0, nn_number=1, feature="tomo_id", rotation_type="angular_distance"):
    if isinstance(motl_a, str):
        motl_a = cryomotl.Motl(motl_path=motl_a)

    if isinstance(motl_nn, str):
        motl_nn = cryomotl.Motl(motl_path=motl_nn)

    # Get unique feature idx
    features_a = np.unique(motl_a.df.loc[:, feature].values)
    features_nn = np.unique(motl_nn.df.loc[:, feature].values)

    # Work only with intersection
    features = np.intersect1d(features_a, features_nn, assume_unique=True)

    centered_coord = []
    nn_dist = []
    angular_distances = []
    rotated_coord = []
    subtomo_idx = []
    subtomo_idx_nn = []

    for f in features:
        fm_a = motl_a.get_motl_subset(f, feature_id=feature)
        fm_nn = motl_nn.get_motl_subset(f, feature_id=feature)

        idx, nn_idx, dist, nn_count = get_feature_nn_indices(fm_a, fm_nn, nn_number)

        if len(idx) == 0:
            continue

        coord_nn = fm_nn.get_coordinates() * pixel_size
        coord_a = fm_a.get_coordinates() * pixel_size

        # get angles
        angles_a = fm_a.get_angles()
        angles_a = angles_a[idx, :]
        angles_nn = fm_nn.get_angles()
        rotations = srot.from_euler("zxz", angles=angles_a, degrees=True)

        angles = -fm_a.df[["psi", "theta", "phi"]].values
        angles = angles[idx, :]
        rot = srot.from_euler("zxz", angles=angles, degrees=True)

        subtomos_nn = fm_nn.df["subtomo_id"].to_numpy()
        subtomos_a = fm_a.df["subtomo_id"].to_numpy()

        for i in range(nn_count):
            c_coord = coord_nn[nn_idx[:, i], :] - coord_a[idx, :]
            centered_coord.append(c_coord)
            nn_dist.append(dist[:, i] * pixel_size)

            angles_nn_sel = angles_nn[nn_idx[:, i], :]

            rotations_nn = srot.from_euler("zxz", angles=angles_nn_sel, degrees=True)
            angular_distances.append(geom.compare_rotations(rotations, rotations_nn, rotation_type=rotation_type))

            rotated_coord.append(rot.apply(c_coord))

            subtomo_idx_nn.append(subtomos_nn[nn_idx[:, i]])
            subtomo_idx.append(subtomos_a[idx])

    return (
        np.vstack(centered_coord),
        np.vstack(rotated_coord),
        np.concatenate(nn_dist),
        np.concatenate(angular_distances),
        np.concatenate(subtomo_idx),
        np.concatenate(subtomo_idx_nn),
    )
'''
ns = dict(vars(nnana))
exec(ORIGINAL, ns)
original = ns["get_nn_distances_original"]


def call(fn, *args, **kwargs):
    try:
        return fn(*args, **kwargs)
    except Exception as e:  # compared by type
        return e


def same_output(o, c):
    if isinstance(o, Exception) or isinstance(c, Exception):
        return type(o) is type(c)
    if len(o) != len(c):
        return False
    return all(
        isinstance(y, np.ndarray) and x.shape == y.shape and x.dtype == y.dtype and np.array_equal(x, y)
        for x, y in zip(o, c)
    )


def compare_with_original():
    n = 0
    types = ("angular_distance", "cone_distance", "in_plane_distance", "all")
    for tag, df_a, df_b, k, px in scenarios(seed=11, n_random=60):
        m_a, m_b = cryomotl.Motl(motl_df=df_a.copy()), cryomotl.Motl(motl_df=df_b.copy())
        for rt in types:
            o = call(original, m_a, m_b, pixel_size=px, nn_number=k, rotation_type=rt)
            c = call(nnana.get_nn_distances, m_a, m_b, pixel_size=px, nn_number=k, rotation_type=rt)
            if rt != "all":
                check(not isinstance(c, Exception), f"{tag}/{rt}: raised {c!r}")
            check(same_output(o, c), f"{tag}/{rt}/k={k}: get_nn_distances differs from the original function")
            n += 1
        # default arguments and another splitting feature
        o = call(original, m_a, m_b, feature="class")
        c = call(nnana.get_nn_distances, m_a, m_b, feature="class")
        check(same_output(o, c), f"{tag}: feature='class' differs from the original function")
        # whole table, original function swapped in
        cur = nnana.get_nn_stats(m_a, m_b, pixel_size=px, nn_number=k)
        keep = nnana.get_nn_distances
        nnana.get_nn_distances = original
        try:
            old = nnana.get_nn_stats(m_a, m_b, pixel_size=px, nn_number=k)
        finally:
            nnana.get_nn_distances = keep
        check(same_tables(old, cur), f"{tag}: get_nn_stats table differs from the one built with the original function")
    # "all" with equally sized blocks (the only case where the original returns something for it)
    rng = np.random.default_rng(5)
    for n_t in (1, 2):
        for k in (1, 2, 3):
            tomos = np.arange(1, n_t + 1).astype(float)
            df_a = pd.concat([make_df(rng, 6, tomos[i : i + 1], 0) for i in range(n_t)], ignore_index=True)
            df_b = pd.concat([make_df(rng, 9, tomos[i : i + 1], 0) for i in range(n_t)], ignore_index=True)
            m_a, m_b = cryomotl.Motl(motl_df=df_a), cryomotl.Motl(motl_df=df_b)
            o = call(original, m_a, m_b, nn_number=k, rotation_type="all")
            c = call(nnana.get_nn_distances, m_a, m_b, nn_number=k, rotation_type="all")
            check(not isinstance(o, Exception) and o[3].shape == (3 * n_t * k, 6), f"all/{n_t}/{k}: unexpected original output")
            check(same_output(o, c), f"all/{n_t}/{k}: rotation_type='all' differs from the original function")
            n += 1
    # tiny tomograms (1..3 query particles each) with several neighbours per particle
    for it in range(120):
        tomos = np.arange(1, it % 4 + 2).astype(float)
        df_a = make_df(rng, int(rng.integers(1, 4)) * len(tomos), tomos, it % 3)
        df_b = make_df(rng, int(rng.integers(2, 12)) * len(tomos), tomos, (it + 2) % 3)
        m_a, m_b = cryomotl.Motl(motl_df=df_a), cryomotl.Motl(motl_df=df_b)
        for rt in types[:3]:
            o = call(original, m_a, m_b, pixel_size=1.3, nn_number=it % 4 + 2, rotation_type=rt)
            c = call(nnana.get_nn_distances, m_a, m_b, pixel_size=1.3, nn_number=it % 4 + 2, rotation_type=rt)
            check(not isinstance(c, Exception), f"tiny{it}/{rt}: raised {c!r}")
            check(same_output(o, c), f"tiny{it}/{rt}: get_nn_distances differs from the original function")
            n += 1
    # fully disjoint tomogram sets: nothing to report, both raise the same error
    df_a = make_df(rng, 5, np.array([1.0]), 0)
    df_b = make_df(rng, 5, np.array([2.0]), 0)
    o = call(original, cryomotl.Motl(motl_df=df_a), cryomotl.Motl(motl_df=df_b))
    c = call(nnana.get_nn_distances, cryomotl.Motl(motl_df=df_a), cryomotl.Motl(motl_df=df_b))
    check(isinstance(o, Exception) and same_output(o, c), "disjoint: different outcome than the original function")
    return n


if __name__ == "__main__":
    n1 = run_property(nnana.get_nn_stats, seed=1, n_random=40)
    n2 = compare_with_original()
    print(f"{n1} property scenarios, {n2} old-vs-current comparisons")
    if FAILS:
        print(f"FAILED ({len(FAILS)} checks)")
        sys.exit(1)
    print("PASS")
